//! The menu of compilations C07 quantifies over.
//!
//! Every item is a closed function `fn() -> Vec<u8>`: it builds its input value from constants (or
//! from a corpus font read from disk), compiles it with the public write-fonts / klippa API and
//! returns the produced bytes. "The input value alone" of the property is therefore the item index.
//!
//! `small` items make ≤ 8 ObjectId allocations (measured, asserted by the driver) and take part in
//! the exhaustive schedule search; all items take part in gap injection, history and hash seeds.

use font_types::{F2Dot14, GlyphId, GlyphId16, Tag};
use read_fonts::collections::IntSet;
use read_fonts::{FontRef, TableProvider};
use write_fonts::from_obj::ToOwnedTable;
use write_fonts::tables::gdef::{
    CaretValue, Gdef, LigCaretList, LigGlyph,
};
use write_fonts::tables::gpos::builders::{PairPosBuilder, ValueRecordBuilder};
use write_fonts::tables::gpos::{
    Gpos, PairPos, PairSet, PairValueRecord, PositionLookup, SinglePos, ValueRecord,
};
use write_fonts::tables::gvar::{GlyphDelta, GlyphDeltas, GlyphVariations, Gvar, Tent};
use write_fonts::tables::layout::builders::Builder;
use write_fonts::tables::layout::{
    ClassDef, CoverageTable, Feature, FeatureList, FeatureRecord, LangSys, Lookup, LookupFlag,
    LookupList, Script, ScriptList, ScriptRecord,
};
use write_fonts::tables::variations::ivs_builder::VariationStoreBuilder;
use write_fonts::tables::variations::{RegionAxisCoordinates, VariationRegion};
use write_fonts::{dump_table, FontBuilder};

pub struct Item {
    pub name: &'static str,
    /// takes part in the exhaustive schedule search (≤ 8 allocations)
    pub small: bool,
    /// compilation costs ≥ ~4 ms: in the quick tier gap injection uses ≤ 1 non-zero gap for it
    /// (a fixed attribute of the value, not a measured time)
    pub heavy: bool,
    pub f: fn() -> Vec<u8>,
}

pub fn menu() -> Vec<Item> {
    vec![
        Item { name: "gdef_small", heavy: false, small: true, f: gdef_small },
        Item { name: "cmap_shared", heavy: false, small: true, f: cmap_shared },
        Item { name: "ivs_builder", heavy: false, small: true, f: ivs_builder_small },
        Item { name: "font_builder", heavy: false, small: true, f: font_builder_small },
        Item { name: "gvar_small", heavy: false, small: true, f: gvar_small },
        Item { name: "gpos_single", heavy: false, small: true, f: gpos_single },
        Item { name: "gpos_single_scripts", heavy: false, small: true, f: gpos_single_scripts },
        Item { name: "multiple_subst_dense", heavy: false, small: false, f: multiple_subst_dense },
        Item { name: "gpos_promoted", heavy: false, small: false, f: gpos_promoted },
        Item { name: "gpos_split_pairpos1", heavy: false, small: false, f: gpos_split_pairpos1 },
        Item { name: "gpos_classpair_builder", heavy: false, small: false, f: gpos_classpair_builder },
        Item { name: "gvar_shared_tuples", heavy: false, small: false, f: gvar_shared_tuples },
        Item { name: "ivs_builder_many_regions", heavy: false, small: false, f: ivs_builder_many },
        Item { name: "corpus_layout_roundtrip", heavy: false, small: false, f: corpus_layout_roundtrip },
        Item { name: "corpus_layout_anekbangla", heavy: false, small: false, f: corpus_layout_small },
        // one value per compile-path site that iterates (or could iterate) a hash container, built
        // with TIES so that an order dependence has visible consequences
        Item { name: "singlepos_builder_ties", heavy: false, small: false, f: singlepos_builder_ties },
        Item { name: "pairpos_builder_equal_classes", heavy: false, small: false, f: pairpos_builder_equal_classes },
        Item { name: "classdef_builder_ties", heavy: false, small: false, f: classdef_builder_ties },
        Item { name: "classdef_builder_near_overlaps", heavy: false, small: false, f: classdef_builder_near_overlaps },
        Item { name: "pairpos_classes_near_overlaps", heavy: false, small: false, f: pairpos_classes_near_overlaps },
        Item { name: "mark_builders_equal_classes", heavy: false, small: false, f: mark_builders_equal_classes },
        Item { name: "cursive_builder", heavy: false, small: false, f: cursive_builder },
        Item { name: "gsub_builders", heavy: false, small: false, f: gsub_builders },
        Item { name: "lookalike_typed_tables", heavy: false, small: false, f: lookalike_typed_tables },
        // every public builder again with 'degenerate but legal' inputs that invite dedup / sort
        // shortcuts: repeated glyphs in lists, duplicate rules, equal keys inserted twice, ties
        Item { name: "gsub_builders_degenerate", heavy: false, small: false, f: gsub_builders_degenerate },
        Item { name: "gpos_builders_degenerate", heavy: false, small: false, f: gpos_builders_degenerate },
        Item { name: "coverage_classdef_caret_builders_degenerate", heavy: false, small: false, f: coverage_classdef_caret_builders_degenerate },
        Item { name: "glyf_loca_builder_duplicates", heavy: false, small: false, f: glyf_loca_builder_duplicates },
        Item { name: "font_builder_degenerate", heavy: false, small: false, f: font_builder_degenerate },
        Item { name: "post_v2_repeated_names", heavy: false, small: false, f: post_v2_repeated_names },
        Item { name: "cmap_format12_duplicates", heavy: false, small: false, f: cmap_format12_duplicates },
        Item { name: "ivs_builder_ties_both_modes", heavy: false, small: false, f: ivs_builder_ties_both_modes },
        Item { name: "gpos_split_pairpos2_equal_classes", heavy: true, small: false, f: gpos_split_pairpos2 },
        Item { name: "gpos_split_mark2base", heavy: true, small: false, f: gpos_split_mark2base },
        Item { name: "gpos_two_splits_one_lookup", heavy: true, small: false, f: gpos_two_splits_one_lookup },
        Item { name: "klippa_roboto_abc", heavy: false, small: false, f: klippa_roboto },
        Item { name: "klippa_variable", heavy: false, small: false, f: klippa_variable },
    ]
}

fn g(i: u16) -> GlyphId16 {
    GlyphId16::new(i)
}

// ---------------------------------------------------------------------------------------------
// small items
// ---------------------------------------------------------------------------------------------

/// GDEF with a glyph class def, a ligature caret list with two caret values and a mark attach
/// class def: 8 objects, the quick bound of the schedule search.
fn gdef_small() -> Vec<u8> {
    let class_def: ClassDef = [(g(1), 1u16), (g(2), 1), (g(5), 3), (g(9), 2)].into_iter().collect();
    let lig = LigCaretList::new(
        [g(7)].into_iter().collect::<CoverageTable>(),
        vec![LigGlyph::new(vec![CaretValue::format_1(100), CaretValue::format_1(250)])],
    );
    let mark: ClassDef = [(g(9), 1u16)].into_iter().collect();
    let gdef = Gdef::new(Some(class_def), None, Some(lig), Some(mark));
    dump_table(&gdef).unwrap()
}

/// cmap from mappings: BMP + supplementary plane => format 4 and format 12 subtables, each shared
/// by a Unicode and a Windows encoding record (object de-duplication through the hash map).
fn cmap_shared() -> Vec<u8> {
    let mappings = vec![
        ('a', GlyphId::new(1)),
        ('b', GlyphId::new(2)),
        ('z', GlyphId::new(7)),
        ('\u{4e00}', GlyphId::new(3)),
        ('\u{1F600}', GlyphId::new(4)),
        ('\u{1F601}', GlyphId::new(5)),
    ];
    let cmap = write_fonts::tables::cmap::Cmap::from_mappings(mappings).unwrap();
    dump_table(&cmap).unwrap()
}

fn coords(min: f32, peak: f32, max: f32) -> RegionAxisCoordinates {
    RegionAxisCoordinates {
        start_coord: F2Dot14::from_f32(min),
        peak_coord: F2Dot14::from_f32(peak),
        end_coord: F2Dot14::from_f32(max),
    }
}

fn region(k: usize) -> VariationRegion {
    // a family of distinct 2-axis regions indexed by k
    let p = 0.05 + (k % 17) as f32 * 0.05;
    let q = 0.1 + (k / 17) as f32 * 0.1;
    VariationRegion::new(vec![coords(0.0, p, 1.0), coords(0.0, q.min(1.0), 1.0)])
}

/// ItemVariationStore built by the VariationStoreBuilder (regions live in a HashMap, delta sets in
/// an IndexMap; the encoder optimiser merges row shapes), then compiled.
fn ivs_builder_small() -> Vec<u8> {
    let mut b = VariationStoreBuilder::new(2);
    b.add_deltas(vec![(region(0), 512), (region(1), 266), (region(2), 1115)]);
    b.add_deltas(vec![(region(2), 20)]);
    b.add_deltas(vec![(region(2), 21)]);
    b.add_deltas(vec![(region(1), 22), (region(3), -70000)]);
    let (store, _) = b.build();
    dump_table(&store).unwrap()
}

/// A font file from FontBuilder: two compiled tables + two raw tables.
fn font_builder_small() -> Vec<u8> {
    let mut fb = FontBuilder::new();
    let maxp = write_fonts::tables::maxp::Maxp::new(10);
    fb.add_table(&maxp).unwrap();
    let cmap = write_fonts::tables::cmap::Cmap::from_mappings(vec![
        ('a', GlyphId::new(1)),
        ('\u{10000}', GlyphId::new(2)),
    ])
    .unwrap();
    fb.add_table(&cmap).unwrap();
    let mark: ClassDef = [(g(9), 1u16)].into_iter().collect();
    let gdef = Gdef::new(Some(mark), None, None, None);
    fb.add_table(&gdef).unwrap();
    fb.add_raw(Tag::new(b"zzzz"), vec![1u8, 2, 3]);
    fb.add_raw(Tag::new(b"aaaa"), vec![9u8; 5]);
    fb.build()
}

fn peaks(v: &[f32]) -> Vec<Tent> {
    v.iter().map(|p| Tent::new(F2Dot14::from_f32(*p), None)).collect()
}

fn deltas(n: usize, k: i16) -> Vec<GlyphDelta> {
    (0..n)
        .map(|i| {
            let i = i as i16;
            if (i + k) % 3 == 0 {
                GlyphDelta::optional(i * k, -i)
            } else {
                GlyphDelta::required(i * k + 1, 300 - i * 7)
            }
        })
        .collect()
}

/// gvar with one shared peak tuple and three glyphs (one empty).
fn gvar_small() -> Vec<u8> {
    let gvar = Gvar::new(
        vec![
            GlyphVariations::new(GlyphId::new(0), vec![]),
            GlyphVariations::new(GlyphId::new(1), vec![GlyphDeltas::new(peaks(&[1.0, 1.0]), deltas(5, 3))]),
            GlyphVariations::new(
                GlyphId::new(2),
                vec![
                    GlyphDeltas::new(peaks(&[1.0, 1.0]), deltas(5, 7)),
                    GlyphDeltas::new(peaks(&[0.8, 1.0]), deltas(5, -2)),
                ],
            ),
        ],
        2,
    )
    .unwrap();
    dump_table(&gvar).unwrap()
}

fn simple_script_feature_lists(n_lookups: u16) -> (ScriptList, FeatureList) {
    let langsys = LangSys::new(vec![0]);
    let script = Script::new(Some(langsys), vec![]);
    let sl = ScriptList::new(vec![ScriptRecord::new(Tag::new(b"latn"), script)]);
    let feat = Feature::new(None, (0..n_lookups).collect());
    let fl = FeatureList::new(vec![FeatureRecord::new(Tag::new(b"kern"), feat)]);
    (sl, fl)
}

/// GPOS with (empty, hence de-duplicated) script/feature lists and one SinglePos lookup.
fn gpos_single() -> Vec<u8> {
    let cov: CoverageTable = [g(3), g(4)].into_iter().collect();
    let sp = SinglePos::format_1(cov, ValueRecord::new().with_x_advance(-40));
    let lookup = PositionLookup::Single(Lookup::new(LookupFlag::empty(), vec![sp]));
    let gpos = Gpos::new(Default::default(), Default::default(), LookupList::new(vec![lookup]));
    dump_table(&gpos).unwrap()
}

/// The same lookup below real script and feature lists: 10 objects (thorough 2-thread bound).
fn gpos_single_scripts() -> Vec<u8> {
    let cov: CoverageTable = [g(3), g(4)].into_iter().collect();
    let sp = SinglePos::format_1(cov, ValueRecord::new().with_x_advance(-40));
    let lookup = PositionLookup::Single(Lookup::new(LookupFlag::empty(), vec![sp]));
    let (sl, fl) = simple_script_feature_lists(1);
    let gpos = Gpos::new(sl, fl, LookupList::new(vec![lookup]));
    dump_table(&gpos).unwrap()
}

// ---------------------------------------------------------------------------------------------
// larger items
// ---------------------------------------------------------------------------------------------

/// Allocation-dense value: a MultipleSubst with 96 distinct tiny Sequence tables (one ObjectId every
/// few dozen nanoseconds). Used by the free-running pass to hammer the counter, and by the gap,
/// history and seed dimensions like every other value.
fn multiple_subst_dense() -> Vec<u8> {
    use write_fonts::tables::gsub::{Gsub, MultipleSubstFormat1, Sequence, SubstitutionLookup};
    let n = 96u16;
    let coverage: CoverageTable = (10..10 + n).map(g).collect();
    let sequences = (0..n).map(|i| Sequence::new(vec![g(200 + i), g(400 + 2 * i)])).collect();
    let sub = MultipleSubstFormat1::new(coverage, sequences);
    let lookup = SubstitutionLookup::Multiple(Lookup::new(LookupFlag::empty(), vec![sub]));
    let gsub = Gsub::new(Default::default(), Default::default(), LookupList::new(vec![lookup]));
    dump_table(&gsub).unwrap()
}

fn big_pair_pos(first: u16, n_sets: u16, per_set: u16) -> PairPos {
    let coverage = (first..first + n_sets).map(g).collect();
    let pair_sets = (first..first + n_sets)
        .map(|id| {
            let v = ValueRecord::new().with_x_advance(id as i16);
            PairSet::new(
                (id..id + per_set)
                    .map(|id2| PairValueRecord::new(g(id2), v.clone(), ValueRecord::default()))
                    .collect(),
            )
        })
        .collect::<Vec<_>>();
    PairPos::format_1(coverage, pair_sets)
}

/// GPOS whose lookups do not fit 16-bit offsets => the packer promotes lookups to extension
/// lookups (graph.rs try_promoting_subtables / assign_spaces / sort_shortest_distance).
fn gpos_promoted() -> Vec<u8> {
    let lookups = [(1u16, 3u16), (100, 3), (200, 4), (400, 3)]
        .into_iter()
        .map(|(first, n)| {
            PositionLookup::Pair(Lookup::new(
                LookupFlag::empty(),
                vec![big_pair_pos(first, n, 1500)],
            ))
        })
        .collect();
    let (sl, fl) = simple_script_feature_lists(4);
    let gpos = Gpos::new(sl, fl, LookupList::new(lookups));
    dump_table(&gpos).unwrap()
}

/// One PairPos format 1 subtable larger than 64 KiB => table splitting (graph/splitting.rs).
fn gpos_split_pairpos1() -> Vec<u8> {
    let lookup = PositionLookup::Pair(Lookup::new(
        LookupFlag::empty(),
        vec![big_pair_pos(0, 24, 800)],
    ));
    let gpos = Gpos::new(Default::default(), Default::default(), LookupList::new(vec![lookup]));
    dump_table(&gpos).unwrap()
}

fn gset(ids: &[u16]) -> IntSet<GlyphId16> {
    ids.iter().map(|i| g(*i)).collect()
}

/// Class based kerning through PairPosBuilder (ClassDefBuilder keeps classes in a HashSet and
/// returns a HashMap mapping), with variable value records feeding a VariationStoreBuilder whose
/// store is attached to a GDEF; output = GPOS bytes ++ GDEF bytes.
fn gpos_classpair_builder() -> Vec<u8> {
    let mut var_store = VariationStoreBuilder::new(2);
    let mut b = PairPosBuilder::default();
    let firsts: [&[u16]; 6] = [&[10, 11, 12], &[20], &[30, 31], &[40, 41, 42, 43], &[50], &[60, 61]];
    let seconds: [&[u16]; 5] = [&[100, 101], &[110], &[120, 121, 122], &[130], &[140, 141]];
    for (i, f) in firsts.iter().enumerate() {
        for (j, s) in seconds.iter().enumerate() {
            if (i + 2 * j) % 4 == 3 {
                continue;
            }
            let adv = (i as i16 + 1) * 10 - (j as i16) * 7;
            let mut v1 = ValueRecordBuilder::new().with_x_advance(adv);
            if (i + j) % 3 == 0 {
                v1 = v1.with_x_advance_device(vec![
                    (region(i), adv / 2),
                    (region(j + 6), -(adv / 3) - 1),
                ]);
            }
            b.insert_classes(gset(f), v1, gset(s), ValueRecordBuilder::new());
        }
    }
    // plus a few glyph pairs
    for k in 0..7u16 {
        b.insert_pair(
            g(200 + k),
            ValueRecordBuilder::new().with_x_advance(k as i16 - 3),
            g(300 + (k * 5) % 7),
            ValueRecordBuilder::new(),
        );
    }
    let subtables = b.build(&mut var_store);
    let lookup = PositionLookup::Pair(Lookup::new(LookupFlag::empty(), subtables));
    let (sl, fl) = simple_script_feature_lists(1);
    let mut gpos = Gpos::new(sl, fl, LookupList::new(vec![lookup]));
    let (store, remap) = var_store.build();
    use write_fonts::tables::variations::ivs_builder::RemapVariationIndices;
    gpos.remap_variation_indices(&remap);
    let mut gdef = Gdef::new(None, None, None, None);
    gdef.item_var_store = store.into();
    let mut out = dump_table(&gpos).unwrap();
    out.extend(dump_table(&gdef).unwrap());
    out
}

/// gvar with many glyphs and several peak tuples whose use counts tie (shared tuple order is decided
/// by an IndexMap + stable sort), intermediate tents and optional deltas.
fn gvar_shared_tuples() -> Vec<u8> {
    let peak_sets: [[f32; 2]; 6] =
        [[1.0, 0.0], [0.0, 1.0], [1.0, 1.0], [-1.0, 0.0], [0.5, 1.0], [-1.0, -1.0]];
    let mut glyphs = vec![];
    for gid in (0..24u32).rev() {
        let mut vars = vec![];
        for (k, p) in peak_sets.iter().enumerate() {
            if (gid as usize + k) % 3 == 0 {
                continue;
            }
            let tents = if (gid as usize + k) % 5 == 0 {
                vec![
                    Tent::new(
                        F2Dot14::from_f32(p[0]),
                        Some((F2Dot14::from_f32(p[0].min(0.0)), F2Dot14::from_f32(p[0].max(0.0)))),
                    ),
                    Tent::new(F2Dot14::from_f32(p[1]), None),
                ]
            } else {
                peaks(p)
            };
            vars.push(GlyphDeltas::new(tents, deltas(4 + (gid as usize % 3) * 30, k as i16 - 2)));
        }
        if gid % 7 == 3 {
            vars.clear();
        }
        glyphs.push(GlyphVariations::new(GlyphId::new(gid), vars));
    }
    let gvar = Gvar::new(glyphs, 2).unwrap();
    dump_table(&gvar).unwrap()
}

/// Variation store with 40 regions, some unused after zero pruning, many row shapes.
fn ivs_builder_many() -> Vec<u8> {
    let mut b = VariationStoreBuilder::new(2);
    for row in 0..120usize {
        let mut d = vec![];
        for k in 0..40usize {
            if (row * 7 + k * 3) % 11 < 2 {
                let val: i32 = match (row + k) % 4 {
                    0 => 0,
                    1 => (row as i32) - 60,
                    2 => 300 + k as i32,
                    _ => 70000 - row as i32,
                };
                d.push((region(k), val));
            }
        }
        b.add_deltas(d);
    }
    let (store, _) = b.build();
    dump_table(&store).unwrap()
}

// ---------------------------------------------------------------------------------------------
// values aimed at hash-container sites (ties everywhere)
// ---------------------------------------------------------------------------------------------

use write_fonts::tables::gpos::builders::{
    AnchorBuilder, CursivePosBuilder, MarkToBaseBuilder, MarkToLigBuilder, MarkToMarkBuilder,
    SinglePosBuilder,
};
use write_fonts::tables::layout::builders::ClassDefBuilder;

fn gpos_of(lookups: Vec<PositionLookup>) -> Vec<u8> {
    let n = lookups.len() as u16;
    let (sl, fl) = simple_script_feature_lists(n);
    let gpos = Gpos::new(sl, fl, LookupList::new(lookups));
    dump_table(&gpos).unwrap()
}

/// SinglePosBuilder: three groups of 3 glyphs sharing a record (=> three format-1 subtables of equal
/// coverage size, found through `group_by_record`) and three value formats with 3 glyphs each and
/// distinct values (=> three format-2 subtables of the same size, through `group_by_format`): six
/// subtables tied on coverage length, ordered only by the first-glyph tie-break.
fn singlepos_builder_ties() -> Vec<u8> {
    let mut b = SinglePosBuilder::default();
    for (k, first) in [30u16, 10, 20].into_iter().enumerate() {
        for i in 0..3 {
            let rec = ValueRecordBuilder::new().with_x_advance(-10 * (k as i16 + 1)).with_x_placement(5);
            b.insert(g(first + i), rec);
        }
    }
    for i in 0..3u16 {
        b.insert(g(70 + i), ValueRecordBuilder::new().with_x_placement(i as i16 + 1));
        b.insert(g(50 + i), ValueRecordBuilder::new().with_y_placement(i as i16 + 1));
        b.insert(g(60 + i), ValueRecordBuilder::new().with_y_advance(i as i16 + 1));
    }
    let mut vs = VariationStoreBuilder::new(2);
    let subtables = b.build(&mut vs);
    gpos_of(vec![PositionLookup::Single(Lookup::new(LookupFlag::empty(), subtables))])
}

/// PairPosBuilder: glyph pairs in three value-format groups of equal size and class pairs where every
/// class has exactly two glyphs; overlapping first classes force a second class-pair subtable.
fn pairpos_builder_equal_classes() -> Vec<u8> {
    let mut b = PairPosBuilder::default();
    for i in 0..4u16 {
        b.insert_pair(g(300 + i), ValueRecordBuilder::new().with_x_advance(i as i16 + 1), g(310 + i), ValueRecordBuilder::new());
        b.insert_pair(g(320 + i), ValueRecordBuilder::new().with_x_placement(i as i16 + 1), g(330 + i), ValueRecordBuilder::new());
        b.insert_pair(g(340 + i), ValueRecordBuilder::new().with_y_advance(i as i16 + 1), g(350 + i), ValueRecordBuilder::new().with_x_advance(2));
    }
    // decreasing first glyphs so that insertion order is the opposite of the sorted order
    for i in (0..6u16).rev() {
        for j in (0..5u16).rev() {
            b.insert_classes(
                gset(&[10 + 2 * i, 11 + 2 * i]),
                ValueRecordBuilder::new().with_x_advance((i * 7 + j) as i16 - 9),
                gset(&[100 + 2 * j, 101 + 2 * j]),
                ValueRecordBuilder::new(),
            );
        }
    }
    // overlaps class [10, 11] without being equal to it => new subtable
    for j in 0..3u16 {
        b.insert_classes(gset(&[11, 40]), ValueRecordBuilder::new().with_x_advance(33), gset(&[200 + 2 * j, 201 + 2 * j]), ValueRecordBuilder::new());
        b.insert_classes(gset(&[42, 43]), ValueRecordBuilder::new().with_x_advance(34), gset(&[200 + 2 * j, 201 + 2 * j]), ValueRecordBuilder::new());
    }
    let mut vs = VariationStoreBuilder::new(2);
    let subtables = b.build(&mut vs);
    gpos_of(vec![PositionLookup::Pair(Lookup::new(LookupFlag::empty(), subtables))])
}

/// ClassDefBuilder (classes live in a HashSet, mapping returned as a HashMap): eight classes of two
/// glyphs each and four singletons, with and without class 0.
fn classdef_builder_ties() -> Vec<u8> {
    let mut out = vec![];
    for use0 in [false, true] {
        let mut b = if use0 { ClassDefBuilder::new_using_class_0() } else { ClassDefBuilder::new() };
        for k in [5u16, 2, 7, 0, 3, 6, 1, 4] {
            b.checked_add(gset(&[20 + 3 * k, 21 + 3 * k]));
        }
        for k in [3u16, 0, 2, 1] {
            b.checked_add(gset(&[90 + 5 * k]));
        }
        let (cd, mapping) = b.build_with_mapping();
        out.extend(dump_table(&cd).unwrap());
        // the mapping is part of the result too: emit it in a canonical (sorted) form
        let mut m: Vec<(Vec<u16>, u16)> = mapping.into_iter().map(|(k, v)| (k.iter().map(|x| x.to_u16()).collect(), v)).collect();
        m.sort();
        for (k, v) in m {
            out.extend(k.iter().flat_map(|x| x.to_be_bytes()));
            out.extend(v.to_be_bytes());
        }
    }
    out
}

fn grange(a: u16, b: u16) -> IntSet<GlyphId16> {
    (a..=b).map(g).collect()
}

/// 'Nearly overlapping' class sets for the acceptance test of ClassDefBuilder (`can_add` /
/// `checked_add`): after a class with scattered glyphs, offer (i) a contiguous run that strictly
/// contains one of its glyphs, (ii) runs that end / start exactly at one, (iii) the identical class,
/// (iv) a disjoint class, (v) a run containing a whole earlier run. A correct builder rejects
/// (i), (ii), (v), so the classes stay disjoint and the HashMap-driven ClassDef is order free; any
/// acceptance slip makes a glyph a member of two classes and the hash order observable.
/// Output: accept/reject bits + ClassDef bytes + sorted mapping, for both class-0 modes.
fn classdef_builder_near_overlaps() -> Vec<u8> {
    let mut out = vec![];
    for use0 in [false, true] {
        let mut b = if use0 { ClassDefBuilder::new_using_class_0() } else { ClassDefBuilder::new() };
        let offers: Vec<IntSet<GlyphId16>> = vec![
            gset(&[15, 30]),
            grange(10, 20),       // strictly contains 15
            gset(&[15, 30]),      // identical
            grange(25, 30),       // ends exactly at 30
            grange(30, 33),       // starts exactly at 30
            grange(40, 45),       // disjoint
            grange(38, 47),       // contains the whole run 40..=45
            grange(41, 44),       // strictly inside 40..=45
            gset(&[60, 70, 80]),
            grange(55, 65),       // strictly contains 60
            grange(66, 75),       // strictly contains 70
            grange(76, 85),       // strictly contains 80
            grange(100, 101),
            grange(90, 110),      // strictly contains the run 100..=101
            gset(&[200]),         // disjoint singleton
        ];
        for cls in offers {
            out.push(b.checked_add(cls) as u8);
        }
        let (cd, mapping) = b.build_with_mapping();
        out.extend(dump_table(&cd).unwrap());
        let mut m: Vec<(Vec<u16>, u16)> = mapping.into_iter().map(|(k, v)| (k.iter().map(|x| x.to_u16()).collect(), v)).collect();
        m.sort();
        for (k, v) in m {
            out.extend(k.iter().flat_map(|x| x.to_be_bytes()));
            out.extend(v.to_be_bytes());
        }
    }
    out
}

/// The same near-overlaps through the public kerning API: PairPosBuilder::insert_classes decides with
/// ClassDefBuilder::can_add (for the first and for the second class) whether a rule joins the current
/// class-pair subtable or starts a new one.
fn pairpos_classes_near_overlaps() -> Vec<u8> {
    let mut b = PairPosBuilder::default();
    let v = |x: i16| ValueRecordBuilder::new().with_x_advance(x);
    let rules: Vec<(IntSet<GlyphId16>, IntSet<GlyphId16>, i16)> = vec![
        // second classes: scattered, then a run strictly containing 15
        (gset(&[1, 2]), gset(&[15, 30]), -10),
        (gset(&[3, 4]), grange(10, 20), -20),
        // identical classes again, disjoint classes
        (gset(&[1, 2]), gset(&[15, 30]), -10),
        (gset(&[5, 6]), grange(40, 45), -30),
        // first classes: scattered, then runs strictly containing / ending at / starting at a member
        (gset(&[50, 60]), gset(&[100]), 11),
        (grange(45, 55), gset(&[101]), 12),
        (grange(56, 60), gset(&[102]), 13),
        (grange(60, 62), gset(&[103]), 14),
        // three more strict containments on the second class, each in its own glyph range
        (gset(&[7]), gset(&[300, 310, 320]), 21),
        (gset(&[8]), grange(295, 305), 22),
        (gset(&[9]), grange(306, 315), 23),
        (gset(&[11]), grange(316, 325), 24),
        // a run containing a whole earlier run, and one strictly inside an earlier run
        (gset(&[12]), grange(400, 401), 31),
        (gset(&[13]), grange(390, 410), 32),
        (gset(&[14]), grange(420, 430), 33),
        (gset(&[16]), grange(424, 426), 34),
    ];
    for (c1, c2, adv) in rules {
        b.insert_classes(c1, v(adv), c2, ValueRecordBuilder::new());
    }
    let mut vs = VariationStoreBuilder::new(2);
    let subtables = b.build(&mut vs);
    gpos_of(vec![PositionLookup::Pair(Lookup::new(LookupFlag::empty(), subtables))])
}

const MARK_CLASSES: [&str; 4] = ["top", "bottom", "ring", "cedilla"];

/// Mark-to-base, mark-to-mark and mark-to-ligature builders (class names live in a
/// HashMap<String, u16>) with four mark classes of two marks each.
fn mark_builders_equal_classes() -> Vec<u8> {
    let mut vs = VariationStoreBuilder::new(2);
    let mut mb = MarkToBaseBuilder::default();
    let mut mm = MarkToMarkBuilder::default();
    let mut ml = MarkToLigBuilder::default();
    for (ci, cls) in MARK_CLASSES.iter().enumerate().rev() {
        for k in 0..2u16 {
            let gid = g(500 + 2 * ci as u16 + k);
            let a = AnchorBuilder::new(10 * ci as i16 + k as i16, -20 + ci as i16);
            mb.insert_mark(gid, cls, a.clone()).unwrap();
            mm.insert_mark1(gid, cls, a.clone()).unwrap();
            ml.insert_mark(gid, cls, a).unwrap();
        }
    }
    for base in 0..5u16 {
        for (ci, cls) in MARK_CLASSES.iter().enumerate() {
            if (base as usize + ci) % 3 == 2 {
                continue;
            }
            mb.insert_base(g(40 + base), cls, AnchorBuilder::new(100 + base as i16, 300 + 11 * ci as i16));
            mm.insert_mark2(g(520 + base), cls, AnchorBuilder::new(base as i16, 50 + ci as i16));
        }
    }
    for lig in 0..3u16 {
        for (ci, cls) in MARK_CLASSES.iter().enumerate() {
            let comps = (0..2 + lig as usize)
                .map(|c| if (c + ci) % 2 == 0 { Some(AnchorBuilder::new(c as i16 * 100 + ci as i16, 400)) } else { None })
                .collect();
            ml.insert_ligature(g(600 + lig), cls, comps);
        }
    }
    let l1 = PositionLookup::MarkToBase(Lookup::new(LookupFlag::empty(), mb.build(&mut vs)));
    let l2 = PositionLookup::MarkToMark(Lookup::new(LookupFlag::empty(), mm.build(&mut vs)));
    let l3 = PositionLookup::MarkToLig(Lookup::new(LookupFlag::empty(), ml.build(&mut vs)));
    gpos_of(vec![l1, l2, l3])
}

fn cursive_builder() -> Vec<u8> {
    let mut b = CursivePosBuilder::default();
    for i in (0..8u16).rev() {
        let entry = (i % 3 != 0).then(|| AnchorBuilder::new(i as i16, 10));
        let exit = (i % 4 != 1).then(|| AnchorBuilder::new(200 + (i % 2) as i16, 10));
        b.insert(g(80 + i), entry, exit);
    }
    let mut vs = VariationStoreBuilder::new(2);
    gpos_of(vec![PositionLookup::Cursive(Lookup::new(LookupFlag::empty(), b.build(&mut vs)))])
}

/// The four GSUB builders in one table; ligature sets of equal length and equal-length ligatures.
fn gsub_builders() -> Vec<u8> {
    use write_fonts::tables::gsub::builders::{AlternateSubBuilder, LigatureSubBuilder, MultipleSubBuilder, SingleSubBuilder};
    use write_fonts::tables::gsub::{Gsub, SubstitutionLookup};
    let mut vs = VariationStoreBuilder::new(2);
    let mut s1 = SingleSubBuilder::default();
    let mut s2 = SingleSubBuilder::default();
    let mut mu = MultipleSubBuilder::default();
    let mut al = AlternateSubBuilder::default();
    let mut li = LigatureSubBuilder::default();
    for i in (0..6u16).rev() {
        s1.insert(g(10 + i), g(110 + i)); // constant delta => format 1
        s2.insert(g(10 + i), g(300 - 7 * i)); // format 2
        mu.insert(g(20 + i), vec![g(400 + i), g(401 + i)]);
        al.insert(g(30 + i), vec![g(500 + i), g(510 + i), g(520 + i)]);
        for k in (0..3u16).rev() {
            li.insert(vec![g(40 + i), g(60 + k), g(61 + k)], g(700 + 3 * i + k));
            li.insert(vec![g(40 + i), g(70 + k)], g(800 + 3 * i + k));
        }
    }
    let lookups = vec![
        SubstitutionLookup::Single(Lookup::new(LookupFlag::empty(), s1.build(&mut vs))),
        SubstitutionLookup::Single(Lookup::new(LookupFlag::empty(), s2.build(&mut vs))),
        SubstitutionLookup::Multiple(Lookup::new(LookupFlag::empty(), mu.build(&mut vs))),
        SubstitutionLookup::Alternate(Lookup::new(LookupFlag::empty(), al.build(&mut vs))),
        SubstitutionLookup::Ligature(Lookup::new(LookupFlag::empty(), li.build(&mut vs))),
    ];
    let gsub = Gsub::new(Default::default(), Default::default(), LookupList::new(lookups));
    dump_table(&gsub).unwrap()
}

/// Look-alike tables of DIFFERENT write-fonts types that compile to identical bytes with identical
/// children, so that the object store's dedup map (HashMap<TableData, ObjectId>) must treat them the
/// same way under every hash seed: 64 (MultipleSubstFormat1, AlternateSubstFormat1) pairs with the
/// same coverage and glyph lists, and 8 (MarkBasePosFormat1 + BaseArray, MarkMarkPosFormat1 +
/// Mark2Array) pairs with the same marks, classes and anchors. A Hash/Eq inconsistency on the table
/// type makes each pair shared or written twice depending on the map's keys.
fn lookalike_typed_tables() -> Vec<u8> {
    use write_fonts::tables::gsub::{AlternateSet, AlternateSubstFormat1, Gsub, MultipleSubstFormat1, Sequence, SubstitutionLookup};
    let mut multi = vec![];
    let mut alt = vec![];
    for k in 0..64u16 {
        let cov: CoverageTable = [g(10 + 3 * k), g(11 + 3 * k)].into_iter().collect();
        let lists = [vec![g(500 + k), g(600 + k)], vec![g(700 + k)]];
        multi.push(MultipleSubstFormat1::new(cov.clone(), lists.iter().cloned().map(Sequence::new).collect()));
        alt.push(AlternateSubstFormat1::new(cov, lists.iter().cloned().map(AlternateSet::new).collect()));
    }
    let gsub = Gsub::new(
        Default::default(),
        Default::default(),
        LookupList::new(vec![
            SubstitutionLookup::Multiple(Lookup::new(LookupFlag::empty(), multi)),
            SubstitutionLookup::Alternate(Lookup::new(LookupFlag::empty(), alt)),
        ]),
    );
    let mut out = dump_table(&gsub).unwrap();
    let mut vs = VariationStoreBuilder::new(2);
    let mut m2b = vec![];
    let mut m2m = vec![];
    for k in 0..8u16 {
        let mut mb = MarkToBaseBuilder::default();
        let mut mm = MarkToMarkBuilder::default();
        for (ci, cls) in ["top", "bottom"].iter().enumerate() {
            let mark = g(900 + 4 * k + ci as u16);
            let a = AnchorBuilder::new(10 * k as i16 + ci as i16, -7);
            mb.insert_mark(mark, cls, a.clone()).unwrap();
            mm.insert_mark1(mark, cls, a).unwrap();
        }
        for base in 0..2u16 {
            for (ci, cls) in ["top", "bottom"].iter().enumerate() {
                let a = AnchorBuilder::new(100 + k as i16, 300 + 10 * ci as i16 + base as i16);
                mb.insert_base(g(950 + 4 * k + base), cls, a.clone());
                mm.insert_mark2(g(950 + 4 * k + base), cls, a);
            }
        }
        m2b.extend(mb.build(&mut vs));
        m2m.extend(mm.build(&mut vs));
    }
    out.extend(gpos_of(vec![
        PositionLookup::MarkToBase(Lookup::new(LookupFlag::empty(), m2b)),
        PositionLookup::MarkToMark(Lookup::new(LookupFlag::empty(), m2m)),
    ]));
    out
}

/// All four GSUB builders inside LookupBuilders (with a mark filtering set and forced subtable breaks),
/// fed in a fixed order with: the same rule twice, the same key with a different value (last / first
/// wins as documented), replacement and alternate lists that repeat glyphs (e.g. the alternates
/// [31,35,32,36,33,31,34]: order and repeats must be written as given), ligatures with repeated
/// components, equal-length ligatures inserted in different orders and exact duplicate ligatures.
fn gsub_builders_degenerate() -> Vec<u8> {
    use write_fonts::tables::gsub::builders::{AlternateSubBuilder, LigatureSubBuilder, MultipleSubBuilder, SingleSubBuilder};
    use write_fonts::tables::gsub::{Gsub, SubstitutionLookup};
    use write_fonts::tables::layout::builders::LookupBuilder;
    let mut vs = VariationStoreBuilder::new(2);
    let flags = LookupFlag::empty();

    let mut single = LookupBuilder::<SingleSubBuilder>::new(LookupFlag::USE_MARK_FILTERING_SET, Some(3));
    for (a, b) in [(12u16, 40u16), (10, 40), (11, 41), (10, 40), (12, 40), (13, 40), (12, 44)] {
        single.last_mut().unwrap().insert(g(a), g(b));
    }
    single.force_subtable_break();
    for (a, b) in [(22u16, 23u16), (21, 22), (22, 23), (20, 21)] {
        single.last_mut().unwrap().insert(g(a), g(b));
    }

    let mut multi = LookupBuilder::<MultipleSubBuilder>::new(flags, None);
    for (t, r) in [(30u16, vec![5u16, 5, 6, 5]), (29, vec![7, 7]), (30, vec![5, 5, 6, 5]), (31, vec![9, 8, 9, 8, 9]), (28, vec![5, 5, 6, 5])] {
        multi.last_mut().unwrap().insert(g(t), r.into_iter().map(g).collect());
    }

    let mut alt = LookupBuilder::<AlternateSubBuilder>::new(flags, None);
    for (t, r) in [
        (50u16, vec![31u16, 35, 32, 36, 33, 31, 34]),
        (52, vec![60, 60]),
        (51, vec![70, 71, 72]),
        (53, vec![83, 82, 81, 80, 83, 82, 81, 80, 79]),
        (51, vec![72, 71, 70, 71]),
        (54, vec![90, 91, 92, 93, 94, 95, 96, 90]),
    ] {
        alt.last_mut().unwrap().insert(g(t), r.into_iter().map(g).collect());
    }
    alt.force_subtable_break();
    alt.last_mut().unwrap().insert(g(55), [101u16, 100, 101, 102, 100].into_iter().map(g).collect());

    let mut lig = LookupBuilder::<LigatureSubBuilder>::new(flags, None);
    for (comps, r) in [
        (vec![60u16, 61, 62], 200u16),
        (vec![60, 62, 61], 201),
        (vec![60, 61, 62], 200), // exact duplicate: skipped
        (vec![60, 60, 60], 202), // repeated components
        (vec![60, 61], 203),
        (vec![60, 62], 204),
        (vec![60, 60], 205),
        (vec![59, 61, 62, 63], 206),
        (vec![59, 61], 207),
        (vec![59, 61, 62, 64], 208),
    ] {
        lig.last_mut().unwrap().insert(comps.into_iter().map(g).collect(), g(r));
    }

    let lookups = vec![
        SubstitutionLookup::Single(single.build(&mut vs)),
        SubstitutionLookup::Multiple(multi.build(&mut vs)),
        SubstitutionLookup::Alternate(alt.build(&mut vs)),
        SubstitutionLookup::Ligature(lig.build(&mut vs)),
    ];
    let gsub = Gsub::new(Default::default(), Default::default(), LookupList::new(lookups));
    dump_table(&gsub).unwrap()
}

/// The GPOS builders inside LookupBuilders with degenerate inputs: the same glyph / pair / class rule
/// inserted twice (same and different values), marks inserted twice, a base given two anchors for one
/// class, ligature components supplied in two calls, anchors with device tables and with deltas
/// (identical delta sets repeated), contour-point anchors. Output: GPOS bytes ++ variation store bytes.
fn gpos_builders_degenerate() -> Vec<u8> {
    use write_fonts::tables::layout::builders::LookupBuilder;
    use write_fonts::tables::layout::Device;
    use write_fonts::tables::variations::ivs_builder::RemapVariationIndices;
    let mut vs = VariationStoreBuilder::new(2);
    let flags = LookupFlag::empty();
    let dev = || Device::new(9, 12, &[1, -1, 2, 0]);
    let var = |k: usize, v: i16| vec![(region(k), v), (region(k + 1), -v)];

    let mut sp = LookupBuilder::<SinglePosBuilder>::new(flags, None);
    for (gl, adv) in [(12u16, -10i16), (10, -10), (11, -10), (10, -10), (12, -12), (14, 5), (13, 5)] {
        sp.last_mut().unwrap().insert(g(gl), ValueRecordBuilder::new().with_x_advance(adv).with_x_advance_device(var(0, adv)));
    }
    sp.last_mut().unwrap().insert(g(15), ValueRecordBuilder::new().with_y_placement(3).with_y_placement_device(dev()));
    sp.last_mut().unwrap().insert(g(16), ValueRecordBuilder::new().with_y_placement(3).with_y_placement_device(dev()));

    let mut pp = LookupBuilder::<PairPosBuilder>::new(flags, None);
    for (a, b, adv) in [(1u16, 2u16, -5i16), (1, 2, -7), (1, 3, -5), (2, 2, -5), (1, 2, -5), (2, 1, 0)] {
        pp.last_mut().unwrap().insert_pair(g(a), ValueRecordBuilder::new().with_x_advance(adv), g(b), ValueRecordBuilder::new());
    }
    for _ in 0..2 {
        pp.last_mut().unwrap().insert_classes(gset(&[20, 21]), ValueRecordBuilder::new().with_x_advance(-3), gset(&[30, 31]), ValueRecordBuilder::new());
        pp.last_mut().unwrap().insert_classes(gset(&[22, 23]), ValueRecordBuilder::new().with_x_advance(-3), gset(&[30, 31]), ValueRecordBuilder::new());
    }
    pp.last_mut().unwrap().insert_classes(gset(&[20, 21]), ValueRecordBuilder::new().with_x_advance(-4), gset(&[30, 31]), ValueRecordBuilder::new());

    let mut cu = LookupBuilder::<CursivePosBuilder>::new(flags, None);
    for (gl, x) in [(40u16, 1i16), (41, 2), (40, 3), (42, 2), (41, 2)] {
        cu.last_mut().unwrap().insert(g(gl), Some(AnchorBuilder::new(x, 0).with_contourpoint(2)), Some(AnchorBuilder::new(100, x).with_x_device(var(2, x))));
    }

    let mut mb = LookupBuilder::<MarkToBaseBuilder>::new(LookupFlag::USE_MARK_FILTERING_SET, Some(1));
    let mut mm = LookupBuilder::<MarkToMarkBuilder>::new(flags, None);
    let mut ml = LookupBuilder::<MarkToLigBuilder>::new(flags, None);
    for _rep in 0..2 {
        for (gl, cls) in [(501u16, "top"), (500, "top"), (503, "bottom"), (502, "bottom")] {
            let a = AnchorBuilder::new(7, 8).with_y_device(dev());
            mb.last_mut().unwrap().insert_mark(g(gl), cls, a.clone()).unwrap();
            mm.last_mut().unwrap().insert_mark1(g(gl), cls, a.clone()).unwrap();
            ml.last_mut().unwrap().insert_mark(g(gl), cls, a).unwrap();
        }
    }
    for (gl, cls, x) in [(60u16, "top", 1i16), (60, "top", 2), (60, "bottom", 1), (61, "bottom", 1), (61, "bottom", 1)] {
        mb.last_mut().unwrap().insert_base(g(gl), cls, AnchorBuilder::new(x, 300).with_x_device(var(4, x)));
        mm.last_mut().unwrap().insert_mark2(g(gl + 500), cls, AnchorBuilder::new(x, 50));
    }
    for (cls, comps) in [("top", vec![Some(1i16), None, Some(3)]), ("bottom", vec![None, Some(2), Some(3)]), ("top", vec![Some(9), Some(9), None])] {
        let c = comps.into_iter().map(|o| o.map(|x| AnchorBuilder::new(x, 400))).collect();
        ml.last_mut().unwrap().insert_ligature(g(70), cls, c);
    }

    let lookups = vec![
        PositionLookup::Single(sp.build(&mut vs)),
        PositionLookup::Pair(pp.build(&mut vs)),
        PositionLookup::Cursive(cu.build(&mut vs)),
        PositionLookup::MarkToBase(mb.build(&mut vs)),
        PositionLookup::MarkToMark(mm.build(&mut vs)),
        PositionLookup::MarkToLig(ml.build(&mut vs)),
    ];
    let n = lookups.len() as u16;
    let (sl, fl) = simple_script_feature_lists(n);
    let mut gpos = Gpos::new(sl, fl, LookupList::new(lookups));
    let (store, remap) = vs.build();
    gpos.remap_variation_indices(&remap);
    let mut out = dump_table(&gpos).unwrap();
    out.extend(dump_table(&store).unwrap());
    out
}

/// CoverageTableBuilder (unsorted input with duplicates, `add` of existing glyphs, both output formats),
/// ClassDef collected from (glyph, class) pairs with repeated glyphs, and GDEF caret value builders with
/// identical coordinates, devices and delta sets.
fn coverage_classdef_caret_builders_degenerate() -> Vec<u8> {
    use write_fonts::tables::layout::builders::{CaretValueBuilder, CoverageTableBuilder, DeviceOrDeltas};
    use write_fonts::tables::layout::Device;
    let mut out = vec![];
    let c1 = CoverageTableBuilder::from_glyphs([9u16, 3, 7, 3, 9, 1, 200, 7].into_iter().map(g).collect()).build();
    out.extend(dump_table(&c1).unwrap());
    let mut b = CoverageTableBuilder::from_glyphs(vec![g(50), g(40), g(50)]);
    for x in [45u16, 41, 40, 44, 42, 43, 45, 46, 41] {
        out.extend(b.add(g(x)).to_be_bytes());
    }
    out.extend(dump_table(&b.build()).unwrap());
    let cd: ClassDef = [(g(5), 1u16), (g(3), 2), (g(5), 3), (g(4), 2), (g(3), 2), (g(9), 0), (g(6), 3)].into_iter().collect();
    out.extend(dump_table(&cd).unwrap());
    let mut vs = VariationStoreBuilder::new(2);
    let carets = vec![
        CaretValueBuilder::Coordinate { default: 100, deltas: DeviceOrDeltas::None },
        CaretValueBuilder::Coordinate { default: 100, deltas: DeviceOrDeltas::None },
        CaretValueBuilder::Coordinate { default: 100, deltas: vec![(region(0), 5i16), (region(1), 5)].into() },
        CaretValueBuilder::Coordinate { default: 100, deltas: vec![(region(0), 5i16), (region(1), 5)].into() },
        CaretValueBuilder::Coordinate { default: 90, deltas: Device::new(10, 11, &[1, 1]).into() },
        CaretValueBuilder::PointIndex(4),
        CaretValueBuilder::PointIndex(4),
    ];
    let built: Vec<CaretValue> = carets.into_iter().map(|c| c.build(&mut vs)).collect();
    let lig = LigCaretList::new([g(7), g(8)].into_iter().collect::<CoverageTable>(), vec![LigGlyph::new(built.clone()), LigGlyph::new(built)]);
    let mut gdef = Gdef::new(None, None, Some(lig), None);
    let (store, remap) = vs.build();
    use write_fonts::tables::variations::ivs_builder::RemapVariationIndices;
    gdef.remap_variation_indices(&remap);
    gdef.item_var_store = store.into();
    out.extend(dump_table(&gdef).unwrap());
    out
}

/// GlyfLocaBuilder: identical simple glyphs added several times, empty glyphs, a composite with the same
/// component twice; output glyf ++ loca bytes.
fn glyf_loca_builder_duplicates() -> Vec<u8> {
    use kurbo::BezPath;
    use write_fonts::tables::glyf::{Anchor, Bbox, Component, ComponentFlags, CompositeGlyph, GlyfLocaBuilder, Glyph, SimpleGlyph, Transform};
    let tri = |dx: f64| {
        let mut p = BezPath::new();
        p.move_to((dx, 0.0));
        p.line_to((dx + 100.0, 0.0));
        p.line_to((dx + 100.0, 0.0)); // repeated point
        p.quad_to((dx + 50.0, 80.0), (dx + 10.0, 120.0));
        p.close_path();
        SimpleGlyph::from_bezpath(&p).unwrap()
    };
    let mut b = GlyfLocaBuilder::new();
    b.add_glyph(&Glyph::Empty).unwrap();
    b.add_glyph(&tri(0.0)).unwrap();
    b.add_glyph(&tri(0.0)).unwrap();
    b.add_glyph(&Glyph::Empty).unwrap();
    b.add_glyph(&tri(7.0)).unwrap();
    let comp = |x: i16| Component::new(g(1), Anchor::Offset { x, y: 0 }, Transform::default(), ComponentFlags::default());
    let bbox = Bbox { x_min: 0, y_min: 0, x_max: 100, y_max: 120 };
    let mut cg = CompositeGlyph::new(comp(0), bbox);
    cg.add_component(comp(0), bbox);
    cg.add_component(comp(50), bbox);
    b.add_glyph(&cg).unwrap();
    b.add_glyph(&tri(0.0)).unwrap();
    let (glyf, loca, _) = b.build();
    let mut out = dump_table(&glyf).unwrap();
    out.extend(dump_table(&loca).unwrap());
    out
}

/// FontBuilder: tags added in descending order, the same tag added twice (raw twice; compiled then
/// raw), empty tables, identical contents under different tags.
fn font_builder_degenerate() -> Vec<u8> {
    let mut fb = FontBuilder::new();
    fb.add_raw(Tag::new(b"zzzz"), vec![1u8, 2, 3]);
    fb.add_raw(Tag::new(b"yyyy"), vec![1u8, 2, 3]);
    fb.add_raw(Tag::new(b"zzzz"), vec![4u8, 5, 6, 7, 8]);
    fb.add_raw(Tag::new(b"mmmm"), Vec::<u8>::new());
    let maxp = write_fonts::tables::maxp::Maxp::new(3);
    fb.add_table(&maxp).unwrap();
    fb.add_raw(Tag::new(b"maxp"), vec![0u8, 0, 0x50, 0, 0, 9]);
    fb.add_table(&maxp).unwrap();
    fb.add_raw(Tag::new(b"aaaa"), vec![1u8, 2, 3]);
    fb.add_raw(Tag::new(b"AAAA"), vec![1u8, 2, 3]);
    fb.build()
}

/// post version 2 from a glyph order with standard names, custom names and repeated custom names.
fn post_v2_repeated_names() -> Vec<u8> {
    let order = [
        ".notdef", "A", "foo", "bar", "foo", "B", "baz.alt", "bar", "qux", "space", "foo", "a.sc", "qux", "zz",
    ];
    let post = write_fonts::tables::post::Post::new_v2(order);
    dump_table(&post).unwrap()
}

/// cmap from mappings containing exact duplicates, supplementary-plane runs and gaps (format 12
/// groups are found through a HashMap of char -> gid).
fn cmap_format12_duplicates() -> Vec<u8> {
    let mut m = vec![];
    for i in (0..12u32).rev() {
        let c = char::from_u32(0x1F600 + i + (i / 4) * 3).unwrap();
        m.push((c, GlyphId::new(20 + i + (i / 6))));
        m.push((c, GlyphId::new(20 + i + (i / 6))));
    }
    for i in 0..5u32 {
        m.push((char::from_u32(0x61 + i).unwrap(), GlyphId::new(3 + i)));
        m.push((char::from_u32(0x2F800 + 2 * i).unwrap(), GlyphId::new(60 + i)));
    }
    m.push(('a', GlyphId::new(3)));
    let cmap = write_fonts::tables::cmap::Cmap::from_mappings(m).unwrap();
    dump_table(&cmap).unwrap()
}

/// VariationStoreBuilder in both modes with equal-size regions and rows: many row shapes of equal
/// cost (one region each, byte deltas; pairs of regions, word deltas), so that the encoder's merge
/// heap is full of ties; plus all-zero rows and duplicate rows.
fn ivs_builder_ties_both_modes() -> Vec<u8> {
    let mut out = vec![];
    for implicit in [false, true] {
        let mut b = if implicit { VariationStoreBuilder::new_with_implicit_indices(2) } else { VariationStoreBuilder::new(2) };
        for rep in 0..2i32 {
            for k in (0..8usize).rev() {
                b.add_deltas(vec![(region(k), 10 + rep + k as i32)]);
                b.add_deltas(vec![(region(k), 300 + k as i32), (region((k + 1) % 8), -300 - rep)]);
            }
        }
        b.add_deltas(vec![(region(3), 0), (region(4), 0)]);
        b.add_deltas::<i32>(vec![]);
        b.add_deltas(vec![(region(7), 17)]);
        b.add_deltas(vec![(region(7), 17)]);
        let (store, _) = b.build();
        out.extend(dump_table(&store).unwrap());
    }
    out
}

/// One class-pair (format 2) subtable larger than 64 KiB in which every class has two glyphs =>
/// split by class1 ranges (graph/splitting/pairpos.rs: class_map, ClassDefSizeEstimator).
fn gpos_split_pairpos2() -> Vec<u8> {
    let mut b = PairPosBuilder::default();
    let n1 = 100u16;
    let n2 = 100u16;
    for i in 0..n1 {
        for j in 0..n2 {
            if (i + j) % 9 == 4 {
                continue;
            }
            // 4 bytes in each value record => 8 bytes per class2 record, 100 x 100 x 8 = 80 KB
            b.insert_classes(
                gset(&[2 * i, 2 * i + 1]),
                ValueRecordBuilder::new().with_x_advance((i as i16 % 50) - (j as i16 % 31)).with_x_placement(1),
                gset(&[1000 + 2 * j, 1001 + 2 * j]),
                ValueRecordBuilder::new().with_x_advance(j as i16 % 3).with_x_placement(2),
            );
        }
    }
    let mut vs = VariationStoreBuilder::new(2);
    let subtables = b.build(&mut vs);
    gpos_of(vec![PositionLookup::Pair(Lookup::new(LookupFlag::empty(), subtables))])
}

/// Mark-to-base subtable larger than 64 KiB with one mark per class (all classes the same size) =>
/// split by mark class (graph/splitting/mark2base.rs).
fn gpos_split_mark2base() -> Vec<u8> {
    let mut mb = MarkToBaseBuilder::default();
    let n_classes = 90u16;
    let n_bases = 420u16;
    let names: Vec<String> = (0..n_classes).map(|c| format!("c{c:03}")).collect();
    for c in (0..n_classes).rev() {
        mb.insert_mark(g(5000 + c), &names[c as usize], AnchorBuilder::new(c as i16 % 7, 0)).unwrap();
    }
    for base in 0..n_bases {
        for c in 0..n_classes {
            if (base + c) % 17 == 0 {
                continue;
            }
            mb.insert_base(g(base), &names[c as usize], AnchorBuilder::new((c % 5) as i16 * 10, 500 + (base % 3) as i16));
        }
    }
    let mut vs = VariationStoreBuilder::new(2);
    gpos_of(vec![PositionLookup::MarkToBase(Lookup::new(LookupFlag::empty(), mb.build(&mut vs)))])
}

/// One lookup with two subtables that both need splitting (graph/splitting.rs `new_subtables`).
fn gpos_two_splits_one_lookup() -> Vec<u8> {
    let lookup = PositionLookup::Pair(Lookup::new(
        LookupFlag::empty(),
        vec![big_pair_pos(0, 21, 800), big_pair_pos(2000, 21, 800)],
    ));
    let gpos = Gpos::new(Default::default(), Default::default(), LookupList::new(vec![lookup]));
    dump_table(&gpos).unwrap()
}

fn corpus(path: &str) -> Vec<u8> {
    std::fs::read(vcore::repo_root().join(path)).unwrap_or_else(|e| panic!("corpus font {path}: {e}"))
}

/// GSUB + GPOS + GDEF of a corpus font converted to owned write-fonts values and recompiled into a
/// font with FontBuilder.
fn corpus_layout(path: &str) -> Vec<u8> {
    let data = corpus(path);
    let font = FontRef::new(&data).unwrap();
    let mut fb = FontBuilder::new();
    let gsub: write_fonts::tables::gsub::Gsub = font.gsub().unwrap().to_owned_table();
    fb.add_table(&gsub).unwrap();
    let gpos: Gpos = font.gpos().unwrap().to_owned_table();
    fb.add_table(&gpos).unwrap();
    let gdef: Gdef = font.gdef().unwrap().to_owned_table();
    fb.add_table(&gdef).unwrap();
    fb.build()
}

/// 469 objects: gap injection with one non-zero gap only
fn corpus_layout_roundtrip() -> Vec<u8> {
    corpus_layout("klippa/test-data/fonts/Roboto-Regular.ttf")
}

/// 70 objects: small enough for all gap pairs
fn corpus_layout_small() -> Vec<u8> {
    corpus_layout("klippa/test-data/fonts/AnekBangla-subset.ttf")
}

fn klippa_subset(path: &str, unicodes: &[u32], gids: &[u32]) -> Vec<u8> {
    use klippa::{Plan, SubsetFlags};
    let data = corpus(path);
    let font = FontRef::new(&data).unwrap();
    let gids: IntSet<GlyphId> = gids.iter().map(|g| GlyphId::new(*g)).collect();
    let unicodes: IntSet<u32> = unicodes.iter().copied().collect();
    let drop_tables: IntSet<Tag> = IntSet::empty();
    let mut layout_scripts = IntSet::<Tag>::empty();
    layout_scripts.invert();
    let mut layout_features = IntSet::<Tag>::empty();
    layout_features.extend(klippa::DEFAULT_LAYOUT_FEATURES.iter().copied());
    let mut name_ids = IntSet::<write_fonts::types::NameId>::empty();
    name_ids.insert_range(write_fonts::types::NameId::from(0)..=write_fonts::types::NameId::from(6));
    let mut name_languages = IntSet::<u16>::empty();
    name_languages.insert(0x0409);
    let plan = Plan::new(
        &gids,
        &unicodes,
        &font,
        SubsetFlags::default(),
        &drop_tables,
        &layout_scripts,
        &layout_features,
        &name_ids,
        &name_languages,
    );
    klippa::subset_font(&font, &plan).unwrap()
}

fn klippa_roboto() -> Vec<u8> {
    let u: Vec<u32> = ('A' as u32..='Z' as u32).chain('a' as u32..='z' as u32).chain([0x20, 0xe9, 0x2026]).collect();
    klippa_subset("klippa/test-data/fonts/Roboto-Regular.ttf", &u, &[5, 40])
}

fn klippa_variable() -> Vec<u8> {
    let u: Vec<u32> = ('a' as u32..='m' as u32).chain([0x41, 0x56, 0x20]).collect();
    klippa_subset("klippa/test-data/fonts/AdobeVFPrototype.otf", &u, &[3])
}
