//! Families added by the coverage-gap audit (AUDIT.md). Everything is enumerated in fixed order and
//! exhaustively within the bounds reported through run.bound / run.count.
//!
//!  raw   from-spec canonical encoder of composite glyphs: every composite the builder writes (all
//!        families) must be byte-identical to it (flag word, argument widths, transform form, padding)
//!  B2    composites: argument boundary grid (offsets {-129,-128,-1,0,127,128}^2, point numbers
//!        {0,1,127,128,255,256,65535}^2) x transform forms incl. four distinct 2x2 words x glyph ids x flags;
//!        every list of 3 and 4 components over a 10-letter alphabet; add_component box union;
//!        try_from_iter; add_glyph(&CompositeGlyph) / add_glyph(&SimpleGlyph) directly
//!  BI    composites with instructions: from-spec bytes -> read-fonts -> owned (write-fonts) -> builder ->
//!        bytes must be the same bytes; instructions / count_and_instructions on both sides
//!  L     Loca::new called directly: every non-decreasing offset vector of length <= 4 over a boundary
//!        alphabet incl. odd values; hand-encoded loca tables through the reader
//!  K     count boundaries: 32767 / 32768 contours, 65535 points
//!  P     long paths (every point count across the scaler's memory buckets), drawn in three ways
//!  F     fonts of several path glyphs, each drawn by glyph id, under both location formats
//!  I     interpolatable_glyphs_from_bezpaths with 2 and 3 masters

use super::*;
use skrifa::outline::pen::PathStyle;
use skrifa::outline::Hinting;
use write_fonts::tables::loca::Loca as WLoca;

// ---------------------------------------------------------------------------
// from-spec composite encoder
// ---------------------------------------------------------------------------

/// The canonical encoding of a composite glyph, written from the OpenType glyf specification alone:
/// numberOfContours = -1, the box, then per component the flag word (ARG_1_AND_2_ARE_WORDS only when an
/// argument does not fit a byte, ARGS_ARE_XY_VALUES for offsets, the smallest transform form,
/// MORE_COMPONENTS on all but the last, WE_HAVE_INSTRUCTIONS on the last iff instructions follow), glyph
/// index, arguments, transform words; instructions (length + bytes); zero padding to 2 bytes.
/// Also returns named byte regions for diagnosis.
pub(crate) fn encode_composite(
    comps: &[CompSpec],
    bbox: &[i16; 4],
    instr: Option<&[u8]>,
) -> (Vec<u8>, Vec<(usize, usize, String)>) {
    let mut b: Vec<u8> = vec![];
    let mut regions: Vec<(usize, usize, String)> = vec![];
    fn put(b: &mut Vec<u8>, regions: &mut Vec<(usize, usize, String)>, name: String, bytes: &[u8]) {
        regions.push((b.len(), b.len() + bytes.len(), name));
        b.extend_from_slice(bytes);
    }
    put(&mut b, &mut regions, "numberOfContours".into(), &(-1i16).to_be_bytes());
    let mut bb = vec![];
    for v in bbox {
        bb.extend_from_slice(&v.to_be_bytes());
    }
    put(&mut b, &mut regions, "bounding box".into(), &bb);
    for (i, c) in comps.iter().enumerate() {
        let mut f: u16 = 0;
        let (is_off, a0, a1) = c.anchor;
        let words = if is_off {
            !(-128..=127).contains(&a0) || !(-128..=127).contains(&a1)
        } else {
            a0 > 255 || a1 > 255
        };
        if words {
            f |= 0x0001;
        }
        if is_off {
            f |= 0x0002;
        }
        if c.flags & 1 != 0 {
            f |= 0x0004; // ROUND_XY_TO_GRID
        }
        if c.flags & 2 != 0 {
            f |= 0x0200; // USE_MY_METRICS
        }
        if c.flags & 4 != 0 {
            f |= 0x0800; // SCALED_COMPONENT_OFFSET
        }
        if c.flags & 8 != 0 {
            f |= 0x1000; // UNSCALED_COMPONENT_OFFSET
        }
        if c.flags & 16 != 0 {
            f |= 0x0400; // OVERLAP_COMPOUND
        }
        let [xx, yx, xy, yy] = c.xf;
        let tf: Vec<i16> = if yx != 0 || xy != 0 {
            f |= 0x0080;
            vec![xx, yx, xy, yy]
        } else if xx != yy {
            f |= 0x0040;
            vec![xx, yy]
        } else if xx != 0x4000 {
            f |= 0x0008;
            vec![xx]
        } else {
            vec![]
        };
        if i + 1 < comps.len() {
            f |= 0x0020;
        } else if instr.is_some() {
            f |= 0x0100;
        }
        put(&mut b, &mut regions, format!("component {i} flag word"), &f.to_be_bytes());
        put(&mut b, &mut regions, format!("component {i} glyph id"), &c.gid.to_be_bytes());
        let mut args = vec![];
        match (is_off, words) {
            (true, true) => {
                args.extend_from_slice(&(a0 as i16).to_be_bytes());
                args.extend_from_slice(&(a1 as i16).to_be_bytes());
            }
            (true, false) => {
                args.push(a0 as i8 as u8);
                args.push(a1 as i8 as u8);
            }
            (false, true) => {
                args.extend_from_slice(&(a0 as u16).to_be_bytes());
                args.extend_from_slice(&(a1 as u16).to_be_bytes());
            }
            (false, false) => {
                args.push(a0 as u8);
                args.push(a1 as u8);
            }
        }
        put(&mut b, &mut regions, format!("component {i} arguments"), &args);
        let mut t = vec![];
        for w in tf {
            t.extend_from_slice(&w.to_be_bytes());
        }
        if !t.is_empty() {
            put(&mut b, &mut regions, format!("component {i} transform"), &t);
        }
    }
    if let Some(ins) = instr {
        put(&mut b, &mut regions, "instruction length".into(), &(ins.len() as u16).to_be_bytes());
        put(&mut b, &mut regions, "instructions".into(), ins);
    }
    if b.len() % 2 == 1 {
        put(&mut b, &mut regions, "padding".into(), &[0]);
    }
    (b, regions)
}

/// None when `bytes` is the from-spec encoding; otherwise (stable field name, detail).
pub(crate) fn raw_composite_mismatch(
    bytes: &[u8],
    comps: &[CompSpec],
    bbox: &[i16; 4],
    instr: Option<&[u8]>,
) -> Option<(String, String)> {
    let (want, regions) = encode_composite(comps, bbox, instr);
    if bytes == &want[..] {
        return None;
    }
    for (s, e, name) in &regions {
        let got = bytes.get(*s..*e);
        if got != Some(&want[*s..*e]) {
            // identity without the component number
            let field = name
                .split(' ')
                .filter(|w| w.parse::<usize>().is_err())
                .collect::<Vec<_>>()
                .join(" ");
            return Some((
                field,
                format!("{name}: got {:02x?}, from-spec {:02x?}", got.unwrap_or(&[]), &want[*s..*e]),
            ));
        }
    }
    Some((
        "encoded length".into(),
        format!("{} bytes, from-spec (canonical shortest) {} bytes", bytes.len(), want.len()),
    ))
}

// ---------------------------------------------------------------------------
// B2: composite boundary grid, long component lists, box union, other constructors
// ---------------------------------------------------------------------------

const ONE: i16 = 0x4000;

fn b2_anchors() -> Vec<(bool, i32, i32)> {
    let offs = [-129i32, -128, -1, 0, 127, 128];
    let pts = [0i32, 1, 127, 128, 255, 256, 65535];
    let mut v = vec![];
    for x in offs {
        for y in offs {
            v.push((true, x, y));
        }
    }
    for a in pts {
        for b in pts {
            v.push((false, a, b));
        }
    }
    v
}

const B2_XFS: [[i16; 4]; 10] = [
    [ONE, 0, 0, ONE],                    // none
    [0, 0, 0, 0],                        // scale 0
    [0x3FFF, 0, 0, 0x3FFF],              // scale just below 1
    [ONE, 0, 0, 0x3FFF],                 // x/y scale, xx = 1
    [0x3FFF, 0, 0, ONE],                 // x/y scale, yy = 1
    [0x1000, 0x2000, 0x3000, -0x1000],   // 2x2, four distinct words
    [0x2000, 0, 1, 0x1000],              // 2x2 because of xy only, xx != yy
    [0x2000, -1, 0, 0x1000],             // 2x2 because of yx only, xx != yy
    [i16::MIN, i16::MAX, 1, -1],         // 2x2 extremes
    [0, 0, 0, ONE],                      // x/y scale with a zero
];

pub(crate) fn composite_family2(run: &Run) {
    let anchors = b2_anchors();
    let gids = [0u16, 1, 0xFFFE, 0xFFFF];
    let flagsets = [0u8, 1, 2, 4, 8, 16, 31];
    run.bound("B2.anchors", json!("offsets {-129,-128,-1,0,127,128}^2; point numbers {0,1,127,128,255,256,65535}^2"));
    run.bound("B2.transforms", json!(B2_XFS));
    run.bound("B2.glyph_ids", json!(gids));
    run.bound("B2.flag_sets", json!(flagsets));
    let bbox = [-5i16, -32768, 32767, 9];
    // one component: the whole grid
    let mut singles: Vec<CompSpec> = vec![];
    for &anchor in &anchors {
        for xf in B2_XFS {
            for gid in gids {
                for flags in flagsets {
                    singles.push(CompSpec { gid, anchor, xf, flags });
                }
            }
        }
    }
    run.count("B2.single_component_glyphs", singles.len() as u64);
    let locals: Vec<Local> = singles
        .par_chunks(64)
        .map(|chunk| {
            let mut l = Local::new();
            for c in chunk {
                let seq = [GSpec::Composite { comps: vec![c.clone()], bbox }];
                l.evals += 1;
                let case = || seq_json("B2", &seq, 0);
                check_sequence(run, "B2", &seq, 0, &mut l, &case);
            }
            l
        })
        .collect();
    for l in locals {
        l.merge(run, "B2.single");
    }
    // lists of 3 and 4 components over a 10-letter alphabet of different encoded sizes
    let letters: Vec<CompSpec> = vec![
        CompSpec { gid: 1, anchor: (true, 0, 0), xf: B2_XFS[0], flags: 0 },
        CompSpec { gid: 2, anchor: (true, 128, -1), xf: B2_XFS[0], flags: 2 },
        CompSpec { gid: 3, anchor: (false, 255, 128), xf: B2_XFS[2], flags: 0 },
        CompSpec { gid: 4, anchor: (false, 256, 0), xf: B2_XFS[3], flags: 16 },
        CompSpec { gid: 5, anchor: (true, -128, 127), xf: B2_XFS[5], flags: 1 },
        CompSpec { gid: 6, anchor: (true, -129, 0), xf: B2_XFS[8], flags: 31 },
        CompSpec { gid: 7, anchor: (false, 0, 65535), xf: B2_XFS[0], flags: 8 },
        CompSpec { gid: 0xFFFF, anchor: (true, 1, 1), xf: B2_XFS[1], flags: 4 },
        CompSpec { gid: 0, anchor: (false, 200, 130), xf: B2_XFS[6], flags: 0 },
        CompSpec { gid: 9, anchor: (true, 127, 127), xf: B2_XFS[9], flags: 2 },
    ];
    let max_len = run.tier.pick(4usize, 5usize);
    run.bound("B2.list_alphabet", json!(letters.len()));
    run.bound("B2.max_list_length", json!(max_len));
    let mut lists: Vec<Vec<usize>> = vec![];
    for len in 3..=max_len {
        let mut d = vec![0usize; len];
        loop {
            lists.push(d.clone());
            if !next_digits(&mut d, letters.len()) {
                break;
            }
        }
    }
    run.count("B2.component_lists", lists.len() as u64);
    let locals: Vec<Local> = lists
        .par_chunks(64)
        .map(|chunk| {
            let mut l = Local::new();
            for d in chunk {
                let comps: Vec<CompSpec> = d.iter().map(|i| letters[*i].clone()).collect();
                let seq = [GSpec::Composite { comps, bbox }];
                l.evals += 1;
                let case = || seq_json("B2", &seq, 0);
                check_sequence(run, "B2", &seq, 0, &mut l, &case);
            }
            l
        })
        .collect();
    for l in locals {
        l.merge(run, "B2.lists");
    }
    // add_component: the stored box is documented as the union of the boxes handed in; try_from_iter
    // must build the same component list; add_glyph accepts CompositeGlyph / SimpleGlyph directly
    let mut l = Local::new();
    let boxes: [[i16; 4]; 5] = [[0, 0, 10, 10], [-5, 3, 20, 8], [1, -7, 2, 30], [-32768, -32768, -32768, -32768], [32767, 32767, 32767, 32767]];
    let mut unions = 0u64;
    for i in 0..boxes.len() {
        for j in 0..boxes.len() {
            for k in 0..boxes.len() {
                l.evals += 1;
                unions += 1;
                let bs = [boxes[i], boxes[j], boxes[k]];
                let comps: Vec<CompSpec> = vec![letters[1].clone(), letters[4].clone(), letters[3].clone()];
                let case = || json!({"kind":"union","boxes":bs});
                let want = [
                    bs.iter().map(|b| b[0]).min().unwrap(),
                    bs.iter().map(|b| b[1]).min().unwrap(),
                    bs.iter().map(|b| b[2]).max().unwrap(),
                    bs.iter().map(|b| b[3]).max().unwrap(),
                ];
                let mk = |c: &CompSpec| Component::new(GlyphId16::new(c.gid), comp_anchor(c.anchor), comp_xf(c.xf), comp_flags(c.flags));
                let tb = |b: [i16; 4]| Bbox { x_min: b[0], y_min: b[1], x_max: b[2], y_max: b[3] };
                let r = guard(|| {
                    let mut g = CompositeGlyph::new(mk(&comps[0]), tb(bs[0]));
                    g.add_component(mk(&comps[1]), tb(bs[1]));
                    g.add_component(mk(&comps[2]), tb(bs[2]));
                    let it = CompositeGlyph::try_from_iter(comps.iter().zip(bs.iter()).map(|(c, b)| (mk(c), tb(*b)))).map_err(|e| format!("{e}"))?;
                    // direct add_glyph(&CompositeGlyph) and through the Glyph enum: same bytes
                    let mut b1 = GlyfLocaBuilder::new();
                    b1.add_glyph(&g).map_err(|e| format!("{e}"))?;
                    let mut b2 = GlyfLocaBuilder::new();
                    b2.add_glyph(&Glyph::Composite(g.clone())).map_err(|e| format!("{e}"))?;
                    let (g1, _, _) = b1.build();
                    let (g2, _, _) = b2.build();
                    let d1 = dump_table(&g1).map_err(|e| format!("{e}"))?;
                    let d2 = dump_table(&g2).map_err(|e| format!("{e}"))?;
                    Ok::<_, String>((g, it, d1, d2))
                });
                l.trans += 8;
                match r {
                    Ok(Ok((g, it, d1, d2))) => {
                        if [g.bbox.x_min, g.bbox.y_min, g.bbox.x_max, g.bbox.y_max] != want {
                            run.violation(
                                "CompositeGlyph::add_component does not store the union of the component boxes",
                                &format!("{:?} vs {want:?}", g.bbox),
                                case(),
                            );
                        }
                        if it.components() != g.components() {
                            run.violation("CompositeGlyph::try_from_iter builds a different component list than new + add_component", "", case());
                        }
                        if d1 != d2 {
                            run.violation("add_glyph(&CompositeGlyph) and add_glyph(&Glyph::Composite) write different bytes", "", case());
                        }
                        if let Some(w) = raw_composite_mismatch(&d1, &comps, &want, None) {
                            run.violation(
                                &format!("composite glyph bytes differ from the from-spec encoding: {}", w.0),
                                &w.1,
                                case(),
                            );
                        }
                        let mut h = Fnv::new();
                        h.str("union");
                        h.bytes(&d1);
                        l.all.insert(h.finish());
                        l.nontrivial.insert(h.finish());
                    }
                    Ok(Err(e)) => run.violation("B2: composite constructors / builder fail", &e, case()),
                    Err(p) => run.violation(
                        &format!("B2: composite constructors panic: {} in {}", p.kind(), p.site()),
                        &p.message,
                        case(),
                    ),
                }
            }
        }
    }
    run.count("B2.box_union_triples", unions);
    // SimpleGlyph handed to add_glyph directly
    for spec in [
        GSpec::Simple { contours: vec![vec![(5, 0, true), (10, 0, false)]], instr: vec![0x4B] },
        GSpec::Simple { contours: vec![], instr: vec![] },
    ] {
        l.evals += 1;
        let case = || json!({"kind":"direct","glyph":gspec_json(&spec)});
        let Glyph::Simple(sg) = to_write_glyph(&spec) else { continue };
        let r = guard(|| {
            let mut b1 = GlyfLocaBuilder::new();
            b1.add_glyph(&sg).map_err(|e| format!("{e}"))?;
            b1.add_glyph(&sg).map_err(|e| format!("{e}"))?;
            let mut b2 = GlyfLocaBuilder::new();
            b2.add_glyph(&Glyph::Simple(sg.clone())).map_err(|e| format!("{e}"))?;
            b2.add_glyph(&Glyph::Simple(sg.clone())).map_err(|e| format!("{e}"))?;
            let (g1, l1, f1) = b1.build();
            let (g2, l2, f2) = b2.build();
            Ok::<_, String>((
                dump_table(&g1).map_err(|e| format!("{e}"))?,
                dump_table(&l1).map_err(|e| format!("{e}"))?,
                f1,
                dump_table(&g2).map_err(|e| format!("{e}"))?,
                dump_table(&l2).map_err(|e| format!("{e}"))?,
                f2,
            ))
        });
        match r {
            Ok(Ok((g1, l1, f1, g2, l2, f2))) => {
                if (g1, l1, f1) != (g2, l2, f2) {
                    run.violation("add_glyph(&SimpleGlyph) and add_glyph(&Glyph::Simple) build different tables", "", case());
                }
            }
            Ok(Err(e)) => run.violation("B2: builder fails on a SimpleGlyph handed in directly", &e, case()),
            Err(p) => run.violation(&format!("B2: builder panic: {} in {}", p.kind(), p.site()), &p.message, case()),
        }
    }
    // Glyph::from(SimpleGlyph): a contour-less glyph is the Empty glyph, anything else stays simple;
    // Glyph::bbox reports the stored box
    {
        l.evals += 1;
        let r = guard(|| {
            let Glyph::Simple(full) = to_write_glyph(&GSpec::Simple { contours: vec![vec![(5, -3, true), (10, 0, false)]], instr: vec![] }) else {
                return None;
            };
            let Glyph::Simple(none) = to_write_glyph(&GSpec::Simple { contours: vec![], instr: vec![1] }) else {
                return None;
            };
            let a = Glyph::from(full.clone());
            let b = Glyph::from(none);
            Some((a == Glyph::Simple(full.clone()), b == Glyph::Empty, a.bbox() == Some(full.bbox), b.bbox().is_none()))
        });
        if r.ok().flatten() != Some((true, true, true, true)) {
            run.violation("Glyph::from(SimpleGlyph) / Glyph::bbox misclassify a simple or contour-less glyph", &format!("{:?}", 0), json!({"kind":"direct"}));
        }
    }
    l.merge(run, "B2.constructors");
}

// ---------------------------------------------------------------------------
// BI: composite glyphs with instructions (only reachable through read -> owned -> write)
// ---------------------------------------------------------------------------

pub(crate) fn check_composite_instr(run: &Run, comps: &[CompSpec], bbox: &[i16; 4], instr: &[u8], l: &mut Local) {
    l.evals += 1;
    let case = || {
        json!({"kind":"composite_instr","instr":hex(instr),
            "glyph": gspec_json(&GSpec::Composite{comps: comps.to_vec(), bbox: *bbox})})
    };
    let (bytes0, _) = encode_composite(comps, bbox, Some(instr));
    let r = guard(|| -> Result<(), (String, String)> {
        // reader on the from-spec bytes
        let g = rg::CompositeGlyph::read(FontData::new(&bytes0))
            .map_err(|e| ("read-fonts does not parse a from-spec composite with instructions".to_string(), format!("{e}")))?;
        if let Some(w) = compare_composite_instr(&g, comps, bbox, Some(instr)) {
            return Err((format!("from-spec composite with instructions decodes differently: {}", w.0), w.1));
        }
        // owned, then written again among other glyphs
        let owned = CompositeGlyph::read(FontData::new(&bytes0))
            .map_err(|e| ("write-fonts does not read a from-spec composite with instructions".to_string(), format!("{e}")))?;
        let tiny = to_write_glyph(&GSpec::Simple { contours: vec![vec![(5, 0, true), (10, 0, false)]], instr: vec![0x4B] });
        let mut b = GlyfLocaBuilder::new();
        let e = |e: write_fonts::error::Error| ("builder fails on a composite with instructions".to_string(), format!("{e}"));
        b.add_glyph(&tiny).map_err(e)?;
        b.add_glyph(&owned).map_err(e)?;
        b.add_glyph(&Glyph::Empty).map_err(e)?;
        b.add_glyph(&Glyph::Composite(owned.clone())).map_err(e)?;
        b.add_glyph(&tiny).map_err(e)?;
        let (glyf, loca, fmt) = b.build();
        let gb = dump_table(&glyf).map_err(|e| ("glyf fails to compile".to_string(), format!("{e}")))?;
        let lb = dump_table(&loca).map_err(|e| ("loca fails to compile".to_string(), format!("{e}")))?;
        let long = fmt == LocaFormat::Long;
        let rloca = rl::Loca::read(FontData::new(&lb), long).map_err(|e| ("built loca does not parse".to_string(), format!("{e}")))?;
        let rglyf = rg::Glyf::read(FontData::new(&gb)).map_err(|e| ("built glyf does not parse".to_string(), format!("{e}")))?;
        let want_offs = [0, 20, 20 + bytes0.len(), 20 + bytes0.len(), 20 + 2 * bytes0.len(), 40 + 2 * bytes0.len()];
        for (i, w) in want_offs.iter().enumerate() {
            if rloca.get_raw(i) != Some(*w as u32) {
                return Err((
                    "loca offset of a glyph differs from the builder's position (composite with instructions)".to_string(),
                    format!("entry {i}: {:?}, expected {w}", rloca.get_raw(i)),
                ));
            }
        }
        for gid in [1u32, 3] {
            let s = want_offs[gid as usize];
            let got = gb.get(s..s + bytes0.len()).unwrap_or(&[]);
            if let Some(w) = raw_composite_mismatch(got, comps, bbox, Some(instr)) {
                return Err((format!("composite with instructions is rewritten differently: {}", w.0), w.1));
            }
            match rloca.get_glyf(GlyphId::new(gid), &rglyf) {
                Ok(Some(rg::Glyph::Composite(g))) => {
                    if let Some(w) = compare_composite_instr(&g, comps, bbox, Some(instr)) {
                        return Err((format!("rewritten composite with instructions decodes differently: {}", w.0), w.1));
                    }
                }
                other => {
                    return Err((
                        "rewritten composite with instructions does not read back as a composite".to_string(),
                        format!("{:?}", other.map(|o| o.is_some())),
                    ))
                }
            }
        }
        Ok(())
    });
    l.trans += 12;
    match r {
        Ok(Ok(())) => {
            let mut h = Fnv::new();
            h.str("BI");
            h.bytes(&bytes0);
            l.all.insert(h.finish());
            l.nontrivial.insert(h.finish());
        }
        Ok(Err((id, detail))) => run.violation(&id, &detail, case()),
        Err(p) => run.violation(
            &format!("composite with instructions: panic: {} in {}", p.kind(), p.site()),
            &format!("{} ({}:{})", p.message, p.file, p.line),
            case(),
        ),
    }
}

pub(crate) fn composite_instr_family(run: &Run) {
    let letters: Vec<CompSpec> = vec![
        CompSpec { gid: 1, anchor: (true, 0, 0), xf: B2_XFS[0], flags: 0 },
        CompSpec { gid: 2, anchor: (true, 128, -1), xf: B2_XFS[2], flags: 2 },
        CompSpec { gid: 3, anchor: (false, 255, 128), xf: B2_XFS[3], flags: 16 },
        CompSpec { gid: 4, anchor: (false, 256, 0), xf: B2_XFS[5], flags: 31 },
        CompSpec { gid: 0xFFFF, anchor: (true, -128, 127), xf: B2_XFS[0], flags: 8 },
    ];
    let lens: Vec<usize> = run.tier.pick(vec![1usize, 2, 3, 255, 256, 1000, 65535], vec![1usize, 2, 3, 4, 255, 256, 257, 1000, 65534, 65535]);
    run.bound("BI.component_alphabet", json!(letters.len()));
    run.bound("BI.max_components", json!(3));
    run.bound("BI.instruction_lengths", json!(lens));
    let mut lists: Vec<Vec<usize>> = vec![];
    for len in 1..=3usize {
        let mut d = vec![0usize; len];
        loop {
            lists.push(d.clone());
            if !next_digits(&mut d, letters.len()) {
                break;
            }
        }
    }
    run.count("BI.component_lists", lists.len() as u64);
    let bbox = [-1i16, -2, 300, 400];
    let locals: Vec<Local> = lists
        .par_iter()
        .map(|d| {
            let mut l = Local::new();
            let comps: Vec<CompSpec> = d.iter().map(|i| letters[*i].clone()).collect();
            for &n in &lens {
                let instr: Vec<u8> = (0..n).map(|i| (i % 253) as u8 ^ 0x5A).collect();
                check_composite_instr(run, &comps, &bbox, &instr, &mut l);
            }
            l
        })
        .collect();
    for l in locals {
        l.merge(run, "BI");
    }
}

// ---------------------------------------------------------------------------
// L: Loca::new / LocaFormat / the loca reader, directly
// ---------------------------------------------------------------------------

pub(crate) fn check_loca_vector(run: &Run, offs: &[u32], l: &mut Local) {
    l.evals += 1;
    let case = || json!({"kind":"loca","offsets":offs});
    // statement: short iff all offsets even and < 0x20000
    let want_short = offs.iter().all(|o| o % 2 == 0 && *o < 0x20000);
    let r = guard(|| {
        let t = WLoca::new(offs.to_vec());
        let f = t.format();
        dump_table(&t).map(|b| (f, b)).map_err(|e| format!("{e}"))
    });
    l.trans += 2;
    let (fmt, bytes) = match r {
        Ok(Ok(x)) => x,
        Ok(Err(e)) => {
            run.violation("Loca::new: table fails to compile", &e, case());
            return;
        }
        Err(p) => {
            run.violation(&format!("Loca::new / write panic: {} in {}", p.kind(), p.site()), &p.message, case());
            return;
        }
    };
    if (fmt == LocaFormat::Short) != want_short {
        run.violation(
            &format!(
                "Loca::new chooses the {} format although {}",
                if want_short { "long" } else { "short" },
                if want_short { "all offsets are even and below 0x20000" } else { "an offset is odd or >= 0x20000" }
            ),
            &format!("{offs:x?}"),
            case(),
        );
        return;
    }
    let mut want: Vec<u8> = vec![];
    for o in offs {
        if want_short {
            want.extend_from_slice(&((o / 2) as u16).to_be_bytes());
        } else {
            want.extend_from_slice(&o.to_be_bytes());
        }
    }
    if bytes != want {
        run.violation(
            &format!("Loca ({}) is written differently from the from-spec encoding", if want_short { "short" } else { "long" }),
            &format!("{offs:x?}: {}", hex(&bytes)),
            case(),
        );
        return;
    }
    check_loca_reader(run, &want, !want_short, offs, l, &case);
}

/// the reader on from-spec bytes: entry count, every raw offset, one past the end, ascending test
pub(crate) fn check_loca_reader(run: &Run, bytes: &[u8], long: bool, offs: &[u32], l: &mut Local, case: &dyn Fn() -> Value) {
    let name = if long { "long" } else { "short" };
    l.trans += 1;
    let r = guard(|| {
        let t = rl::Loca::read(FontData::new(bytes), long).map_err(|e| format!("{e}"))?;
        let raws: Vec<Option<u32>> = (0..=offs.len()).map(|i| t.get_raw(i)).collect();
        Ok::<_, String>((t.len(), t.is_empty(), t.all_offsets_are_ascending(), raws))
    });
    match r {
        Ok(Ok((len, empty, asc, raws))) => {
            let want_len = offs.len().saturating_sub(1);
            if len != want_len || empty != (want_len == 0) {
                run.violation(&format!("read Loca ({name}): len / is_empty wrong"), &format!("len {len}, is_empty {empty}, {} offsets", offs.len()), case());
            }
            let want_raws: Vec<Option<u32>> = offs.iter().map(|o| Some(*o)).chain([None]).collect();
            if raws != want_raws {
                run.violation(&format!("read Loca ({name}): get_raw differs from the stored offsets"), &format!("{raws:x?} vs {offs:x?}"), case());
            }
            let want_asc = offs.windows(2).all(|w| w[0] <= w[1]);
            if asc != want_asc {
                run.violation(&format!("read Loca ({name}): all_offsets_are_ascending is wrong"), &format!("{offs:x?} -> {asc}"), case());
            }
            let mut h = Fnv::new();
            h.str("loca");
            h.u64(long as u64);
            h.bytes(bytes);
            l.all.insert(h.finish());
            if offs.len() >= 2 {
                l.nontrivial.insert(h.finish());
            }
        }
        Ok(Err(e)) => run.violation(&format!("read Loca ({name}) does not parse from-spec bytes"), &e, case()),
        Err(p) => run.violation(&format!("read Loca panic: {} in {}", p.kind(), p.site()), &p.message, case()),
    }
}

pub(crate) fn loca_family(run: &Run) {
    let alpha: [u32; 14] = [0, 1, 2, 3, 4, 0x1FFFC, 0x1FFFD, 0x1FFFE, 0x1FFFF, 0x20000, 0x20001, 0x20002, 0xFFFF_FFFE, 0xFFFF_FFFF];
    run.bound("L.offset_alphabet", json!(alpha.iter().map(|a| format!("{a:#x}")).collect::<Vec<_>>()));
    run.bound("L.max_vector_length", json!(4));
    // every non-decreasing vector of length 0..=4
    let mut vecs: Vec<Vec<u32>> = vec![vec![]];
    let mut frontier: Vec<Vec<usize>> = vec![vec![]];
    for _ in 0..4 {
        let mut next = vec![];
        for v in &frontier {
            let from = v.last().copied().unwrap_or(0);
            for i in from..alpha.len() {
                let mut t = v.clone();
                t.push(i);
                next.push(t);
            }
        }
        vecs.extend(next.iter().map(|v| v.iter().map(|i| alpha[*i]).collect::<Vec<u32>>()));
        frontier = next;
    }
    run.count("L.non_decreasing_vectors", vecs.len() as u64);
    let mut l = Local::new();
    for v in &vecs {
        check_loca_vector(run, v, &mut l);
    }
    // the reader alone, on hand-encoded tables in any order (ascending test on both sides)
    let small: [u32; 4] = [0, 2, 4, 0x1FFFE];
    let mut hand = 0u64;
    for len in 0..=3usize {
        let mut d = vec![0usize; len];
        loop {
            let offs: Vec<u32> = d.iter().map(|i| small[*i]).collect();
            for long in [false, true] {
                let mut bytes = vec![];
                for o in &offs {
                    if long {
                        bytes.extend_from_slice(&o.to_be_bytes());
                    } else {
                        bytes.extend_from_slice(&((o / 2) as u16).to_be_bytes());
                    }
                }
                l.evals += 1;
                hand += 1;
                let c = json!({"kind":"loca_read","long":long,"offsets":offs});
                let case = || c.clone();
                check_loca_reader(run, &bytes, long, &offs, &mut l, &case);
            }
            if len == 0 || !next_digits(&mut d, small.len()) {
                break;
            }
        }
    }
    run.count("L.hand_encoded_tables", hand);
    l.merge(run, "L");
}

// ---------------------------------------------------------------------------
// K: count boundaries
// ---------------------------------------------------------------------------

pub(crate) fn count_family(run: &Run) {
    let mut l = Local::new();
    // 32766 / 32767 one-point contours are representable (numberOfContours is an i16); 32768 are not
    for n in [32766usize, 32767] {
        let contours: Vec<Vec<Pt>> = (0..n).map(|i| vec![((i % 300) as i16, (i / 300) as i16, i % 2 == 0)]).collect();
        let seq = [GSpec::Simple { contours, instr: vec![] }];
        l.evals += 1;
        let c = json!({"kind":"contours","n":n});
        let case = || c.clone();
        check_sequence(run, "K", &seq, 0, &mut l, &case);
    }
    {
        let n = 32768usize;
        let contours: Vec<Vec<Pt>> = (0..n).map(|i| vec![((i % 300) as i16, (i / 300) as i16, true)]).collect();
        let g = to_write_glyph(&GSpec::Simple { contours, instr: vec![] });
        l.evals += 1;
        let r = guard(|| {
            let mut b = GlyfLocaBuilder::new();
            b.add_glyph(&g).is_ok()
        });
        match r {
            Ok(false) => {}
            Ok(true) => run.violation(
                "GlyfLocaBuilder::add_glyph accepts a glyph with more than 32767 contours",
                "numberOfContours is a signed 16-bit field",
                json!({"kind":"contours","n":n}),
            ),
            Err(p) => run.violation(
                &format!("GlyfLocaBuilder::add_glyph panics on a glyph with 32768 contours: {} in {}", p.kind(), p.site()),
                &p.message,
                json!({"kind":"contours","n":n}),
            ),
        }
    }
    // 65535 points (the largest count maxp.maxPoints can state) in one and in two contours
    for split in [vec![65535usize], vec![1, 65534], vec![65534, 1]] {
        let mut contours: Vec<Vec<Pt>> = vec![];
        let mut k = 0usize;
        for s in &split {
            contours.push((0..*s).map(|_| { k += 1; ((k % 511) as i16, (k % 3) as i16 * 300, k % 5 != 0) }).collect());
        }
        let seq = [GSpec::Simple { contours, instr: vec![1, 2, 3] }];
        l.evals += 1;
        let c = json!({"kind":"points","split":split});
        let case = || c.clone();
        check_sequence(run, "K", &seq, 0, &mut l, &case);
    }
    run.bound("K.contour_counts", json!([32766, 32767, 32768]));
    run.bound("K.point_counts", json!("65535 as [65535], [1,65534], [65534,1]"));
    // side observation (never a verdict): more points than a 16-bit end point can name
    {
        let pts: Vec<Pt> = (0..65537usize).map(|i| ((i % 100) as i16, 0, true)).collect();
        let g = to_write_glyph(&GSpec::Simple { contours: vec![pts], instr: vec![] });
        let r = guard(|| {
            let mut b = GlyfLocaBuilder::new();
            b.add_glyph(&g).is_ok()
        });
        run.extra(
            "side_observation.simple_glyph_with_65537_points",
            json!(match r {
                Ok(true) => "accepted by add_glyph (the 16-bit end point wraps)".to_string(),
                Ok(false) => "rejected".to_string(),
                Err(p) => format!("PANIC {}", p.message),
            }),
        );
    }
    l.merge(run, "K");
}

// ---------------------------------------------------------------------------
// drawing helpers
// ---------------------------------------------------------------------------

pub(crate) const DRAW_MODE_SUFFIX: [&str; 3] = ["", " (HarfBuzz path style)", " (caller-provided memory)"];

/// head/hhea/hmtx/maxp + the given glyf/loca; one long metric per glyph (advance 500, the given lsb)
pub(crate) fn assemble_font(glyf: &[u8], loca: &[u8], long: bool, lsbs: &[i16]) -> Vec<u8> {
    let head = Head { units_per_em: 1000, index_to_loc_format: long as i16, ..Default::default() };
    let hhea = Hhea { number_of_h_metrics: lsbs.len() as u16, ..Default::default() };
    let hmtx = Hmtx::new(lsbs.iter().map(|l| LongMetric::new(500, *l)).collect(), vec![]);
    FontBuilder::new()
        .add_table(&head)
        .unwrap()
        .add_table(&hhea)
        .unwrap()
        .add_table(&hmtx)
        .unwrap()
        .add_table(&Maxp::new(lsbs.len() as u16))
        .unwrap()
        .add_raw(Tag::new(b"glyf"), glyf.to_vec())
        .add_raw(Tag::new(b"loca"), loca.to_vec())
        .build()
}

/// unscaled, unhinted draw of one glyph. mode 0: default (FreeType) path style; 1: HarfBuzz path style;
/// 2: default style into a caller-provided buffer of exactly draw_memory_size(None) bytes
pub(crate) fn draw_gid(font_bytes: &[u8], gid: u32, mode: u8) -> Result<Vec<El>, String> {
    let font = FontRef::new(font_bytes).map_err(|e| format!("font: {e}"))?;
    let og = font
        .outline_glyphs()
        .get(GlyphId::new(gid))
        .ok_or_else(|| format!("no outline glyph {gid}"))?;
    let mut pen = Rec::default();
    let settings = DrawSettings::unhinted(Size::unscaled(), LocationRef::default());
    match mode {
        0 => og.draw(settings, &mut pen).map_err(|e| format!("draw: {e}"))?,
        1 => og
            .draw(settings.with_path_style(PathStyle::HarfBuzz), &mut pen)
            .map_err(|e| format!("draw: {e}"))?,
        _ => {
            let mut buf = vec![0u8; og.draw_memory_size(Hinting::None)];
            og.draw(settings.with_memory(Some(&mut buf)), &mut pen)
                .map_err(|e| format!("draw: {e}"))?
        }
    };
    Ok(pen.0)
}

// ---------------------------------------------------------------------------
// P: long paths
// ---------------------------------------------------------------------------

pub(crate) fn long_path_family(run: &Run) {
    let n_max = run.tier.pick(1000usize, 4000usize);
    run.bound("P.polyline_points", json!(format!("every n in 3..={n_max}")));
    run.bound("P.quad_chain_segments", json!(format!("every n in 2..={} (explicit on-curve points) and every n in 3..={} (all on-curve points implied)", n_max / 2, n_max / 2)));
    let mut paths: Vec<Vec<El>> = vec![];
    // polylines: zig-zag, never a zero-length segment
    for n in 3..=n_max {
        let p = |i: usize| ((i as f64) * 3.0 - 2000.0, ((i % 2) * 50 + (i / 2 % 3) * 7) as f64 + if i == 0 { 500.0 } else { 0.0 });
        let mut els = vec![El::M(p(0).0, p(0).1)];
        for i in 1..n {
            els.push(El::L(p(i).0, p(i).1));
        }
        els.push(El::Z);
        paths.push(els);
    }
    // quad chains whose on-curve points are not midpoints
    for n in 2..=n_max / 2 {
        let on = |i: usize| ((i as f64) * 6.0 - 2999.0, if i % 2 == 0 { 0.0 } else { 11.0 });
        let off = |i: usize| ((i as f64) * 6.0 - 2997.0, if i % 3 == 0 { -40.0 } else { 37.0 });
        let mut els = vec![El::M(on(0).0, on(0).1)];
        for i in 0..n {
            let e = if i + 1 == n { (on(0).0, 400.0) } else { on(i + 1) };
            els.push(El::Q(off(i).0, off(i).1, e.0, e.1));
        }
        els.push(El::L(on(0).0, on(0).1));
        els.push(El::Z);
        paths.push(els);
    }
    // all-implied quad rings: n controls with even coordinates; every on-curve point is the exact midpoint
    // of its neighbours, so the glyph holds off-curve points only
    for n in 3..=n_max / 2 {
        let c = |i: usize| {
            let i = i % n;
            ((i as f64) * 8.0 - 4000.0, if i % 2 == 0 { -200.0 + (i % 7) as f64 * 2.0 } else { 300.0 + (i % 5) as f64 * 4.0 })
        };
        let mid = |a: (f64, f64), b: (f64, f64)| ((a.0 + b.0) / 2.0, (a.1 + b.1) / 2.0);
        let start = mid(c(n - 1), c(0));
        let mut els = vec![El::M(start.0, start.1)];
        for i in 0..n {
            let e = mid(c(i), c(i + 1));
            els.push(El::Q(c(i).0, c(i).1, e.0, e.1));
        }
        els.push(El::Z);
        paths.push(els);
    }
    // many contours: m triangles for every m (the contour end-point array takes part in the memory layout)
    let m_max = run.tier.pick(300usize, 1200usize);
    run.bound("P.triangle_counts", json!(format!("every m in 2..={m_max}")));
    for m in 2..=m_max {
        let mut els = vec![];
        for k in 0..m {
            let (x, y) = ((k % 40) as f64 * 20.0 - 400.0, (k / 40) as f64 * 20.0 - 300.0);
            els.extend([El::M(x, y), El::L(x + 10.0, y), El::L(x + 5.0, y + 9.0), El::Z]);
        }
        paths.push(els);
    }
    run.count("P.long_paths", paths.len() as u64);
    let locals: Vec<Local> = paths
        .par_chunks(16)
        .map(|chunk| {
            let mut l = Local::new();
            for els in chunk {
                check_path(run, els, &mut l);
            }
            l
        })
        .collect();
    for l in locals {
        l.merge(run, "P");
    }
}

// ---------------------------------------------------------------------------
// F: fonts of several glyphs, each drawn by its glyph id
// ---------------------------------------------------------------------------

fn font_letters() -> Vec<Vec<El>> {
    vec![
        vec![], // Empty
        vec![El::M(0.0, 0.0), El::L(100.0, 0.0), El::L(50.0, 80.0), El::Z],
        // all on-curve points implied (the contour starts off-curve)
        vec![El::M(0.0, 50.0), El::Q(0.0, 100.0, 50.0, 100.0), El::Q(100.0, 100.0, 100.0, 50.0), El::Q(100.0, 0.0, 50.0, 0.0), El::Q(0.0, 0.0, 0.0, 50.0), El::Z],
        // two contours; the first starts with an implied point and ends on-curve
        vec![
            El::M(-30.0, 10.0), El::Q(-40.0, 10.0, -40.0, 40.0), El::L(-10.0, 40.0), El::Q(-20.0, 10.0, -30.0, 10.0), El::Z,
            El::M(200.0, 0.0), El::L(300.0, 0.0), El::Q(330.0, 50.0, 300.0, 100.0), El::Z,
        ],
        vec![El::M(7.0, -9.0), El::Q(70.0, 3.0, 7.0, 90.0), El::Z],
    ]
}

pub(crate) fn check_font(run: &Run, letters: &[usize], fillers: usize, l: &mut Local) {
    l.evals += 1;
    let case = || json!({"kind":"font","letters":letters,"fillers":fillers});
    let alphabet = font_letters();
    let mut specs: Vec<GSpec> = vec![];
    let mut lsbs: Vec<i16> = vec![];
    for k in letters {
        let els = &alphabet[*k];
        if els.is_empty() {
            specs.push(GSpec::Empty);
            lsbs.push(0);
            continue;
        }
        let mut path = BezPath::new();
        for e in els {
            match *e {
                El::M(x, y) => path.move_to((x, y)),
                El::L(x, y) => path.line_to((x, y)),
                El::Q(a, b, x, y) => path.quad_to((a, b), (x, y)),
                _ => path.close_path(),
            }
        }
        let Ok(Ok(g)) = guard(|| SimpleGlyph::from_bezpath(&path)) else {
            run.violation("SimpleGlyph::from_bezpath rejects a line/quad path", "font family", case());
            return;
        };
        let contours: Vec<Vec<Pt>> = g.contours.iter().map(|c| c.iter().map(|p| (p.x, p.y, p.on_curve)).collect()).collect();
        lsbs.push(bbox_of(&contours).x_min);
        specs.push(GSpec::Simple { contours, instr: vec![] });
    }
    let Some(built) = check_sequence(run, "F", &specs, fillers, l, &case) else {
        return;
    };
    for _ in 0..fillers {
        lsbs.push(0);
    }
    let Ok(font_bytes) = guard(|| assemble_font(&built.glyf, &built.loca, built.long, &lsbs)) else {
        run.violation("assembling a font of several glyphs panics", "", case());
        return;
    };
    let mut h = Fnv::new();
    h.str("font");
    h.u64(built.long as u64);
    for (gid, k) in letters.iter().enumerate() {
        let want = contours_of(&alphabet[*k]).unwrap_or_default();
        for mode in 0..3u8 {
            let suffix = DRAW_MODE_SUFFIX[mode as usize];
            l.trans += 1;
            let loc = if built.long { "long" } else { "short" };
            match guard(|| draw_gid(&font_bytes, gid as u32, mode)) {
                Ok(Ok(drawn)) => {
                    let got = contours_of(&drawn).unwrap_or_default();
                    let ok = want.len() == got.len() && want.iter().zip(got.iter()).all(|(a, b)| cyclic_equal(a, b, 0.0));
                    if !ok {
                        run.violation(
                            &format!("glyph of a font with several glyphs ({loc} loca) draws as a different path than the one it was built from{suffix}"),
                            &format!("glyph {gid}: drawn {drawn:?}"),
                            case(),
                        );
                        return;
                    }
                    h.u64(drawn.len() as u64);
                }
                Ok(Err(e)) => {
                    run.violation(&format!("glyph of a font with several glyphs ({loc} loca) cannot be drawn{suffix}"), &format!("glyph {gid}: {e}"), case());
                    return;
                }
                Err(p) => {
                    run.violation(&format!("drawing a built glyph panics{suffix}: {} in {}", p.kind(), p.site()), &p.message, case());
                    return;
                }
            }
        }
    }
    l.all.insert(h.finish());
    l.nontrivial.insert(h.finish());
}

pub(crate) fn font_family(run: &Run) {
    let n = font_letters().len();
    run.bound("F.glyph_letters", json!(["Empty", "triangle", "ring of implied points", "two contours", "single quad"]));
    run.bound("F.max_glyphs", json!(3));
    let mut seqs: Vec<Vec<usize>> = vec![];
    for len in 1..=3usize {
        let mut d = vec![0usize; len];
        loop {
            seqs.push(d.clone());
            if !next_digits(&mut d, n) {
                break;
            }
        }
    }
    run.count("F.fonts", 2 * seqs.len() as u64);
    let locals: Vec<Local> = seqs
        .par_iter()
        .map(|s| {
            let mut l = Local::new();
            for fillers in [0usize, 2] {
                check_font(run, s, fillers, &mut l);
            }
            l
        })
        .collect();
    for l in locals {
        l.merge(run, "F");
    }
}

// ---------------------------------------------------------------------------
// I: interpolatable glyphs from several masters
// ---------------------------------------------------------------------------

fn to_bez(els: &[El]) -> BezPath {
    let mut path = BezPath::new();
    for e in els {
        match *e {
            El::M(x, y) => path.move_to((x, y)),
            El::L(x, y) => path.line_to((x, y)),
            El::Q(a, b, x, y) => path.quad_to((a, b), (x, y)),
            El::Z => path.close_path(),
            El::C => path.curve_to((1.0, 2.0), (3.0, 4.0), (5.0, 6.0)),
        }
    }
    path
}

/// masters of one structure: M s, Q c0 j, Q c1 e, L p, (L s), Z — the join j is the exact midpoint of the
/// two controls, one unit off, or far; a second structure puts the join at the start point.
fn master_shapes(structure: u8) -> Vec<Vec<El>> {
    let ctrl: [((f64, f64), (f64, f64)); 3] = [((-40.0, 10.0), (10.0, 30.0)), ((-20.0, -20.0), (40.0, 60.0)), ((0.0, 5.0), (31.0, -40.0))];
    let mut out = vec![];
    for (c0, c1) in ctrl {
        let m = ((c0.0 + c1.0) / 2.0, (c0.1 + c1.1) / 2.0);
        for j in [m, (m.0 + 1.0, m.1), (m.0, m.1 - 7.0)] {
            let (s, e, p) = ((200.0, 0.0), (0.0, 200.0), (200.0, 200.0));
            out.push(match structure {
                0 => vec![El::M(s.0, s.1), El::Q(c0.0, c0.1, j.0, j.1), El::Q(c1.0, c1.1, e.0, e.1), El::L(p.0, p.1), El::L(s.0, s.1), El::Z],
                _ => vec![El::M(j.0, j.1), El::Q(c1.0, c1.1, e.0, e.1), El::L(p.0, p.1), El::Q(c0.0, c0.1, j.0, j.1), El::Z],
            });
        }
    }
    out
}

pub(crate) fn check_masters(run: &Run, masters: &[Vec<El>], l: &mut Local) {
    l.evals += 1;
    let case = || json!({"kind":"masters","masters": masters.iter().map(|m| els_json(m)).collect::<Vec<_>>()});
    let paths: Vec<BezPath> = masters.iter().map(|m| to_bez(m)).collect();
    let same_structure = masters.iter().all(|m| {
        m.len() == masters[0].len() && m.iter().zip(masters[0].iter()).all(|(a, b)| std::mem::discriminant(a) == std::mem::discriminant(b))
    });
    l.trans += 1;
    let glyphs = match guard(|| SimpleGlyph::interpolatable_glyphs_from_bezpaths(&paths)) {
        Ok(Ok(g)) => g,
        Ok(Err(e)) => {
            if same_structure {
                run.violation("interpolatable_glyphs_from_bezpaths rejects compatible line/quad masters", &format!("{e:?}"), case());
            } else {
                let mut h = Fnv::new();
                h.str("masters refused");
                h.str(&format!("{e:?}"));
                l.all.insert(h.finish());
                l.nontrivial.insert(h.finish());
            }
            return;
        }
        Err(p) => {
            run.violation(
                &format!("interpolatable_glyphs_from_bezpaths panic: {} in {}", p.kind(), p.site()),
                &format!("{} ({}:{})", p.message, p.file, p.line),
                case(),
            );
            return;
        }
    };
    if glyphs.len() != masters.len() {
        run.violation("interpolatable_glyphs_from_bezpaths returns a different number of glyphs than masters", &format!("{} vs {}", glyphs.len(), masters.len()), case());
        return;
    }
    // whatever was accepted: glyph i must draw as master i (the statement), and, for compatible masters,
    // all glyphs must share one point structure (the purpose of the function)
    let structure = |g: &SimpleGlyph| -> Vec<Vec<bool>> { g.contours.iter().map(|c| c.iter().map(|p| p.on_curve).collect()).collect() };
    if same_structure && glyphs.iter().any(|g| structure(g) != structure(&glyphs[0])) {
        run.violation("interpolatable_glyphs_from_bezpaths returns glyphs with different point structures", "", case());
        return;
    }
    let mut h = Fnv::new();
    h.str("masters");
    for (i, (g, m)) in glyphs.iter().zip(masters.iter()).enumerate() {
        let contours: Vec<Vec<Pt>> = g.contours.iter().map(|c| c.iter().map(|p| (p.x, p.y, p.on_curve)).collect()).collect();
        let lsb = bbox_of(&contours).x_min;
        let seq = [GSpec::Simple { contours, instr: vec![] }];
        let Some(built) = check_sequence(run, "I", &seq, 0, l, &case) else {
            return;
        };
        let Some(want) = contours_of(m) else { return };
        for mode in 0..2u8 {
            let suffix = DRAW_MODE_SUFFIX[mode as usize];
            l.trans += 1;
            let r = guard(|| draw_gid(&assemble_font(&built.glyf, &built.loca, built.long, &[lsb]), 0, mode));
            match r {
                Ok(Ok(drawn)) => {
                    let got = contours_of(&drawn).unwrap_or_default();
                    let ok = want.len() == got.len() && want.iter().zip(got.iter()).all(|(a, b)| cyclic_equal(a, b, 0.5));
                    if !ok {
                        run.violation(
                            &format!("glyph built from one of several masters draws as a geometrically different path{suffix}"),
                            &format!("master {i}: drawn {drawn:?}"),
                            case(),
                        );
                        return;
                    }
                    h.u64(drawn.len() as u64);
                    h.bytes(&built.glyf[10..]);
                }
                Ok(Err(e)) => {
                    run.violation(&format!("a glyph built from one of several masters cannot be drawn{suffix}"), &e, case());
                    return;
                }
                Err(p) => {
                    run.violation(&format!("drawing a built glyph panics{suffix}: {} in {}", p.kind(), p.site()), &p.message, case());
                    return;
                }
            }
        }
    }
    l.all.insert(h.finish());
    l.nontrivial.insert(h.finish());
}

pub(crate) fn masters_family(run: &Run) {
    run.bound("I.shapes_per_structure", json!("3 control pairs x join {exact midpoint, +(1,0), -(0,7)} = 9; 2 structures (join in the middle / at the start)"));
    run.bound("I.masters", json!("all pairs, all triples of one structure; all pairs across structures (incompatible)"));
    let mut sets: Vec<Vec<Vec<El>>> = vec![];
    for structure in 0..2u8 {
        let shapes = master_shapes(structure);
        for a in &shapes {
            for b in &shapes {
                sets.push(vec![a.clone(), b.clone()]);
                for c in &shapes {
                    sets.push(vec![a.clone(), b.clone(), c.clone()]);
                }
            }
        }
    }
    // incompatible masters: different element kinds (same count differs too: 6 vs 5 elements), and the
    // same count with different kinds
    let s0 = master_shapes(0);
    let s1 = master_shapes(1);
    for a in s0.iter().take(3) {
        for b in s1.iter().take(3) {
            sets.push(vec![a.clone(), b.clone()]);
            // same number of elements, different kinds: replace the quad of b by a line and pad
            let mut b2 = b.clone();
            b2.insert(2, El::L(150.0, 150.0));
            sets.push(vec![a.clone(), b2]);
        }
    }
    run.count("I.master_sets", sets.len() as u64);
    let locals: Vec<Local> = sets
        .par_chunks(16)
        .map(|chunk| {
            let mut l = Local::new();
            for m in chunk {
                check_masters(run, m, &mut l);
            }
            l
        })
        .collect();
    for l in locals {
        l.merge(run, "I");
    }
}
