//! C09 — glyph outlines written to glyf/loca are the outlines read and drawn back.
//!
//! Bounded exhaustive exploration of write_fonts `SimpleGlyph` / `CompositeGlyph` / `GlyfLocaBuilder`
//! against read_fonts' glyf/loca readers and skrifa's unscaled drawing. See DESIGN.md §3 C09.
//!
//! Enumerated spaces (fixed order, no sampling):
//!  A   simple glyphs: every point sequence of length <= n whose per-axis deltas come from
//!      D = {0, ±1, ±255, ±256, 32767, -32768} (coordinates must stay in i16), each point on/off curve,
//!      every split into contours, instruction lengths {0,1,2,3} (n = 3 quick; n = 4 thorough over
//!      D4 = {0, ±255, ±256}); the one-point sub-family is additionally built under the long
//!      location format
//!  A2  flag-run families: r points of one flag class (32 classes) for every r in 1..=R (R = 520 quick,
//!      1030 thorough), with 0/1/2 points of a different class before and after
//!  B   composites: every component list of length <= 2 over glyph ids × anchors (offset/point,
//!      byte/word boundaries) × transforms (none, scale, xy-scale, 2x2) × the 32 flag sets
//!  C   builder sequences: every sequence of <= 3 (4) glyphs from {Empty, contour-less simple, even simple,
//!      odd simple (needs padding), composite}, each under both location formats; sized families
//!      whose final offset lies on every even value of 0x1FFF8..=0x20006
//!  D   paths: closed line/quadratic contours of k <= 4 (5) segments whose on-curve points between two
//!      quads are {exact midpoint, off by one in x, off by one in y, off by a half, far}, controls with
//!      both parities; two closing styles; pairs of two-segment contours
//!
//! Oracle: the input itself, decoded independently through `Loca::get_glyf` + `SimpleGlyph::points`
//! / `read_points_fast` / `CompositeGlyph::components`, a reference shortest-length computation, and a
//! cyclic segment-list comparison for drawn paths.

use font_types::{F2Dot14, GlyphId, GlyphId16, Point, Tag};
use kurbo::BezPath;
use rayon::prelude::*;
use read_fonts::tables::glyf as rg;
use read_fonts::tables::glyf::CurvePoint;
use read_fonts::tables::loca as rl;
use read_fonts::{FontData, FontRead, FontRef};
use serde_json::{json, Value};
use skrifa::instance::{LocationRef, Size};
use skrifa::outline::{DrawSettings, OutlinePen};
use skrifa::MetadataProvider;
use std::collections::HashSet;
use vcore::*;
use write_fonts::tables::glyf::{
    Anchor, Bbox, Component, ComponentFlags, CompositeGlyph, Contour, GlyfLocaBuilder,
    Glyph, SimpleGlyph, Transform,
};
use write_fonts::tables::head::Head;
use write_fonts::tables::hhea::Hhea;
use write_fonts::tables::hmtx::{Hmtx, LongMetric};
use write_fonts::tables::loca::LocaFormat;
use write_fonts::tables::maxp::Maxp;
use write_fonts::{dump_table, FontBuilder};

mod audit;

fn main() {
    main_for("C09", body)
}

struct Local {
    all: HashSet<u64>,
    nontrivial: HashSet<u64>,
    evals: u64,
    trans: u64,
    padded: u64,
    shorter_than_ref: u64,
    long_format: u64,
    elided: u64,
}
impl Local {
    fn new() -> Self {
        Local {
            all: HashSet::new(),
            nontrivial: HashSet::new(),
            evals: 0,
            trans: 0,
            padded: 0,
            shorter_than_ref: 0,
            long_format: 0,
            elided: 0,
        }
    }
    fn merge(self, run: &Run, prefix: &str) {
        run.observe_many(&self.all, &self.nontrivial);
        run.evals(self.evals);
        run.trans(self.trans);
        run.count(&format!("{prefix}.cases"), self.evals);
        run.count(&format!("{prefix}.glyphs_needing_padding"), self.padded);
        run.count(&format!("{prefix}.encoded_shorter_than_reference"), self.shorter_than_ref);
        run.count(&format!("{prefix}.built_with_long_loca"), self.long_format);
        run.count(&format!("{prefix}.implied_points_elided"), self.elided);
    }
}

// ---------------------------------------------------------------------------
// glyph descriptions (what a replay file carries)
// ---------------------------------------------------------------------------

type Pt = (i16, i16, bool);

#[derive(Clone, Debug, PartialEq)]
struct CompSpec {
    gid: u16,
    anchor: (bool, i32, i32), // (is_offset, a, b)
    xf: [i16; 4],             // F2Dot14 bits xx, yx, xy, yy
    flags: u8,                // 5 bits: round, my_metrics, scaled, unscaled, overlap
}

#[derive(Clone, Debug, PartialEq)]
enum GSpec {
    Empty,
    Simple { contours: Vec<Vec<Pt>>, instr: Vec<u8> },
    Composite { comps: Vec<CompSpec>, bbox: [i16; 4] },
}

fn gspec_json(g: &GSpec) -> Value {
    match g {
        GSpec::Empty => json!({"g":"empty"}),
        GSpec::Simple { contours, instr } => json!({
            "g":"simple",
            "contours": contours.iter().map(|c| c.iter().map(|p| json!([p.0,p.1,p.2 as u8])).collect::<Vec<_>>()).collect::<Vec<_>>(),
            "instr": hex(instr),
        }),
        GSpec::Composite { comps, bbox } => json!({
            "g":"composite",
            "bbox": bbox,
            "comps": comps.iter().map(|c| json!({"gid":c.gid,"offset":c.anchor.0,"a":c.anchor.1,"b":c.anchor.2,"xf":c.xf,"flags":c.flags})).collect::<Vec<_>>(),
        }),
    }
}

fn gspec_from_json(v: &Value) -> GSpec {
    match v["g"].as_str() {
        Some("simple") => GSpec::Simple {
            contours: v["contours"]
                .as_array()
                .unwrap()
                .iter()
                .map(|c| {
                    c.as_array()
                        .unwrap()
                        .iter()
                        .map(|p| {
                            (
                                p[0].as_i64().unwrap() as i16,
                                p[1].as_i64().unwrap() as i16,
                                p[2].as_i64().unwrap() != 0,
                            )
                        })
                        .collect()
                })
                .collect(),
            instr: unhex(v["instr"].as_str().unwrap_or("")),
        },
        Some("composite") => GSpec::Composite {
            bbox: {
                let b = v["bbox"].as_array().unwrap();
                [0, 1, 2, 3].map(|i| b[i].as_i64().unwrap() as i16)
            },
            comps: v["comps"]
                .as_array()
                .unwrap()
                .iter()
                .map(|c| CompSpec {
                    gid: c["gid"].as_u64().unwrap() as u16,
                    anchor: (
                        c["offset"].as_bool().unwrap(),
                        c["a"].as_i64().unwrap() as i32,
                        c["b"].as_i64().unwrap() as i32,
                    ),
                    xf: {
                        let b = c["xf"].as_array().unwrap();
                        [0, 1, 2, 3].map(|i| b[i].as_i64().unwrap() as i16)
                    },
                    flags: c["flags"].as_u64().unwrap() as u8,
                })
                .collect(),
        },
        _ => GSpec::Empty,
    }
}

fn bbox_of(contours: &[Vec<Pt>]) -> Bbox {
    let mut it = contours.iter().flatten();
    let Some(f) = it.next() else {
        return Bbox::default();
    };
    let mut b = Bbox { x_min: f.0, x_max: f.0, y_min: f.1, y_max: f.1 };
    for p in it {
        b.x_min = b.x_min.min(p.0);
        b.x_max = b.x_max.max(p.0);
        b.y_min = b.y_min.min(p.1);
        b.y_max = b.y_max.max(p.1);
    }
    b
}

fn comp_flags(bits: u8) -> ComponentFlags {
    ComponentFlags {
        round_xy_to_grid: bits & 1 != 0,
        use_my_metrics: bits & 2 != 0,
        scaled_component_offset: bits & 4 != 0,
        unscaled_component_offset: bits & 8 != 0,
        overlap_compound: bits & 16 != 0,
    }
}

fn comp_anchor(a: (bool, i32, i32)) -> Anchor {
    if a.0 {
        Anchor::Offset { x: a.1 as i16, y: a.2 as i16 }
    } else {
        Anchor::Point { base: a.1 as u16, component: a.2 as u16 }
    }
}

fn comp_xf(x: [i16; 4]) -> Transform {
    Transform {
        xx: F2Dot14::from_bits(x[0]),
        yx: F2Dot14::from_bits(x[1]),
        xy: F2Dot14::from_bits(x[2]),
        yy: F2Dot14::from_bits(x[3]),
    }
}

fn to_write_glyph(g: &GSpec) -> Glyph {
    match g {
        GSpec::Empty => Glyph::Empty,
        GSpec::Simple { contours, instr } => Glyph::Simple(SimpleGlyph {
            bbox: bbox_of(contours),
            contours: contours
                .iter()
                .map(|c| {
                    Contour::from(
                        c.iter().map(|p| CurvePoint::new(p.0, p.1, p.2)).collect::<Vec<_>>(),
                    )
                })
                .collect(),
            instructions: instr.clone(),
        }),
        GSpec::Composite { comps, bbox } => {
            let bb = Bbox { x_min: bbox[0], y_min: bbox[1], x_max: bbox[2], y_max: bbox[3] };
            let mut it = comps.iter().map(|c| {
                Component::new(
                    GlyphId16::new(c.gid),
                    comp_anchor(c.anchor),
                    comp_xf(c.xf),
                    comp_flags(c.flags),
                )
            });
            let mut g = CompositeGlyph::new(it.next().expect(">=1 component"), bb);
            for c in it {
                g.add_component(c, bb);
            }
            Glyph::Composite(g)
        }
    }
}

// ---------------------------------------------------------------------------
// reference shortest encoding length of a simple glyph
// ---------------------------------------------------------------------------

/// Length in bytes of the canonical shortest encoding: header, end points, instructions, flags with
/// optimal run-length use (a flag byte covers one point, a flag+repeat pair up to 256), one byte for
/// |delta| <= 255, none for 0, two otherwise; padded to 2 bytes (the builder's alignment).
fn reference_len(contours: &[Vec<Pt>], instr_len: usize) -> usize {
    if contours.is_empty() {
        return 0;
    }
    let mut len = 10 + 2 * contours.len() + 2 + instr_len;
    let (mut lx, mut ly) = (0i32, 0i32);
    let mut prev_class: Option<(bool, u8, u8)> = None;
    let mut run = 0usize;
    let flush = |run: usize| -> usize {
        let full = run / 256;
        let rem = run % 256;
        2 * full + match rem {
            0 => 0,
            1 => 1,
            _ => 2,
        }
    };
    let class = |d: i32| -> (u8, usize) {
        match d {
            0 => (0, 0),
            1..=255 => (1, 1),
            -255..=-1 => (2, 1),
            _ => (3, 2),
        }
    };
    for p in contours.iter().flatten() {
        let (cx, bx) = class(p.0 as i32 - lx);
        let (cy, by) = class(p.1 as i32 - ly);
        lx = p.0 as i32;
        ly = p.1 as i32;
        len += bx + by;
        let c = (p.2, cx, cy);
        if Some(c) == prev_class {
            run += 1;
        } else {
            len += flush(run);
            run = 1;
            prev_class = Some(c);
        }
    }
    len += flush(run);
    (len + 1) & !1
}

// ---------------------------------------------------------------------------
// build + independent decode of a glyph sequence
// ---------------------------------------------------------------------------

fn seq_json(family: &str, seq: &[GSpec], fillers: usize) -> Value {
    json!({"kind":"seq","family":family,"fillers":fillers,"glyphs": seq.iter().map(gspec_json).collect::<Vec<_>>()})
}

/// A glyph of exactly `size` bytes (size even, 16 <= size <= 65548): one on-curve point at the
/// origin and size-15 instruction bytes with a position-dependent pattern.
fn sized_glyph(size: usize, salt: u8) -> GSpec {
    assert!(size % 2 == 0 && size >= 16 && size - 15 < 65535);
    GSpec::Simple {
        contours: vec![vec![(0, 0, true)]],
        instr: (0..size - 15).map(|i| ((i % 251) as u8).wrapping_add(salt)).collect(),
    }
}

struct Built {
    glyf: Vec<u8>,
    loca: Vec<u8>,
    long: bool,
    lens: Vec<usize>,
}

/// Build `seq` (+ `fillers` big glyphs appended to push the final offset past 0x20000) and check every
/// glyph against its description. Returns the built tables for further use (drawing).
fn check_sequence(
    run: &Run,
    family: &str,
    seq: &[GSpec],
    fillers: usize,
    l: &mut Local,
    case: &dyn Fn() -> Value,
) -> Option<Built> {
    let mut all: Vec<GSpec> = seq.to_vec();
    for i in 0..fillers {
        all.push(sized_glyph(65548, i as u8));
    }
    let wg: Vec<Glyph> = all.iter().map(to_write_glyph).collect();
    // individual encodings (length oracle + expected offsets)
    let mut lens = vec![];
    for (i, (g, spec)) in wg.iter().zip(all.iter()).enumerate() {
        l.trans += 1;
        let bytes = match guard(|| dump_table(g)) {
            Ok(Ok(b)) => b,
            Ok(Err(e)) => {
                run.violation(
                    &format!("{family}: glyph fails to compile"),
                    &format!("glyph {i}: {e}"),
                    case(),
                );
                return None;
            }
            Err(p) => {
                run.violation(
                    &format!("{family}: glyph compile panic: {} in {}", p.kind(), p.site()),
                    &format!("glyph {i}: {} ({}:{})", p.message, p.file, p.line),
                    case(),
                );
                return None;
            }
        };
        if let GSpec::Simple { contours, instr } = spec {
            let r = reference_len(contours, instr.len());
            if bytes.len() > r {
                run.violation(
                    "SimpleGlyph encoding is longer than the canonical shortest encoding",
                    &format!("glyph {i}: {} bytes, reference {} bytes", bytes.len(), r),
                    case(),
                );
            } else if bytes.len() < r {
                l.shorter_than_ref += 1;
            }
        }
        lens.push(bytes.len());
    }
    let mut builder = GlyfLocaBuilder::new();
    l.trans += all.len() as u64 + 1;
    let r = guard(|| {
        for g in &wg {
            builder.add_glyph(g).map_err(|e| format!("{e}"))?;
        }
        let (glyf, loca, fmt) = builder.build();
        let gb = dump_table(&glyf).map_err(|e| format!("{e}"))?;
        let lb = dump_table(&loca).map_err(|e| format!("{e}"))?;
        Ok::<_, String>((gb, lb, fmt))
    });
    let (glyf_b, loca_b, fmt) = match r {
        Ok(Ok(t)) => t,
        Ok(Err(e)) => {
            run.violation(&format!("{family}: GlyfLocaBuilder fails"), &e, case());
            return None;
        }
        Err(p) => {
            run.violation(
                &format!("{family}: GlyfLocaBuilder panic: {} in {}", p.kind(), p.site()),
                &format!("{} ({}:{})", p.message, p.file, p.line),
                case(),
            );
            return None;
        }
    };
    // expected offsets and location format
    let mut offs = vec![0usize];
    for n in &lens {
        offs.push(offs.last().unwrap() + n);
    }
    let expect_long = !(offs.iter().all(|o| o % 2 == 0) && *offs.last().unwrap() < 0x20000);
    let long = fmt == LocaFormat::Long;
    if long != expect_long {
        run.violation(
            &format!(
                "LocaFormat is {} although the final offset is {} 0x20000",
                if long { "long" } else { "short" },
                if expect_long { ">=" } else { "<" }
            ),
            &format!("offsets {:x?}", &offs[offs.len().saturating_sub(4)..]),
            case(),
        );
    }
    if long {
        l.long_format += 1;
    }
    let r = guard(|| decode_and_compare(run, family, &all, seq.len(), &glyf_b, &loca_b, long, &offs, l, case));
    if let Err(p) = r {
        run.violation(
            &format!("{family}: glyf/loca reader panic: {} in {}", p.kind(), p.site()),
            &format!("{} ({}:{})", p.message, p.file, p.line),
            case(),
        );
        return None;
    }
    Some(Built { glyf: glyf_b, loca: loca_b, long, lens })
}

#[allow(clippy::too_many_arguments)]
fn decode_and_compare(
    run: &Run,
    family: &str,
    all: &[GSpec],
    n_real: usize,
    glyf_b: &[u8],
    loca_b: &[u8],
    long: bool,
    offs: &[usize],
    l: &mut Local,
    case: &dyn Fn() -> Value,
) {
    let fmtname = if long { "long" } else { "short" };
    let loca = match rl::Loca::read(FontData::new(loca_b), long) {
        Ok(x) => x,
        Err(e) => {
            run.violation(&format!("{family}: built loca does not parse"), &format!("{e}"), case());
            return;
        }
    };
    let glyf = match rg::Glyf::read(FontData::new(glyf_b)) {
        Ok(x) => x,
        Err(e) => {
            run.violation(&format!("{family}: built glyf does not parse"), &format!("{e}"), case());
            return;
        }
    };
    if loca.len() != all.len() {
        run.violation(
            &format!("loca ({fmtname}) has the wrong number of entries"),
            &format!("{} entries for {} glyphs", loca.len(), all.len()),
            case(),
        );
        return;
    }
    if *offs.last().unwrap() != glyf_b.len() {
        run.violation(
            "glyf table length differs from the sum of the glyph encodings",
            &format!("{} vs {}", glyf_b.len(), offs.last().unwrap()),
            case(),
        );
        // the byte ranges below are taken from the expected offsets: stop here rather than slice
        // outside the table the library produced
        return;
    }
    let mut h = Fnv::new();
    h.str(family);
    h.u64(long as u64);
    for (i, spec) in all.iter().enumerate() {
        l.trans += 1;
        let raw = (loca.get_raw(i), loca.get_raw(i + 1));
        if raw != (Some(offs[i] as u32), Some(offs[i + 1] as u32)) {
            run.violation(
                &format!("loca ({fmtname}) offset of a glyph differs from the builder's position"),
                &format!("glyph {i}: loca {raw:x?}, expected {:x}..{:x}", offs[i], offs[i + 1]),
                case(),
            );
            return;
        }
        let got = match loca.get_glyf(GlyphId::new(i as u32), &glyf) {
            Ok(g) => g,
            Err(e) => {
                run.violation(
                    &format!("Loca::get_glyf ({fmtname}) fails on a built glyph"),
                    &format!("glyph {i}: {e}"),
                    case(),
                );
                return;
            }
        };
        // fillers are checked for instruction content only when they are sized glyphs: same path
        match (spec, got) {
            (GSpec::Empty, None) => {
                h.str("E");
            }
            (GSpec::Simple { contours, .. }, None) if contours.is_empty() => {
                h.str("e");
            }
            (GSpec::Simple { contours, instr }, Some(rg::Glyph::Simple(g))) if !contours.is_empty() => {
                if let Some(what) = compare_simple(&g, contours, instr) {
                    run.violation(
                        &format!("simple glyph decodes differently ({fmtname} loca): {}", what.0),
                        &format!("glyph {i}: {}", what.1),
                        case(),
                    );
                    return;
                }
                // owned re-read through write-fonts' FromObjRef
                let bytes = &glyf_b[offs[i]..offs[i + 1]];
                if i < n_real {
                    match SimpleGlyph::read(FontData::new(bytes)) {
                        Ok(owned) => {
                            if Glyph::Simple(owned) != to_write_glyph(spec) {
                                run.violation(
                                    "SimpleGlyph owned re-read differs from the glyph written",
                                    &format!("glyph {i}"),
                                    case(),
                                );
                            }
                        }
                        Err(e) => run.violation(
                            "SimpleGlyph owned re-read fails",
                            &format!("glyph {i}: {e}"),
                            case(),
                        ),
                    }
                    if family != "A" {
                        // write-fonts' Glyph::read must dispatch on the sign of numberOfContours
                        match Glyph::read(FontData::new(bytes)) {
                            Ok(owned) if owned == to_write_glyph(spec) => {}
                            _ => run.violation("Glyph owned re-read (simple) differs from the glyph written", &format!("glyph {i}"), case()),
                        }
                    }
                    h.str("S");
                    h.bytes(&bytes[10..]);
                    if bytes.last() == Some(&0) && reference_len_unpadded_is_odd(contours, instr.len()) {
                        l.padded += 1;
                    }
                }
            }
            (GSpec::Composite { comps, bbox }, Some(rg::Glyph::Composite(g))) => {
                if let Some(what) = compare_composite(&g, comps, bbox) {
                    run.violation(
                        &format!("composite glyph decodes differently ({fmtname} loca): {}", what.0),
                        &format!("glyph {i}: {}", what.1),
                        case(),
                    );
                    return;
                }
                let bytes = &glyf_b[offs[i]..offs[i + 1]];
                // independent oracle: the bytes must be the from-spec canonical encoding
                if let Some(what) = audit::raw_composite_mismatch(bytes, comps, bbox, None) {
                    run.violation(
                        &format!("composite glyph bytes differ from the from-spec encoding: {}", what.0),
                        &format!("glyph {i}: {}", what.1),
                        case(),
                    );
                    return;
                }
                match CompositeGlyph::read(FontData::new(bytes)) {
                    Ok(owned) => {
                        if Glyph::Composite(owned) != to_write_glyph(spec) {
                            run.violation(
                                "CompositeGlyph owned re-read differs from the glyph written",
                                &format!("glyph {i}"),
                                case(),
                            );
                        }
                    }
                    Err(e) => run.violation(
                        "CompositeGlyph owned re-read fails",
                        &format!("glyph {i}: {e}"),
                        case(),
                    ),
                }
                // (not in the 2 M-case family B: B2 hands the same code every component shape)
                if family != "B" {
                    match Glyph::read(FontData::new(bytes)) {
                        Ok(owned) if owned == to_write_glyph(spec) => {}
                        _ => run.violation("Glyph owned re-read (composite) differs from the glyph written", &format!("glyph {i}"), case()),
                    }
                }
                h.str("C");
                h.bytes(&bytes[10..]);
            }
            (spec, got) => {
                let kind = match got {
                    None => "no glyph",
                    Some(rg::Glyph::Simple(_)) => "a simple glyph",
                    Some(rg::Glyph::Composite(_)) => "a composite glyph",
                };
                let want = match spec {
                    GSpec::Empty => "empty",
                    GSpec::Simple { contours, .. } if contours.is_empty() => "contour-less simple",
                    GSpec::Simple { .. } => "simple",
                    GSpec::Composite { .. } => "composite",
                };
                run.violation(
                    &format!("{want} glyph reads back as {kind} ({fmtname} loca)"),
                    &format!("glyph {i}"),
                    case(),
                );
                return;
            }
        }
    }
    let d = h.finish();
    l.all.insert(d);
    if all[..n_real].iter().any(|g| !matches!(g, GSpec::Empty)) {
        l.nontrivial.insert(d);
    }
}

fn reference_len_unpadded_is_odd(contours: &[Vec<Pt>], instr_len: usize) -> bool {
    // the reference rounds up to even; recompute without rounding by probing parity through a
    // one-byte longer instruction stream: if adding one instruction byte does not change the padded
    // length, the unpadded length was odd.
    reference_len(contours, instr_len) == reference_len(contours, instr_len + 1)
}

fn compare_simple(g: &rg::SimpleGlyph, contours: &[Vec<Pt>], instr: &[u8]) -> Option<(String, String)> {
    if g.number_of_contours() as usize != contours.len() {
        return Some((
            "contour count".into(),
            format!("{} vs {}", g.number_of_contours(), contours.len()),
        ));
    }
    let mut ends = vec![];
    let mut n = 0usize;
    for c in contours {
        n += c.len();
        ends.push((n - 1) as u16);
    }
    let got_ends: Vec<u16> = g.end_pts_of_contours().iter().map(|e| e.get()).collect();
    if got_ends != ends {
        return Some(("contour end points".into(), format!("{got_ends:?} vs {ends:?}")));
    }
    if g.instructions() != instr {
        return Some((
            "instructions".into(),
            format!("{} bytes vs {} bytes written", g.instructions().len(), instr.len()),
        ));
    }
    let bb = bbox_of(contours);
    if (g.x_min(), g.y_min(), g.x_max(), g.y_max()) != (bb.x_min, bb.y_min, bb.x_max, bb.y_max) {
        return Some((
            "bounding box".into(),
            format!("{:?} vs {:?}", (g.x_min(), g.y_min(), g.x_max(), g.y_max()), bb),
        ));
    }
    let flat: Vec<Pt> = contours.iter().flatten().copied().collect();
    if g.num_points() != flat.len() {
        return Some(("point count".into(), format!("{} vs {}", g.num_points(), flat.len())));
    }
    // reader 1: the point iterator
    let mut count = 0;
    for (i, p) in g.points().enumerate() {
        count += 1;
        match flat.get(i) {
            Some(e) if (p.x, p.y, p.on_curve) == *e => {}
            e => {
                let field = match e {
                    Some(e) if (p.x, p.y) == (e.0, e.1) => "on-curve flag",
                    Some(_) => "coordinates",
                    None => "extra point",
                };
                return Some((
                    format!("points() {field}"),
                    format!("point {i}: got {:?}, written {:?}", (p.x, p.y, p.on_curve), e),
                ));
            }
        }
    }
    if count != flat.len() {
        return Some(("points() count".into(), format!("{count} vs {}", flat.len())));
    }
    // reader 2: read_points_fast (what the scaler uses)
    let mut pts = vec![Point::<i32>::default(); flat.len()];
    let mut flags = vec![rg::PointFlags::default(); flat.len()];
    if let Err(e) = g.read_points_fast(&mut pts, &mut flags) {
        return Some(("read_points_fast fails".into(), format!("{e}")));
    }
    for i in 0..flat.len() {
        let got = (pts[i].x, pts[i].y, flags[i].is_on_curve());
        let e = (flat[i].0 as i32, flat[i].1 as i32, flat[i].2);
        if got != e {
            let field = if (got.0, got.1) == (e.0, e.1) { "on-curve flag" } else { "coordinates" };
            return Some((
                format!("read_points_fast {field}"),
                format!("point {i}: got {got:?}, written {e:?}"),
            ));
        }
    }
    None
}

fn compare_composite(g: &rg::CompositeGlyph, comps: &[CompSpec], bbox: &[i16; 4]) -> Option<(String, String)> {
    compare_composite_instr(g, comps, bbox, None)
}

/// `instr`: the composite's instruction bytes (None: the last component must not carry WE_HAVE_INSTRUCTIONS)
fn compare_composite_instr(
    g: &rg::CompositeGlyph,
    comps: &[CompSpec],
    bbox: &[i16; 4],
    want_instr: Option<&[u8]>,
) -> Option<(String, String)> {
    if [g.x_min(), g.y_min(), g.x_max(), g.y_max()] != *bbox {
        return Some(("bounding box".into(), format!("{:?} vs {:?}", [g.x_min(), g.y_min(), g.x_max(), g.y_max()], bbox)));
    }
    let got: Vec<rg::Component> = g.components().take(comps.len() + 4).collect();
    if got.len() != comps.len() {
        return Some(("component count".into(), format!("{} vs {}", got.len(), comps.len())));
    }
    let (n, instr) = g.count_and_instructions();
    if n != comps.len() || instr != want_instr {
        return Some(("count_and_instructions".into(), format!("{n} / {:?}", instr.map(|i| i.len()))));
    }
    if g.instructions() != want_instr {
        return Some(("instructions()".into(), format!("{:?} bytes", g.instructions().map(|i| i.len()))));
    }
    let ids: Vec<u16> = g.component_glyphs_and_flags().map(|(g, _)| g.to_u16()).collect();
    if ids != comps.iter().map(|c| c.gid).collect::<Vec<_>>() {
        return Some(("component_glyphs_and_flags ids".into(), format!("{ids:?}")));
    }
    for (i, (r, c)) in got.iter().zip(comps.iter()).enumerate() {
        if r.glyph.to_u16() != c.gid {
            return Some(("component glyph id".into(), format!("component {i}: {} vs {}", r.glyph.to_u16(), c.gid)));
        }
        if r.anchor != comp_anchor(c.anchor) {
            return Some((
                format!("component anchor ({})", if c.anchor.0 { "offset" } else { "point" }),
                format!("component {i}: {:?} vs {:?}", r.anchor, comp_anchor(c.anchor)),
            ));
        }
        if r.transform != comp_xf(c.xf) {
            return Some(("component transform".into(), format!("component {i}: {:?} vs {:?}", r.transform, comp_xf(c.xf))));
        }
        if ComponentFlags::from(r.flags) != comp_flags(c.flags) {
            return Some(("component flags".into(), format!("component {i}: {:?} vs {:?}", r.flags, comp_flags(c.flags))));
        }
    }
    None
}

// ---------------------------------------------------------------------------
// A: simple glyph point-sequence family
// ---------------------------------------------------------------------------

const D9: [i32; 9] = [0, 1, -1, 255, -255, 256, -256, 32767, -32768];
const D7: [i32; 5] = [0, 255, -255, 256, -256];

/// all compositions of n (contour splits), fixed order
fn compositions(n: usize) -> Vec<Vec<usize>> {
    if n == 0 {
        return vec![vec![]];
    }
    let mut out = vec![];
    for first in (1..=n).rev() {
        for mut rest in compositions(n - first) {
            let mut v = vec![first];
            v.append(&mut rest);
            out.push(v);
        }
    }
    out
}

/// Lean checker for the largest simple-glyph family: one glyph, short loca; everything the full
/// checker demands except the per-glyph `dump_table` (length is taken from the location table) and the
/// owned re-read. Returns false when anything is off — the caller then runs the full checker on the same
/// case, which reports with the usual identities.
fn check_simple_fast(contours: &[Vec<Pt>], l: &mut Local) -> bool {
    let glyph = SimpleGlyph {
        bbox: bbox_of(contours),
        contours: contours
            .iter()
            .map(|c| Contour::from(c.iter().map(|p| CurvePoint::new(p.0, p.1, p.2)).collect::<Vec<_>>()))
            .collect(),
        instructions: vec![],
    };
    l.trans += 3;
    let r = guard(|| {
        let mut b = GlyfLocaBuilder::new();
        b.add_glyph(&glyph).ok()?;
        let (glyf, loca, fmt) = b.build();
        let gb = dump_table(&glyf).ok()?;
        let lb = dump_table(&loca).ok()?;
        if fmt != LocaFormat::Short || gb.len() > reference_len(contours, 0) {
            return None;
        }
        let rloca = rl::Loca::read(FontData::new(&lb), false).ok()?;
        let rglyf = rg::Glyf::read(FontData::new(&gb)).ok()?;
        if rloca.len() != 1 || rloca.get_raw(0) != Some(0) || rloca.get_raw(1) != Some(gb.len() as u32) {
            return None;
        }
        match rloca.get_glyf(GlyphId::new(0), &rglyf).ok()? {
            Some(rg::Glyph::Simple(g)) => {
                if compare_simple(&g, contours, &[]).is_some() {
                    return None;
                }
            }
            _ => return None,
        }
        let mut h = Fnv::new();
        h.str("A");
        h.u64(0);
        h.str("S");
        h.bytes(&gb[10..]);
        Some(h.finish())
    });
    match r {
        Ok(Some(d)) => {
            l.all.insert(d);
            l.nontrivial.insert(d);
            true
        }
        _ => false,
    }
}

fn simple_family(run: &Run) {
    let n_max = run.tier.pick(3usize, 4usize);
    let quick = run.tier == Tier::Quick;
    run.bound("A.deltas_D", json!(D9));
    run.bound("A.deltas_D4_for_4_points", json!(D7));
    run.bound("A.max_points", json!(n_max));
    run.bound("A.instruction_lengths", json!("{0,1,2,3} for <=2 points, {0,1} for 3 points (quick: {0}), {0} for 4 points"));
    run.bound("A.contour_splits", json!("all compositions of the point count"));
    // per-point alphabet: (dx, dy, on)
    let alpha = |d: &[i32]| -> Vec<(i32, i32, bool)> {
        let mut v = vec![];
        for &dx in d {
            for &dy in d {
                for on in [true, false] {
                    v.push((dx, dy, on));
                }
            }
        }
        v
    };
    let a9 = alpha(&D9);
    let a7 = alpha(&D7);
    for n in 1..=n_max {
        let a = if n <= 3 { &a9 } else { &a7 };
        let instr_lens: &[usize] = match n {
            1 | 2 => &[0, 1, 2, 3],
            3 => &[0, 1],
            _ => &[0],
        };
        let splits = compositions(n);
        // tasks: first two point choices (or one) for grain
        let grain = if n >= 2 { a.len() * a.len() } else { a.len() };
        let locals: Vec<Local> = (0..grain)
            .into_par_iter()
            .map(|t| {
                let mut l = Local::new();
                let fixed = if n >= 2 { vec![t / a.len(), t % a.len()] } else { vec![t] };
                let free = n - fixed.len();
                let mut digits = vec![0usize; free];
                'outer: loop {
                    // materialise points; skip if a coordinate leaves i16
                    let mut pts: Vec<Pt> = Vec::with_capacity(n);
                    let (mut x, mut y) = (0i32, 0i32);
                    let mut ok = true;
                    for i in 0..n {
                        let c = if i < fixed.len() { a[fixed[i]] } else { a[digits[i - fixed.len()]] };
                        x += c.0;
                        y += c.1;
                        if !(-32768..=32767).contains(&x) || !(-32768..=32767).contains(&y) {
                            ok = false;
                            break;
                        }
                        pts.push((x as i16, y as i16, c.2));
                    }
                    if ok {
                        for split in &splits {
                            let mut contours = vec![];
                            let mut at = 0;
                            for s in split {
                                contours.push(pts[at..at + s].to_vec());
                                at += s;
                            }
                            for &il in instr_lens {
                                // quick tier, 3 points: the second instruction length only for the
                                // single-contour split (keeps the tier under a minute on a busy machine)
                                // (audit: with the added families the second length moved to the
                                // thorough tier altogether; lengths {0..3} stay in quick for <= 2 points)
                                if quick && n == 3 && il != 0 {
                                    continue;
                                }
                                let spec = GSpec::Simple {
                                    contours: contours.clone(),
                                    instr: (0..il).map(|i| 0xB0 + i as u8).collect(),
                                };
                                l.evals += 1;
                                let seq = [spec];
                                let case = || seq_json("A", &seq, 0);
                                check_sequence(run, "A", &seq, 0, &mut l, &case);
                                if n == 1 {
                                    // the same glyph under the long location format
                                    l.evals += 1;
                                    let case = || seq_json("A", &seq, 2);
                                    check_sequence(run, "A", &seq, 2, &mut l, &case);
                                }
                            }
                        }
                    }
                    // next digits
                    let mut i = free;
                    loop {
                        if i == 0 {
                            break 'outer;
                        }
                        i -= 1;
                        digits[i] += 1;
                        if digits[i] < a.len() {
                            break;
                        }
                        digits[i] = 0;
                    }
                }
                l
            })
            .collect();
        for l in locals {
            l.merge(run, &format!("A.n{n}"));
        }
    }
    if run.tier == Tier::Thorough {
        // 4 points over the full 9-value alphabet, as one contour and as two contours of two points
        run.bound("A.n4_full_alphabet_splits", json!([[4], [2, 2]]));
        let a = &a9;
        let locals: Vec<Local> = (0..a.len() * a.len())
            .into_par_iter()
            .map(|t| {
                let mut l = Local::new();
                let first = [a[t / a.len()], a[t % a.len()]];
                for c2 in a.iter() {
                    for c3 in a.iter() {
                        let mut pts: Vec<Pt> = Vec::with_capacity(4);
                        let (mut x, mut y) = (0i32, 0i32);
                        let mut ok = true;
                        for c in [first[0], first[1], *c2, *c3] {
                            x += c.0;
                            y += c.1;
                            if !(-32768..=32767).contains(&x) || !(-32768..=32767).contains(&y) {
                                ok = false;
                                break;
                            }
                            pts.push((x as i16, y as i16, c.2));
                        }
                        if !ok {
                            continue;
                        }
                        for contours in [vec![pts.clone()], vec![pts[..2].to_vec(), pts[2..].to_vec()]] {
                            l.evals += 1;
                            if !check_simple_fast(&contours, &mut l) {
                                let seq = [GSpec::Simple { contours, instr: vec![] }];
                                let case = || seq_json("A", &seq, 0);
                                check_sequence(run, "A", &seq, 0, &mut l, &case);
                            }
                        }
                    }
                }
                l
            })
            .collect();
        for l in locals {
            l.merge(run, "A.n4_full");
        }
    }
    run.sample(seq_json(
        "A",
        &[GSpec::Simple { contours: vec![vec![(1, 0, true)], vec![(256, -255, false)]], instr: vec![0xB0] }],
        0,
    ));
}

// ---------------------------------------------------------------------------
// A2: flag-run families
// ---------------------------------------------------------------------------

fn class_delta(class: u8, i: usize) -> i32 {
    match class {
        0 => 0,
        1 => 1,
        2 => -1,
        _ => {
            if i % 2 == 0 {
                300
            } else {
                -300
            }
        }
    }
}

fn run_family(run: &Run) {
    let r_max = run.tier.pick(520usize, 1030usize);
    run.bound("A2.run_lengths", json!(format!("1..={r_max}")));
    run.bound("A2.flag_classes", json!("on/off × x{same,+short,-short,long} × y{same,+short,-short,long} = 32"));
    run.bound("A2.prefix_suffix", json!("0, 1 or 2 points of another class before and after"));
    let locals: Vec<Local> = (1..=r_max)
        .into_par_iter()
        .map(|r| {
            let mut l = Local::new();
            for class in 0..32u8 {
                let (on, cx, cy) = (class & 1 != 0, (class >> 1) & 3, (class >> 3) & 3);
                // the "other" class differs in the on-curve bit and x class
                let (o_on, o_cx, o_cy) = (!on, (cx + 1) & 3, cy);
                for pre in 0..3usize {
                    for suf in 0..3usize {
                        let mut pts: Vec<Pt> = vec![];
                        let (mut x, mut y) = (0i32, 0i32);
                        let mut k = 0usize;
                        let mut push = |on: bool, cx: u8, cy: u8, pts: &mut Vec<Pt>| {
                            x += class_delta(cx, k);
                            y += class_delta(cy, k);
                            k += 1;
                            pts.push((x as i16, y as i16, on));
                        };
                        for _ in 0..pre {
                            push(o_on, o_cx, o_cy, &mut pts);
                        }
                        for _ in 0..r {
                            push(on, cx, cy, &mut pts);
                        }
                        for _ in 0..suf {
                            push(o_on, o_cx, o_cy, &mut pts);
                        }
                        let spec = GSpec::Simple { contours: vec![pts], instr: vec![] };
                        l.evals += 1;
                        let seq = [spec];
                        let case = || json!({"kind":"run","r":r,"class":class,"pre":pre,"suf":suf,"glyph":gspec_json(&seq[0])});
                        check_sequence(run, "A2", &seq, 0, &mut l, &case);
                    }
                }
            }
            l
        })
        .collect();
    for l in locals {
        l.merge(run, "A2");
    }
}

// ---------------------------------------------------------------------------
// B: composites
// ---------------------------------------------------------------------------

fn composite_alphabet() -> Vec<CompSpec> {
    let gids = [1u16, 0xFFFE];
    let anchors: [(bool, i32, i32); 9] = [
        (true, 0, 0),
        (true, 127, -128),
        (true, 128, 0),
        (true, 0, -129),
        (true, 32767, -32768),
        (false, 0, 0),
        (false, 255, 255),
        (false, 256, 0),
        (false, 7, 65535),
    ];
    let one = 0x4000i16;
    let xfs: [[i16; 4]; 8] = [
        [one, 0, 0, one],                 // identity: no transform words
        [0x2000, 0, 0, 0x2000],           // scale 0.5
        [i16::MIN, 0, 0, i16::MIN],       // scale -2.0
        [0x2000, 0, 0, one],              // x/y scale
        [one, 0, 0, 0x7FFF],              // x/y scale, max
        [one, 0x1000, 0, one],            // 2x2 (only yx set)
        [one, 0, -0x2000, one],           // 2x2 (only xy set)
        [0, 0x4000, -0x4000, 0],          // 2x2 rotation
    ];
    let mut out = vec![];
    for gid in gids {
        for a in anchors {
            for xf in xfs {
                for flags in 0..32u8 {
                    out.push(CompSpec { gid, anchor: a, xf, flags });
                }
            }
        }
    }
    out
}

fn composite_family(run: &Run) {
    let alpha = composite_alphabet();
    run.bound("B.component_alphabet", json!(alpha.len()));
    run.bound("B.anchors", json!("offset (0,0) (127,-128) (128,0) (0,-129) (32767,-32768); point (0,0) (255,255) (256,0) (7,65535)"));
    run.bound("B.transforms", json!("identity, scale 0.5, scale -2, xy (0.5,1), xy (1,max), 2x2 yx, 2x2 xy, rotation"));
    // second component alphabet: flags reduced to {0, 2 (USE_MY_METRICS), 31}
    let second: Vec<&CompSpec> = alpha
        .iter()
        .filter(|c| run.tier == Tier::Thorough || matches!(c.flags, 0 | 2 | 31))
        .collect();
    run.bound("B.second_component_alphabet", json!(second.len()));
    run.bound("B.max_components", json!(2));
    let bbox = [-5i16, -32768, 32767, 9];
    let locals: Vec<Local> = alpha
        .par_iter()
        .map(|c0| {
            let mut l = Local::new();
            let seq = [GSpec::Composite { comps: vec![c0.clone()], bbox }];
            l.evals += 1;
            let case = || seq_json("B", &seq, 0);
            check_sequence(run, "B", &seq, 0, &mut l, &case);
            for c1 in &second {
                let seq = [GSpec::Composite { comps: vec![c0.clone(), (*c1).clone()], bbox }];
                l.evals += 1;
                let case = || seq_json("B", &seq, 0);
                check_sequence(run, "B", &seq, 0, &mut l, &case);
            }
            l
        })
        .collect();
    for l in locals {
        l.merge(run, "B");
    }
    run.sample(seq_json("B", &[GSpec::Composite { comps: vec![alpha[37].clone()], bbox }], 0));
}

// ---------------------------------------------------------------------------
// C: builder sequences and the short/long boundary
// ---------------------------------------------------------------------------

/// OVERLAP_SIMPLE (bit 6 of the first flag) set by hand on built glyphs: the readers must decode the same
/// points and report the bit; the write type has no field for it (recorded as a side observation).
fn overlap_family(run: &Run) {
    let mut l = Local::new();
    let mut specs: Vec<(Vec<Vec<Pt>>, Vec<u8>)> = vec![];
    for r in [1usize, 2, 3, 255, 256, 257, 300] {
        specs.push((vec![(0..r).map(|i| (i as i16 + 1, 0, true)).collect()], vec![]));
        specs.push((vec![(0..r).map(|i| (i as i16 * 3, (i % 2) as i16 * 300, i % 3 == 0)).collect()], vec![7, 7, 7]));
    }
    let mut preserved = 0;
    let mut dropped = 0;
    for (contours, instr) in &specs {
        l.evals += 1;
        let spec = GSpec::Simple { contours: contours.clone(), instr: instr.clone() };
        let case = || json!({"kind":"overlap","glyph":gspec_json(&spec)});
        let Ok(mut bytes) = dump_table(&to_write_glyph(&spec)) else { continue };
        let first_flag = 10 + 2 * contours.len() + 2 + instr.len();
        let Some(flag) = bytes.get_mut(first_flag) else {
            run.violation("simple glyph encoding is shorter than its own header", "", case());
            continue;
        };
        *flag |= 0x40;
        let r = guard(|| {
            let g = rg::SimpleGlyph::read(FontData::new(&bytes)).ok()?;
            Some((compare_simple(&g, contours, instr), g.has_overlapping_contours()))
        });
        match r {
            Ok(Some((None, true))) => {}
            Ok(Some((Some(w), _))) => run.violation(
                &format!("simple glyph with OVERLAP_SIMPLE decodes differently: {}", w.0),
                &w.1,
                case(),
            ),
            Ok(Some((None, false))) => run.violation("has_overlapping_contours misses OVERLAP_SIMPLE on the first flag", "", case()),
            Ok(None) => run.violation("simple glyph with OVERLAP_SIMPLE does not parse", "", case()),
            Err(p) => run.violation(&format!("glyf reader panic: {} in {}", p.kind(), p.site()), &p.message, case()),
        }
        // does read -> owned -> write keep the bit?
        if let Ok(owned) = SimpleGlyph::read(FontData::new(&bytes)) {
            if let Ok(again) = dump_table(&owned) {
                if again.get(first_flag).map(|f| f & 0x40 != 0).unwrap_or(false) {
                    preserved += 1;
                } else {
                    dropped += 1;
                }
            }
        }
        let mut h = Fnv::new();
        h.str("overlap");
        h.bytes(&bytes[10..]);
        l.all.insert(h.finish());
        l.nontrivial.insert(h.finish());
    }
    run.extra("side_observation.OVERLAP_SIMPLE_through_read_own_write", json!({"preserved": preserved, "dropped": dropped}));
    l.merge(run, "O");
}

fn sequence_family(run: &Run) {
    let letters: Vec<GSpec> = vec![
        GSpec::Empty,
        GSpec::Simple { contours: vec![], instr: vec![] },
        // even: 10 + 2 + 2 + flags(2: two different) + x(1+1) + y(0) = 18
        GSpec::Simple { contours: vec![vec![(5, 0, true), (10, 0, false)]], instr: vec![] },
        // odd: 10 + 2 + 2 + 1 instr + flags 2 + x 2 = 19 -> padded to 20
        GSpec::Simple { contours: vec![vec![(5, 0, true), (10, 0, false)]], instr: vec![0x4B] },
        GSpec::Composite {
            comps: vec![CompSpec { gid: 2, anchor: (true, 1, 1), xf: [0x4000, 0, 0, 0x4000], flags: 2 }],
            bbox: [0, 0, 10, 10],
        },
    ];
    let depth = run.tier.pick(3usize, 4usize);
    run.bound("C.letters", json!(["Empty", "contour-less simple", "simple (even)", "simple (odd, padded)", "composite"]));
    run.bound("C.max_sequence_length", json!(depth));
    let mut seqs: Vec<Vec<usize>> = vec![vec![]];
    let mut frontier: Vec<Vec<usize>> = vec![vec![]];
    for _ in 0..depth {
        let mut next = vec![];
        for s in &frontier {
            for i in 0..letters.len() {
                let mut t = s.clone();
                t.push(i);
                next.push(t);
            }
        }
        seqs.extend(next.iter().cloned());
        frontier = next;
    }
    run.count("C.sequences", seqs.len() as u64);
    let locals: Vec<Local> = seqs
        .par_iter()
        .map(|s| {
            let mut l = Local::new();
            let seq: Vec<GSpec> = s.iter().map(|i| letters[*i].clone()).collect();
            for fillers in [0usize, 2] {
                l.evals += 1;
                let case = || seq_json("C", &seq, fillers);
                check_sequence(run, "C", &seq, fillers, &mut l, &case);
            }
            l
        })
        .collect();
    for l in locals {
        l.merge(run, "C");
    }
    // sized families: final offset T on every even value around 0x20000
    let totals: Vec<usize> = (0x1FFF8..=0x20006).step_by(2).collect();
    run.bound("C.sized_final_offsets", json!(totals.iter().map(|t| format!("{t:#x}")).collect::<Vec<_>>()));
    let firsts = [0xFFFEusize, 0x10000, 65548, 0x8000];
    let mut layouts: Vec<(usize, usize, u8)> = vec![];
    for &t in &totals {
        for &a in &firsts {
            for layout in 0..7u8 {
                layouts.push((t, a, layout));
            }
        }
    }
    run.count("C.sized_layouts", layouts.len() as u64);
    let locals: Vec<Local> = layouts
        .par_iter()
        .map(|&(t, a, layout)| {
            let mut l = Local::new();
            let seq = sized_seq(t, a, layout);
            l.evals += 1;
            let desc = json!({"kind":"sized","total":t,"first":a,"layout":layout});
            let case = || desc.clone();
            if let Some(b) = check_sequence(run, "C.sized", &seq, 0, &mut l, &case) {
                let total: usize = b.lens.iter().sum();
                if total != t && run.violations() == 0 {
                    // the size formula of sized_glyph no longer holds and nothing else explained it
                    run.machinery_error(&format!("sized family: built {total:#x}, wanted {t:#x}"));
                }
                let mut h = Fnv::new();
                h.str("sized");
                h.u64(t as u64);
                h.u64(b.long as u64);
                l.all.insert(h.finish());
                l.nontrivial.insert(h.finish());
            }
            l
        })
        .collect();
    for l in locals {
        l.merge(run, "C.sized");
    }
    // glyph counts around and beyond 65535
    let counts = [65535usize, 65536, 65537, 70001];
    run.bound("C.many_glyph_counts", json!(counts));
    let mut tasks = vec![];
    for c in counts {
        for dense in [false, true] {
            tasks.push((c, dense));
        }
    }
    let locals: Vec<Local> = tasks
        .par_iter()
        .map(|&(c, dense)| {
            let mut l = Local::new();
            let seq = many_seq(c, dense);
            l.evals += 1;
            let desc = json!({"kind":"many","count":c,"dense":dense});
            let case = || desc.clone();
            check_sequence(run, "C.many", &seq, 0, &mut l, &case);
            l
        })
        .collect();
    for l in locals {
        l.merge(run, "C.many");
    }
}

fn sized_from_desc(d: &Value) -> Vec<GSpec> {
    sized_seq(
        d["total"].as_u64().unwrap() as usize,
        d["first"].as_u64().unwrap() as usize,
        d["layout"].as_u64().unwrap() as u8,
    )
}

/// glyph sequence whose encodings add up to exactly `t` bytes; first big glyph of `a` bytes.
/// layouts: 0 plain; 1 tiny glyph after the first; 2 Empty at the end; 3 Empty at the start; 4 tiny at
/// the end; 5 Empty after the first big glyph; 6 Empty + contour-less simple glyphs at the start, between
/// every two big glyphs and at the end (equal consecutive offsets on both sides of the boundary).
fn sized_seq(t: usize, a: usize, layout: u8) -> Vec<GSpec> {
    let tiny = GSpec::Simple { contours: vec![vec![(5, 0, true), (10, 0, false)]], instr: vec![0x4B] };
    let mut seq: Vec<GSpec> = vec![];
    let tiny_len = if layout == 1 || layout == 4 { 20 } else { 0 };
    let mut rest = t - a - tiny_len;
    seq.push(sized_glyph(a, 1));
    if layout == 1 {
        seq.push(tiny.clone());
    }
    if layout == 5 {
        seq.push(GSpec::Empty);
    }
    let mut salt = 2;
    while rest > 0 {
        // never leave a remainder below the minimum glyph size (16)
        let mut take = rest.min(65548);
        if rest - take != 0 && rest - take < 16 {
            take -= 16;
        }
        if layout == 6 {
            seq.push(GSpec::Empty);
            seq.push(GSpec::Simple { contours: vec![], instr: vec![] });
        }
        seq.push(sized_glyph(take, salt));
        salt += 1;
        rest -= take;
    }
    match layout {
        2 => seq.push(GSpec::Empty),
        3 => seq.insert(0, GSpec::Empty),
        4 => seq.push(tiny),
        6 => {
            seq.insert(0, GSpec::Empty);
            seq.push(GSpec::Empty);
            seq.push(GSpec::Empty);
        }
        _ => {}
    }
    seq
}

/// more glyphs than a 16-bit glyph count can name: the builder has no limit of its own, so the tables
/// must either be refused or be correct for every index. `dense`: most glyphs non-empty (long loca).
fn many_seq(count: usize, dense: bool) -> Vec<GSpec> {
    let even = GSpec::Simple { contours: vec![vec![(5, 0, true), (10, 0, false)]], instr: vec![] };
    let odd = GSpec::Simple { contours: vec![vec![(5, 0, true), (10, 0, false)]], instr: vec![0x4B] };
    (0..count)
        .map(|i| {
            let k = if dense { i % 3 } else { i % 64 };
            match k {
                1 => even.clone(),
                2 => odd.clone(),
                _ => GSpec::Empty,
            }
        })
        .collect()
}

// ---------------------------------------------------------------------------
// H: builder histories with rejected glyphs
// ---------------------------------------------------------------------------

/// letters of a history: 0 simple (odd length, padded), 1 Empty, 2 composite, 3 REJECTED (a simple glyph
/// with 65536 instruction bytes, which validation refuses)
fn history_letter(k: u8) -> GSpec {
    match k {
        0 => GSpec::Simple { contours: vec![vec![(5, 0, true), (10, 0, false)]], instr: vec![0x4B] },
        1 => GSpec::Empty,
        2 => GSpec::Composite {
            comps: vec![CompSpec { gid: 2, anchor: (true, 1, 1), xf: [0x4000, 0, 0, 0x4000], flags: 2 }],
            bbox: [0, 0, 10, 10],
        },
        _ => GSpec::Simple { contours: vec![vec![(1, 1, true)]], instr: vec![0x11; 65536] },
    }
}

/// One builder, one add_glyph call per letter (the caller handles every Err and carries on), then
/// build: the tables must hold exactly the accepted glyphs, in order.
fn check_history(run: &Run, letters: &[u8], fillers: usize, l: &mut Local) {
    l.evals += 1;
    let case = || json!({"kind":"history","letters":letters,"fillers":fillers});
    let mut specs: Vec<GSpec> = letters.iter().map(|k| history_letter(*k)).collect();
    for i in 0..fillers {
        specs.push(sized_glyph(65548, i as u8));
    }
    let mut accepted: Vec<GSpec> = vec![];
    let mut lens: Vec<usize> = vec![];
    let r = guard(|| {
        let mut b = GlyfLocaBuilder::new();
        let mut verdicts = vec![];
        for g in specs.iter().map(to_write_glyph) {
            verdicts.push(b.add_glyph(&g).is_ok());
        }
        let (glyf, loca, fmt) = b.build();
        let gb = dump_table(&glyf).map_err(|e| format!("{e}"))?;
        let lb = dump_table(&loca).map_err(|e| format!("{e}"))?;
        Ok::<_, String>((verdicts, gb, lb, fmt))
    });
    l.trans += specs.len() as u64 + 3;
    let (verdicts, glyf_b, loca_b, fmt) = match r {
        Ok(Ok(x)) => x,
        Ok(Err(e)) => {
            run.violation("H: tables of a builder history fail to compile", &e, case());
            return;
        }
        Err(p) => {
            run.violation(
                &format!("H: GlyfLocaBuilder panic in a history with a rejected glyph: {} in {}", p.kind(), p.site()),
                &format!("{} ({}:{})", p.message, p.file, p.line),
                case(),
            );
            return;
        }
    };
    for (i, (spec, ok)) in specs.iter().zip(verdicts.iter()).enumerate() {
        let oversized = matches!(spec, GSpec::Simple { instr, .. } if instr.len() > 65535);
        if *ok == oversized {
            run.violation(
                if oversized {
                    "GlyfLocaBuilder::add_glyph accepts a glyph with more than 65535 instruction bytes"
                } else {
                    "GlyfLocaBuilder::add_glyph rejects a well-formed glyph after / before a rejected one"
                },
                &format!("call {i}"),
                case(),
            );
            return;
        }
        if *ok {
            match guard(|| dump_table(&to_write_glyph(spec))) {
                Ok(Ok(bytes)) => lens.push(bytes.len()),
                _ => return,
            }
            accepted.push(spec.clone());
        }
    }
    let mut offs = vec![0usize];
    for n in &lens {
        offs.push(offs.last().unwrap() + n);
    }
    let expect_long = *offs.last().unwrap() >= 0x20000;
    let long = fmt == LocaFormat::Long;
    if long != expect_long {
        run.violation(
            "LocaFormat of a builder history with a rejected glyph is wrong",
            &format!("long = {long}, final offset {:#x}", offs.last().unwrap()),
            case(),
        );
        return;
    }
    if long {
        l.long_format += 1;
    }
    let n_real = accepted.len().saturating_sub(fillers);
    let r = guard(|| decode_and_compare(run, "H", &accepted, n_real, &glyf_b, &loca_b, long, &offs, l, &case));
    if let Err(p) = r {
        run.violation(
            &format!("H: glyf/loca reader panic: {} in {}", p.kind(), p.site()),
            &format!("{} ({}:{})", p.message, p.file, p.line),
            case(),
        );
    }
}

fn history_family(run: &Run) {
    let depth = 4usize;
    run.bound("H.letters", json!(["simple", "Empty", "composite", "REJECTED (65536 instruction bytes)"]));
    run.bound("H.max_calls", json!(depth));
    let mut seqs: Vec<Vec<u8>> = vec![];
    let mut frontier: Vec<Vec<u8>> = vec![vec![]];
    for _ in 0..depth {
        let mut next = vec![];
        for s in &frontier {
            for k in 0..4u8 {
                let mut t = s.clone();
                t.push(k);
                next.push(t);
            }
        }
        seqs.extend(next.iter().cloned());
        frontier = next;
    }
    run.count("H.histories", seqs.len() as u64);
    run.count("H.histories_with_a_rejected_glyph", seqs.iter().filter(|s| s.contains(&3)).count() as u64);
    let locals: Vec<Local> = seqs
        .par_iter()
        .map(|s| {
            let mut l = Local::new();
            for fillers in [0usize, 2] {
                check_history(run, s, fillers, &mut l);
            }
            l
        })
        .collect();
    for l in locals {
        l.merge(run, "H");
    }
    // boundary probe: 65535 instruction bytes fit the 16-bit length field; whatever the builder does with
    // them must not be a panic
    for n in [65534usize, 65535] {
        let spec = GSpec::Simple { contours: vec![vec![(1, 1, true)]], instr: vec![0x11; n] };
        let r = guard(|| {
            let mut b = GlyfLocaBuilder::new();
            b.add_glyph(&to_write_glyph(&spec)).is_ok()
        });
        match r {
            Ok(accepted) => run.count(&format!("H.instructions_{n}_accepted"), accepted as u64),
            Err(p) => run.violation(
                &format!("SimpleGlyph with {n} instruction bytes passes validation but panics when written"),
                &format!("{} ({}:{})", p.message, p.file, p.line),
                json!({"kind":"history_probe","instructions":n}),
            ),
        }
    }
}

// ---------------------------------------------------------------------------
// D: paths drawn back
// ---------------------------------------------------------------------------

#[derive(Clone, Copy, Debug, PartialEq)]
enum El {
    M(f64, f64),
    L(f64, f64),
    Q(f64, f64, f64, f64),
    C,
    Z,
}

fn els_json(els: &[El]) -> Value {
    json!(els
        .iter()
        .map(|e| match e {
            El::M(x, y) => json!(["M", x, y]),
            El::L(x, y) => json!(["L", x, y]),
            El::Q(a, b, x, y) => json!(["Q", a, b, x, y]),
            El::C => json!(["C"]),
            El::Z => json!(["Z"]),
        })
        .collect::<Vec<_>>())
}

fn els_from_json(v: &Value) -> Vec<El> {
    v.as_array()
        .unwrap()
        .iter()
        .map(|e| {
            let f = |i: usize| e[i].as_f64().unwrap();
            match e[0].as_str().unwrap() {
                "M" => El::M(f(1), f(2)),
                "L" => El::L(f(1), f(2)),
                "Q" => El::Q(f(1), f(2), f(3), f(4)),
                "Z" => El::Z,
                _ => El::C,
            }
        })
        .collect()
}

#[derive(Clone, Copy, Debug)]
enum Seg {
    L([f64; 4]),
    Q([f64; 6]),
}

/// contours as cyclic segment lists (closing line added when the contour does not end at its start,
/// zero-length lines dropped)
fn contours_of(els: &[El]) -> Option<Vec<Vec<Seg>>> {
    let mut out: Vec<Vec<Seg>> = vec![];
    let mut cur: Vec<Seg> = vec![];
    let mut start = (0.0, 0.0);
    let mut at = (0.0, 0.0);
    let mut open = false;
    let close = |cur: &mut Vec<Seg>, out: &mut Vec<Vec<Seg>>, at: (f64, f64), start: (f64, f64)| {
        if at != start {
            cur.push(Seg::L([at.0, at.1, start.0, start.1]));
        }
        out.push(std::mem::take(cur));
    };
    for e in els {
        match *e {
            El::M(x, y) => {
                if open {
                    close(&mut cur, &mut out, at, start);
                }
                start = (x, y);
                at = start;
                open = true;
            }
            El::L(x, y) => {
                if !open {
                    return None;
                }
                if (x, y) != at {
                    cur.push(Seg::L([at.0, at.1, x, y]));
                }
                at = (x, y);
            }
            El::Q(a, b, x, y) => {
                if !open {
                    return None;
                }
                cur.push(Seg::Q([at.0, at.1, a, b, x, y]));
                at = (x, y);
            }
            El::C => return None,
            El::Z => {
                if open {
                    close(&mut cur, &mut out, at, start);
                    open = false;
                    at = start;
                }
            }
        }
    }
    if open {
        close(&mut cur, &mut out, at, start);
    }
    Some(out)
}

fn seg_close(a: &Seg, b: &Seg, tol: f64) -> bool {
    match (a, b) {
        (Seg::L(x), Seg::L(y)) => x.iter().zip(y).all(|(p, q)| (p - q).abs() <= tol),
        (Seg::Q(x), Seg::Q(y)) => x.iter().zip(y).all(|(p, q)| (p - q).abs() <= tol),
        _ => false,
    }
}

fn cyclic_equal(a: &[Seg], b: &[Seg], tol: f64) -> bool {
    if a.len() != b.len() {
        return false;
    }
    if a.is_empty() {
        return true;
    }
    (0..a.len()).any(|r| (0..a.len()).all(|i| seg_close(&a[i], &b[(i + r) % b.len()], tol)))
}

#[derive(Default)]
struct Rec(Vec<El>);
impl OutlinePen for Rec {
    fn move_to(&mut self, x: f32, y: f32) {
        self.0.push(El::M(x as f64, y as f64));
    }
    fn line_to(&mut self, x: f32, y: f32) {
        self.0.push(El::L(x as f64, y as f64));
    }
    fn quad_to(&mut self, a: f32, b: f32, x: f32, y: f32) {
        self.0.push(El::Q(a as f64, b as f64, x as f64, y as f64));
    }
    fn curve_to(&mut self, _: f32, _: f32, _: f32, _: f32, _: f32, _: f32) {
        self.0.push(El::C);
    }
    fn close(&mut self) {
        self.0.push(El::Z);
    }
}

fn check_path(run: &Run, els: &[El], l: &mut Local) {
    l.evals += 1;
    let case = || json!({"kind":"path","els":els_json(els)});
    let mut path = BezPath::new();
    for e in els {
        match *e {
            El::M(x, y) => {
                path.move_to((x, y));
            }
            El::L(x, y) => {
                path.line_to((x, y));
            }
            El::Q(a, b, x, y) => {
                path.quad_to((a, b), (x, y));
            }
            El::Z => path.close_path(),
            El::C => path.curve_to((1.0, 2.0), (3.0, 4.0), (5.0, 6.0)),
        }
    }
    // documented to be refused: cubic segments, a segment before the first move
    let expect_err = els.iter().any(|e| matches!(e, El::C)) || !matches!(els.first(), Some(El::M(..)) | None);
    let integer = els.iter().all(|e| match *e {
        El::M(x, y) | El::L(x, y) => x.fract() == 0.0 && y.fract() == 0.0,
        El::Q(a, b, x, y) => a.fract() == 0.0 && b.fract() == 0.0 && x.fract() == 0.0 && y.fract() == 0.0,
        _ => true,
    });
    l.trans += 1;
    let glyph = match guard(|| SimpleGlyph::from_bezpath(&path)) {
        Ok(Ok(g)) => {
            if expect_err {
                run.violation(
                    "SimpleGlyph::from_bezpath accepts a malformed path (cubic segment / segment before a move)",
                    &format!("{els:?} -> {} contours", g.contours.len()),
                    case(),
                );
                return;
            }
            g
        }
        Ok(Err(e)) => {
            if expect_err {
                let mut h = Fnv::new();
                h.str("refused");
                h.str(&format!("{e:?}"));
                l.all.insert(h.finish());
                l.nontrivial.insert(h.finish());
                return;
            }
            run.violation("SimpleGlyph::from_bezpath rejects a line/quad path", &format!("{e:?}"), case());
            return;
        }
        Err(p) => {
            run.violation(
                &format!("SimpleGlyph::from_bezpath panic: {} in {}", p.kind(), p.site()),
                &format!("{} ({}:{})", p.message, p.file, p.line),
                case(),
            );
            return;
        }
    };
    // table-level round trip of whatever the builder made of the path
    let spec = GSpec::Simple {
        contours: glyph
            .contours
            .iter()
            .map(|c| c.iter().map(|p| (p.x, p.y, p.on_curve)).collect())
            .collect(),
        instr: vec![],
    };
    let n_on: usize = glyph.contours.iter().map(|c| c.iter().filter(|p| p.on_curve).count()).sum();
    // (each contour's duplicated closing point is not an elision; count only true drops)
    // hmtx.lsb = xMin, as in every well-formed font: the scaler places phantom point 1 at xMin - lsb
    // and shifts the outline so that it lies at x = 0
    let own_box = match &spec {
        GSpec::Simple { contours, .. } => bbox_of(contours),
        _ => Bbox::default(),
    };
    let lsb = own_box.x_min;
    // The box from_bezpath stores is documented as the control-point box of the path. Every point the
    // builder drops is a midpoint of its two neighbours (or the duplicate of the start point), so the box
    // of the remaining rounded points is that box: the glyph written below (bbox_of) is the glyph returned.
    if !glyph.contours.is_empty() && glyph.bbox != own_box {
        run.violation(
            "SimpleGlyph::from_bezpath stores a bounding box that is not the control-point box of the path",
            &format!("stored {:?}, control box {:?}", glyph.bbox, own_box),
            case(),
        );
        return;
    }
    {
        let mut g2 = glyph.clone();
        g2.bbox = Bbox { x_min: 1, y_min: 2, x_max: 3, y_max: 4 };
        g2.recompute_bounding_box();
        if !glyph.contours.is_empty() && g2.bbox != own_box {
            run.violation(
                "SimpleGlyph::recompute_bounding_box differs from the min/max of the glyph's points",
                &format!("recomputed {:?}, min/max {:?}", g2.bbox, own_box),
                case(),
            );
            return;
        }
    }
    let seq = [spec];
    let Some(built) = check_sequence(run, "D", &seq, 0, l, &case) else {
        return;
    };
    let Some(want) = contours_of(els) else {
        return;
    };
    // assemble a font and draw unscaled: the default (FreeType) path style, the HarfBuzz path style (a
    // different scaler and a different start-point rule) and the default style into caller-provided memory
    // of exactly draw_memory_size bytes. All three must be the input path, geometrically.
    let font_bytes = match guard(|| audit::assemble_font(&built.glyf, &built.loca, built.long, &[lsb])) {
        Ok(b) => b,
        Err(p) => {
            run.violation(
                &format!("assembling a font panics: {} in {}", p.kind(), p.site()),
                &format!("{} ({}:{})", p.message, p.file, p.line),
                case(),
            );
            return;
        }
    };
    let mut got0: Vec<Vec<Seg>> = vec![];
    for mode in 0..3u8 {
        let suffix = audit::DRAW_MODE_SUFFIX[mode as usize];
        l.trans += 2;
        let drawn = match guard(|| audit::draw_gid(&font_bytes, 0, mode)) {
            Ok(Ok(d)) => d,
            Ok(Err(e)) => {
                run.violation(&format!("a glyph built from a path cannot be drawn{suffix}"), &e, case());
                return;
            }
            Err(p) => {
                run.violation(
                    &format!("drawing a built glyph panics{suffix}: {} in {}", p.kind(), p.site()),
                    &format!("{} ({}:{})", p.message, p.file, p.line),
                    case(),
                );
                return;
            }
        };
        let Some(got) = contours_of(&drawn) else {
            run.violation(
                &format!("drawn path is malformed (cubic or segment before move){suffix}"),
                &format!("{drawn:?}"),
                case(),
            );
            return;
        };
        // exact for integer inputs; within the half unit of coordinate rounding otherwise
        let tol = if integer { 0.0 } else { 0.5 };
        let ok = want.len() == got.len() && want.iter().zip(got.iter()).all(|(a, b)| cyclic_equal(a, b, tol));
        if !ok {
            run.violation(
                &format!(
                    "glyph built from a {} path draws as a geometrically different path{suffix}",
                    if integer { "integer" } else { "fractional" }
                ),
                &format!("input {els:?}; drawn {drawn:?}"),
                case(),
            );
            return;
        }
        if mode == 0 {
            got0 = got;
        }
    }
    let got = got0;
    // input on-curve anchors = one per segment; fewer on-curve points in the glyph = implied points dropped
    if n_on < want.iter().map(|c| c.len()).sum::<usize>() {
        l.elided += 1;
    }
    let mut h = Fnv::new();
    h.str("path");
    for c in &got {
        h.u64(c.len() as u64);
        for s in c {
            match s {
                Seg::L(v) => v.iter().for_each(|x| h.u64(x.to_bits())),
                Seg::Q(v) => v.iter().for_each(|x| h.u64(x.to_bits())),
            }
        }
    }
    l.all.insert(h.finish());
    l.nontrivial.insert(h.finish());
}

const ANCHOR_BASE: [(f64, f64); 5] = [(0.0, 0.0), (100.0, 0.0), (100.0, 100.0), (0.0, 100.0), (-50.0, 50.0)];
const CTRL_BASE: [(f64, f64); 5] = [(50.0, -20.0), (120.0, 50.0), (50.0, 120.0), (-20.0, 50.0), (-40.0, 10.0)];
const CTRL_DELTA: [(f64, f64); 3] = [(0.0, 0.0), (1.0, 0.0), (0.0, 1.0)];

/// every closed contour of k segments: kinds in {L,Q}^k, control variants, anchor variants.
/// Calls `f` with the element list (one contour, both closing styles), translated by `shift`.
fn for_each_contour(k: usize, shift: (f64, f64), fractional: bool, f: &mut dyn FnMut(Vec<El>)) {
    for kinds in 0..(1u32 << k) {
        let is_q = |i: usize| kinds >> (i % k) & 1 == 1;
        if k == 1 && !is_q(0) {
            continue; // a single line back to the start is empty
        }
        // control choices for quad segments
        let qs: Vec<usize> = (0..k).filter(|i| is_q(*i)).collect();
        let nctrl = CTRL_DELTA.len() + fractional as usize;
        let mut cd = vec![0usize; qs.len()];
        loop {
            let mut ctrl = vec![(0.0, 0.0); k];
            for (j, &i) in qs.iter().enumerate() {
                let d = if cd[j] < 3 { CTRL_DELTA[cd[j]] } else { (0.5, 0.0) };
                ctrl[i] = (CTRL_BASE[i].0 + d.0, CTRL_BASE[i].1 + d.1);
            }
            // anchors: per anchor a list of candidate positions.
            //  between two quads: the implied-point candidates (exact midpoint of the two controls,
            //    off by one in x / y, off by a half, far);
            //  between a quad and a line, or two lines: the base position and the midpoint of its two
            //    neighbours (a point that must NOT be elided although it is a midpoint).
            let mid = |a: (f64, f64), b: (f64, f64)| ((a.0 + b.0) / 2.0, (a.1 + b.1) / 2.0);
            let options: Vec<Vec<(f64, f64)>> = (0..k)
                .map(|i| {
                    let prev = (i + k - 1) % k;
                    let next = (i + 1) % k;
                    if k == 1 {
                        return vec![ANCHOR_BASE[i]];
                    }
                    if is_q(prev) && is_q(i) {
                        let m = mid(ctrl[prev], ctrl[i]);
                        return vec![m, (m.0 + 1.0, m.1), (m.0, m.1 - 1.0), (m.0 + 0.5, m.1), (m.0, m.1 + 0.5), ANCHOR_BASE[i]];
                    }
                    let before = if is_q(prev) { ctrl[prev] } else { ANCHOR_BASE[prev] };
                    let after = if is_q(i) { ctrl[i] } else { ANCHOR_BASE[next] };
                    let m = mid(before, after);
                    let mut v = vec![ANCHOR_BASE[i]];
                    if k >= 3 && m != ANCHOR_BASE[prev] && m != ANCHOR_BASE[next] && m != ANCHOR_BASE[i] {
                        v.push(m);
                    }
                    v
                })
                .collect();
            let radices: Vec<usize> = options.iter().map(|o| o.len()).collect();
            let mut ad = vec![0usize; k];
            loop {
                let anchors: Vec<(f64, f64)> = (0..k).map(|i| options[i][ad[i]]).collect();
                let has_fraction = anchors.iter().chain(ctrl.iter()).any(|p| p.0.fract() != 0.0 || p.1.fract() != 0.0);
                if fractional || !has_fraction {
                    for style in 0..2 {
                        // style 1 (implicit closing line) only when the last segment is a line
                        if style == 1 && is_q(k - 1) {
                            continue;
                        }
                        let sh = |p: (f64, f64)| (p.0 + shift.0, p.1 + shift.1);
                        let a0 = sh(anchors[0]);
                        let mut els = vec![El::M(a0.0, a0.1)];
                        for i in 0..k {
                            let end = sh(anchors[(i + 1) % k]);
                            if is_q(i) {
                                let c = sh(ctrl[i]);
                                els.push(El::Q(c.0, c.1, end.0, end.1));
                            } else if !(style == 1 && i == k - 1) {
                                els.push(El::L(end.0, end.1));
                            }
                        }
                        els.push(El::Z);
                        f(els);
                    }
                }
                if !next_digits_mixed(&mut ad, &radices) {
                    break;
                }
            }
            if !next_digits(&mut cd, nctrl) {
                break;
            }
        }
    }
}

/// advance digits with per-position radices (last digit fastest); false when they wrap to all zero
fn next_digits_mixed(d: &mut [usize], radices: &[usize]) -> bool {
    for i in (0..d.len()).rev() {
        d[i] += 1;
        if d[i] < radices[i] {
            return true;
        }
        d[i] = 0;
    }
    false
}

/// advance mixed-radix digits (last digit fastest); false when they wrap around to all zero
fn next_digits(d: &mut [usize], radix: usize) -> bool {
    for i in (0..d.len()).rev() {
        d[i] += 1;
        if d[i] < radix {
            return true;
        }
        d[i] = 0;
    }
    false
}

fn path_family(run: &Run) {
    let kmax = run.tier.pick(4usize, 5usize);
    run.bound("D.max_segments", json!(kmax));
    run.bound("D.control_variants", json!("base, +(1,0), +(0,1) [+(0.5,0) in the fractional family]"));
    run.bound("D.anchor_between_quads", json!("midpoint, +(1,0), +(0,-1), +(0.5,0), +(0,0.5), far"));
    run.bound("D.anchor_beside_a_line", json!("base position; midpoint of its two neighbours (must not be elided)"));
    run.bound("D.closing_styles", json!(["explicit return + close", "close only (implicit line)"]));
    let mut paths: Vec<Vec<El>> = vec![];
    for k in 1..=kmax {
        for_each_contour(k, (0.0, 0.0), true, &mut |els| paths.push(els));
    }
    // the same ring near the edges of the coordinate range
    for k in 2..=3 {
        for_each_contour(k, (32767.0 - 130.0, -32768.0 + 30.0), false, &mut |els| paths.push(els));
    }
    run.count("D.single_contour_paths", paths.len() as u64);
    // two-contour glyphs: all pairs of two-segment contours (second shifted)
    let mut twos_a: Vec<Vec<El>> = vec![];
    let mut twos_b: Vec<Vec<El>> = vec![];
    for_each_contour(2, (0.0, 0.0), false, &mut |els| twos_a.push(els));
    for_each_contour(2, (300.0, 7.0), false, &mut |els| twos_b.push(els));
    let lim = run.tier.pick(40usize, usize::MAX);
    let mut pairs = 0u64;
    for a in twos_a.iter().take(lim) {
        for b in twos_b.iter().take(lim) {
            let mut els = a.clone();
            els.extend(b.iter().copied());
            paths.push(els);
            pairs += 1;
        }
    }
    if lim != usize::MAX && twos_a.len() > lim {
        run.bound("D.two_contour_pairs", json!(format!("first {lim} × first {lim} of {} two-segment contours", twos_a.len())));
    } else {
        run.bound("D.two_contour_pairs", json!(format!("all {} × {}", twos_a.len(), twos_b.len())));
    }
    run.count("D.two_contour_paths", pairs);
    // D2: open paths (implicitly closed by glyf), zero-length segments, and malformed paths
    let mut variants = 0u64;
    let mut base: Vec<Vec<El>> = vec![];
    for k in 1..=3 {
        for_each_contour(k, (0.0, 0.0), false, &mut |els| base.push(els));
    }
    for els in &base {
        let n = els.len();
        // open: no ClosePath
        paths.push(els[..n - 1].to_vec());
        // open and without the last segment when that is a line (implicit closing line)
        if matches!(els[n - 2], El::L(..)) && n > 3 {
            paths.push(els[..n - 2].to_vec());
            variants += 1;
        }
        // zero-length line right after the move, and one before the close
        if let El::M(x, y) = els[0] {
            let mut v = els.clone();
            v.insert(1, El::L(x, y));
            paths.push(v);
            let mut v = els.clone();
            let last = match els[n - 2] {
                El::L(x, y) | El::Q(_, _, x, y) | El::M(x, y) => (x, y),
                _ => (x, y),
            };
            v.insert(n - 1, El::L(last.0, last.1));
            paths.push(v);
        }
        // a cubic segment in second position, and the path without its move
        let mut v = els.clone();
        v.insert(1, El::C);
        paths.push(v);
        paths.push(els[1..].to_vec());
        variants += 5;
    }
    // a second contour that is left open before the next move
    for a in twos_a.iter().take(40) {
        for b in twos_b.iter().take(8) {
            let mut els = a[..a.len() - 1].to_vec();
            els.extend(b.iter().copied());
            paths.push(els);
            variants += 1;
        }
    }
    // degenerate: lone move, move + close
    paths.push(vec![El::M(3.0, 4.0)]);
    paths.push(vec![El::M(3.0, 4.0), El::Z]);
    run.count("D2.open_zero_length_and_malformed_variants", variants + 2);
    // D3: a join between two consecutive quads whose on-curve point is taken RELATIVE to the true midpoint
    // M of the two controls: it may be dropped (and is re-implied when drawn) only when it is exactly M
    {
        let a = [-40.0f64, -21.0, 10.0, 31.0];
        let mut d3 = 0u64;
        for c0x in a {
            for c0y in a {
                for c1x in a {
                    for c1y in a {
                        let (c0, c1) = ((c0x, c0y), (c1x, c1y));
                        let m = ((c0x + c1x) / 2.0, (c0y + c1y) / 2.0);
                        if m.0 == 0.0 || m.1 == 0.0 || c0 == c1 {
                            continue;
                        }
                        let mut joins: Vec<(f64, f64)> = vec![];
                        for j in [
                            m,
                            (m.0 + 1.0, m.1),
                            (m.0, m.1 - 1.0),
                            (-m.0, m.1),
                            (m.0, -m.1),
                            (-m.0, -m.1),
                            (m.1, m.0),
                            (2.0 * m.0, 2.0 * m.1),
                            (0.0, 0.0),
                        ] {
                            if !joins.contains(&j) && j != c0 && j != c1 {
                                joins.push(j);
                            }
                        }
                        // far anchors, distinct from every join candidate (|coordinates| <= 80)
                        let (s, e, p) = ((200.0, 0.0), (0.0, 200.0), (200.0, 200.0));
                        for j in joins {
                            // join in the middle, at the first point, at the last on-curve point
                            let shapes: [Vec<El>; 3] = [
                                vec![El::M(s.0, s.1), El::Q(c0.0, c0.1, j.0, j.1), El::Q(c1.0, c1.1, e.0, e.1), El::L(s.0, s.1), El::Z],
                                vec![El::M(j.0, j.1), El::Q(c1.0, c1.1, e.0, e.1), El::L(p.0, p.1), El::Q(c0.0, c0.1, j.0, j.1), El::Z],
                                vec![El::M(s.0, s.1), El::L(p.0, p.1), El::Q(c0.0, c0.1, j.0, j.1), El::Q(c1.0, c1.1, s.0, s.1), El::Z],
                            ];
                            for els in shapes {
                                // the other winding: the same contour traversed backwards
                                let mut pts: Vec<(f64, f64)> = vec![];
                                let mut rev: Vec<El> = vec![];
                                if let El::M(x, y) = els[0] {
                                    pts.push((x, y));
                                }
                                // collect segments as (kind, control, end), then emit reversed
                                let mut segs: Vec<(Option<(f64, f64)>, (f64, f64), (f64, f64))> = vec![];
                                let mut at = pts[0];
                                for el in &els[1..] {
                                    match *el {
                                        El::L(x, y) => {
                                            segs.push((None, at, (x, y)));
                                            at = (x, y);
                                        }
                                        El::Q(cx, cy, x, y) => {
                                            segs.push((Some((cx, cy)), at, (x, y)));
                                            at = (x, y);
                                        }
                                        _ => {}
                                    }
                                }
                                rev.push(El::M(at.0, at.1));
                                for (c, from, _) in segs.iter().rev() {
                                    match c {
                                        None => rev.push(El::L(from.0, from.1)),
                                        Some(c) => rev.push(El::Q(c.0, c.1, from.0, from.1)),
                                    }
                                }
                                rev.push(El::Z);
                                paths.push(els);
                                paths.push(rev);
                                d3 += 2;
                            }
                        }
                    }
                }
            }
        }
        run.count("D3.quad_join_paths", d3);
        run.bound("D3.controls", json!("both controls of the join over {-40, -21, 10, 31}^2 (midpoint with non-zero x and y, integer and half-integer)"));
        run.bound("D3.join_point", json!("M, M+(1,0), M-(0,1), (-Mx,My), (Mx,-My), (-Mx,-My), (My,Mx), 2M, (0,0); join at the first / a middle / the last on-curve position; both windings"));
    }
    // the empty path: documented as an error; whatever happens must not be a panic (recorded)
    {
        let r = guard(|| SimpleGlyph::from_bezpath(&BezPath::new()));
        run.extra(
            "side_observation.from_bezpath_on_empty_path",
            json!(match r {
                Ok(Ok(g)) => format!("Ok: glyph with {} contours", g.contours.len()),
                Ok(Err(e)) => format!("Err({e:?})"),
                Err(p) => format!("PANIC {}", p.message),
            }),
        );
    }
    run.sample(json!({"kind":"path","els":els_json(&paths[paths.len() / 3])}));
    let locals: Vec<Local> = paths
        .par_chunks(256)
        .map(|chunk| {
            let mut l = Local::new();
            for els in chunk {
                check_path(run, els, &mut l);
            }
            l
        })
        .collect();
    for l in locals {
        l.merge(run, "D");
    }
}

// ---------------------------------------------------------------------------

/// Safety net around a whole family: every per-case call into the library is already guarded, but if
/// anything still panics (also inside worker threads) the run must end with a verdict (exit 1), never
/// with a harness stop.
fn family(run: &Run, name: &str, f: impl FnOnce()) {
    let t0 = std::time::Instant::now();
    let r = guard(f);
    // wall time per family (information only; no decision depends on it)
    run.extra(&format!("wall_s.{name}"), json!((t0.elapsed().as_secs_f64() * 10.0).round() / 10.0));
    if let Err(p) = r {
        run.violation(
            &format!("panic outside the per-case guards (family {name}): {} in {}", p.kind(), p.site()),
            &format!("{} ({}:{})", p.message, p.file, p.line),
            json!({"kind": "family", "family": name}),
        );
    }
}

fn body(run: &Run, replay: Option<&Value>) {
    run.rule("a case is one glyph sequence handed to GlyfLocaBuilder (or one BezPath); its observation is the encoded glyph bytes after the bounding box (simple/composite) per glyph plus the location format, or the drawn segment list; non-trivial = at least one non-empty glyph was built and decoded; distinct = distinct encodings / drawn outlines");
    run.assume("oracle = the input description; canonical shortest length = optimal flag run-length use + 0/1/2 byte deltas, padded to 2 bytes");
    run.assume("paths are closed (ClosePath) line/quadratic contours without zero-length segments; integer paths must draw back exactly (up to the start point of each contour), fractional ones within the half unit of coordinate rounding");
    run.assume("bounding boxes are whatever the caller stored in the glyph (statement: decoded bbox = written bbox); CompositeGlyph::try_from_iter's box arithmetic is not part of the statement");
    if let Some(case) = replay {
        let mut l = Local::new();
        match case["kind"].as_str() {
            Some("seq") => {
                let seq: Vec<GSpec> = case["glyphs"].as_array().unwrap().iter().map(gspec_from_json).collect();
                let fillers = case["fillers"].as_u64().unwrap_or(0) as usize;
                let fam = case["family"].as_str().unwrap_or("A").to_string();
                let c = || case.clone();
                check_sequence(run, &fam, &seq, fillers, &mut l, &c);
            }
            Some("run") => {
                let seq = vec![gspec_from_json(&case["glyph"])];
                let c = || case.clone();
                check_sequence(run, "A2", &seq, 0, &mut l, &c);
            }
            Some("history") => {
                let letters: Vec<u8> = case["letters"].as_array().unwrap().iter().map(|k| k.as_u64().unwrap() as u8).collect();
                check_history(run, &letters, case["fillers"].as_u64().unwrap_or(0) as usize, &mut l);
            }
            Some("many") => {
                let seq = many_seq(case["count"].as_u64().unwrap() as usize, case["dense"].as_bool().unwrap_or(false));
                let c = || case.clone();
                check_sequence(run, "C.many", &seq, 0, &mut l, &c);
            }
            Some("overlap") => println!("overlap cases are re-run by the tier (hand-patched bytes)"),
            Some("sized") => {
                let seq = sized_from_desc(case);
                let c = || case.clone();
                check_sequence(run, "C.sized", &seq, 0, &mut l, &c);
            }
            Some("path") => check_path(run, &els_from_json(&case["els"]), &mut l),
            Some("font") => {
                let letters: Vec<usize> = case["letters"].as_array().unwrap().iter().map(|k| k.as_u64().unwrap() as usize).collect();
                audit::check_font(run, &letters, case["fillers"].as_u64().unwrap_or(0) as usize, &mut l);
            }
            Some("masters") => {
                let masters: Vec<Vec<El>> = case["masters"].as_array().unwrap().iter().map(els_from_json).collect();
                audit::check_masters(run, &masters, &mut l);
            }
            Some("loca") => {
                let offs: Vec<u32> = case["offsets"].as_array().unwrap().iter().map(|k| k.as_u64().unwrap() as u32).collect();
                audit::check_loca_vector(run, &offs, &mut l);
            }
            Some("loca_read") => audit::loca_family(run),
            Some("composite_instr") => {
                if let GSpec::Composite { comps, bbox } = gspec_from_json(&case["glyph"]) {
                    audit::check_composite_instr(run, &comps, &bbox, &unhex(case["instr"].as_str().unwrap_or("")), &mut l);
                }
            }
            Some("union") | Some("direct") => audit::composite_family2(run),
            Some("contours") | Some("points") => audit::count_family(run),
            _ => run.machinery_error("unknown replay kind"),
        }
        return;
    }
    // conformance gate of the reference length: hand-computed values
    {
        let g1 = vec![vec![(5i16, 0i16, true), (10, 0, false)]];
        // 10 + 2 + 2 + 0 + flags 2 + x 2 = 18
        let g2: Vec<Vec<Pt>> = vec![(0..300).map(|i| (i as i16 + 1, 0, true)).collect()];
        // 300 equal flags: 2 (256) + 2 (44) = 4 ; x 300 ; header 14 -> 318
        if reference_len(&g1, 0) != 18 || reference_len(&g1, 1) != 20 || reference_len(&g2, 0) != 318 {
            run.machinery_error("reference_len conformance gate failed");
            return;
        }
    }
    let _ = guard(|| {
    // side observation (not part of the statement, never a verdict): does try_from_iter store the union
    // of the component boxes?
    {
        let c = |gid: u16| Component::new(GlyphId16::new(gid), Anchor::Offset { x: 0, y: 0 }, Transform::default(), ComponentFlags::default());
        let b1 = Bbox { x_min: 0, y_min: 0, x_max: 10, y_max: 10 };
        let b2 = Bbox { x_min: -5, y_min: 3, x_max: 20, y_max: 8 };
        if let Ok(g) = CompositeGlyph::try_from_iter([(c(1), b1), (c(2), b2)]) {
            run.extra(
                "side_observation.CompositeGlyph_try_from_iter_bbox",
                json!({"is_union": g.bbox == b1.union(b2), "is_first_component_box": g.bbox == b1}),
            );
        }
    }
    // side observation: a contour-less simple glyph that carries instructions is written as an empty glyph
    {
        let seq = [GSpec::Simple { contours: vec![], instr: vec![1, 2, 3] }, GSpec::Simple { contours: vec![vec![(1, 1, true)]], instr: vec![] }];
        let mut b = GlyfLocaBuilder::new();
        for g in seq.iter().map(to_write_glyph) {
            let _ = b.add_glyph(&g);
        }
        let (_, loca, _) = b.build();
        let lb = dump_table(&loca).unwrap_or_default();
        let len0 = match (lb.get(2), lb.get(3)) {
            (Some(a), Some(b)) => u16::from_be_bytes([*a, *b]) as u32 * 2,
            _ => u32::MAX,
        };
        run.extra(
            "side_observation.contourless_simple_glyph_with_instructions",
            json!({"glyph_0_length_in_glyf": len0, "instructions_given": 3, "note": "Glyph::from(SimpleGlyph) maps it to Glyph::Empty and SimpleGlyph::write_into writes nothing (same as fontTools)"}),
        );
    }
    });
    family(run, "overlap_family", || overlap_family(run));
    family(run, "sequence_family", || sequence_family(run));
    family(run, "history_family", || history_family(run));
    family(run, "composite_family", || composite_family(run));
    family(run, "composite_family2", || audit::composite_family2(run));
    family(run, "composite_instr_family", || audit::composite_instr_family(run));
    family(run, "loca_family", || audit::loca_family(run));
    family(run, "count_family", || audit::count_family(run));
    family(run, "long_path_family", || audit::long_path_family(run));
    family(run, "font_family", || audit::font_family(run));
    family(run, "masters_family", || audit::masters_family(run));
    family(run, "run_family", || run_family(run));
    family(run, "path_family", || path_family(run));
    family(run, "simple_family", || simple_family(run));
}
