//! C12 — drawing is well-formed and independent of buffers, history and threads.
//!
//! Four enumerated spaces over the font set F and configuration set K (DESIGN §3 C12):
//!  1. every glyph × every configuration: well-formed pen stream (glyf outlines), second draw equal;
//!  2. caller memory of exactly `draw_memory_size` at every alignment 0..7, pre-filled 00 / FF, and
//!     `None` vs all-zero location  ⇒ same result as the library-allocated / `None` draw;
//!  3. histories: `HintingInstance` configured for a, (drawn,) reconfigured to b ⇒ draws equal a fresh
//!     instance for b — all ordered pairs over K (quick), all triples over a sub-alphabet + clone
//!     (thorough); draw-order histories with a reused dirty caller buffer;
//!  4. schedules: shuttle DFS over the three lazy-metrics hook sites of 2–3 threads drawing through one
//!     shared Auto instance ⇒ every thread's result equals the fresh sequential reference.
//!  5. (audit, AUDIT.md) a hand-encoded shapes font: every contour of 1..6 points over {on, off}, pairs of
//!     contours, and glyphs whose scratch size sits exactly on the library allocator's bucket bounds.
//! The oracle is differential throughout (no hand-written expected outlines); the audit added two
//! counting oracles (one move per contour stored in the raw glyf data; the two path styles agree for
//! contours that start on-curve), pedantic draws, size 7.5, three more targets, zero vectors of other
//! lengths, the instance getters, and synthetic-font families for the original twilight position,
//! glyph-time twilight writes, value-stack underflow and the retained graphics state.

mod shapes;
mod synth;

use font_types::{F2Dot14, GlyphId};
use rayon::prelude::*;
use read_fonts::tables::glyf::Glyph;
use read_fonts::{FontRef, TableProvider};
use serde_json::{json, Value};
use skrifa::instance::{LocationRef, Size};
use skrifa::outline::pen::PathStyle;
use skrifa::outline::{
    DrawSettings, Engine, GlyphStyles, Hinting, HintingInstance, HintingOptions, OutlineGlyph,
    OutlineGlyphCollection, OutlineGlyphFormat, OutlinePen, SmoothMode, Target,
};
use skrifa::MetadataProvider;
use std::cell::Cell;
use std::collections::{BTreeMap, HashSet};
use std::sync::{Arc, Mutex};
use vcore::*;

// =============================================================================================
// hook dispatcher
// =============================================================================================

thread_local! {
    /// this OS thread is currently inside a shuttle execution (shuttle threads are coroutines on it)
    static IN_SHUTTLE: Cell<bool> = const { Cell::new(false) };
    /// number of times a thread was about to compute style metrics itself
    static COMPUTES: Cell<u32> = const { Cell::new(0) };
    static YIELDS: Cell<u64> = const { Cell::new(0) };
}

fn sk_hook(site: &'static str) {
    if site == "autohint.metrics.compute" {
        COMPUTES.with(|c| c.set(c.get() + 1));
    }
    if IN_SHUTTLE.with(|c| c.get()) {
        YIELDS.with(|c| c.set(c.get() + 1));
        shuttle::thread::yield_now();
    }
}

// =============================================================================================
// fonts and configurations
// =============================================================================================

const FONT_PATHS: &[&str] = &[
    "font-test-data/test_data/ttf/tthint_subset.ttf",
    "font-test-data/test_data/ttf/tinos_subset.ttf",
    "klippa/test-data/fonts/Roboto-Regular.abc.ttf",
    "font-test-data/test_data/ttf/cvar.ttf",
    "font-test-data/test_data/ttf/material_symbols_subset.ttf",
    "font-test-data/test_data/ttf/vazirmatn_var_trimmed.ttf",
    "font-test-data/test_data/ttf/glyf_components.ttf",
    "font-test-data/test_data/ttf/notoserifhebrew_autohint_metrics.ttf",
    "font-test-data/test_data/ttf/notoseriftc_autohint_metrics.ttf",
    "font-test-data/test_data/ttf/NotoSansJP-Regular.subset.otf",
    "font-test-data/test_data/ttf/cantarell_vf_trimmed.ttf",
];

struct Loaded {
    name: String,
    font: FontRef<'static>,
    outlines: OutlineGlyphCollection<'static>,
    n_glyphs: u32,
    axes: usize,
    is_glyf: bool,
    /// ≤ 12 glyph ids spread over the font, used where the space is quadratic in configurations
    sel: Vec<GlyphId>,
    /// not one of the DESIGN fonts F: rest of the in-repo corpus, takes part in parts 1, 2 and 3b only
    extra: bool,
    /// synthesised font: never subject to the per-font glyph cap of the corpus fonts
    uncapped: bool,
    /// glyf fonts: number of contours of every glyph counted from the raw glyf data (composites:
    /// sum over the component tree), `None` where the data cannot be walked
    raw_contours: Vec<Option<usize>>,
}

/// Contours of a glyph from the stored glyf data alone (numberOfContours of simple glyphs, summed
/// over the component tree of composites).
fn count_raw_contours(font: &FontRef, gid: u32, depth: u32) -> Option<usize> {
    let glyf = font.glyf().ok()?;
    let loca = font.loca(None).ok()?;
    match loca.get_glyf(GlyphId::new(gid), &glyf) {
        Ok(None) => Some(0),
        Ok(Some(Glyph::Simple(s))) => Some(s.number_of_contours().max(0) as usize),
        Ok(Some(Glyph::Composite(c))) => {
            if depth > 16 {
                return None;
            }
            let mut n = 0usize;
            for comp in c.components() {
                n += count_raw_contours(font, comp.glyph.to_u32(), depth + 1)?;
            }
            Some(n)
        }
        Err(_) => None,
    }
}

fn load_fonts() -> Result<Vec<Loaded>, String> {
    let mut out = vec![];
    let mut datas: Vec<(String, Vec<u8>)> = vec![];
    for p in FONT_PATHS {
        let b = std::fs::read(repo_root().join(p)).map_err(|e| format!("{p}: {e}"))?;
        datas.push((p.rsplit('/').next().unwrap().to_string(), b));
    }
    datas.push(("synthetic_prep_state.ttf".into(), synth::build()));
    let n_f = datas.len();
    // the contour-shape / scratch-size font: treated like a corpus font (parts 1, 2, 3b, 5), uncapped
    datas.push((shapes::NAME.into(), shapes::build().0));
    // the rest of the corpus (sorted by path), after F so that F's indices are stable
    for (path, b) in corpus_fonts() {
        let name = path.rsplit('/').next().unwrap().to_string();
        if datas.iter().any(|(n, _)| *n == name) {
            continue;
        }
        datas.push((name, b));
    }
    for (idx, (name, b)) in datas.into_iter().enumerate() {
        // fonts live for the whole process
        let data: &'static [u8] = Box::leak(b.into_boxed_slice());
        let font = match FontRef::from_index(data, 0) {
            Ok(f) => f,
            Err(e) if idx < n_f => return Err(format!("{name}: {e}")),
            Err(_) => continue,
        };
        let outlines = font.outline_glyphs();
        let n_glyphs = font.maxp().map(|m| m.num_glyphs() as u32).unwrap_or(0);
        let axes = font.axes().len();
        let is_glyf = outlines.format() == Some(OutlineGlyphFormat::Glyf);
        // small fonts (incl. the synthetic one): every glyph is observed
        let k = if n_glyphs <= 40 { n_glyphs } else { 12 };
        let mut sel: Vec<GlyphId> = (0..k).map(|i| GlyphId::new(((i as u64 * n_glyphs as u64) / k.max(1) as u64) as u32)).collect();
        sel.dedup();
        let uncapped = name == shapes::NAME;
        let raw_contours = if is_glyf { (0..n_glyphs.min(4096)).map(|g| count_raw_contours(&font, g, 0)).collect() } else { vec![] };
        out.push(Loaded { name, font, outlines, n_glyphs, axes, is_glyf, sel, extra: idx >= n_f, uncapped, raw_contours });
    }
    Ok(out)
}

/// options index: 0..=5 and 8..=10 hinted, 6 and 7 unhinted
const OPT_UNHINTED: u8 = 6;
/// unhinted, `PathStyle::HarfBuzz` (different scaler: HarfBuzzScaler, f32 points)
const OPT_UNHINTED_HB: u8 = 7;
/// every hinted option, in enumeration order (8..=10 were added by the coverage audit: the two
/// `Target::Smooth` flags and the light mode, none of which the first six options vary)
const HINTED_OPTS: [u8; 9] = [0, 1, 2, 3, 4, 5, 8, 9, 10];
/// hinted options of the original reconfigure alphabet (all sizes)
const K_BASE_OPTS: [u8; 6] = [0, 1, 2, 3, 4, 5];

fn is_auto(opt: u8) -> bool {
    opt == 3 || opt == 4 || opt == 10
}

fn is_unhinted(opt: u8) -> bool {
    opt == OPT_UNHINTED || opt == OPT_UNHINTED_HB
}

fn style_of(opt: u8) -> PathStyle {
    if opt == OPT_UNHINTED_HB {
        PathStyle::HarfBuzz
    } else {
        PathStyle::FreeType
    }
}

const OPT_NAMES: [&str; 11] = [
    "Interpreter/Mono",
    "Interpreter/Smooth-Normal",
    "Interpreter/Smooth-Lcd",
    "Auto/Smooth-Normal",
    "Auto/Mono",
    "AutoFallback/default",
    "Unhinted",
    "Unhinted-HarfBuzz",
    "Interpreter/Smooth-Normal-asymmetric",
    "Interpreter/Smooth-Normal-linear-metrics",
    "Auto/Smooth-Light",
];
const SIZE_NAMES: [&str; 4] = ["8", "16", "unscaled", "7.5"];
const N_SIZES: u8 = 4;
const LOC_NAMES: [&str; 3] = ["none", "zero-vector", "non-default"];

#[derive(Clone, Copy, PartialEq, Eq, Hash, Debug, PartialOrd, Ord)]
struct Cfg {
    font: u8,
    size: u8,
    loc: u8,
    opt: u8,
}

impl Cfg {
    fn json(&self, fonts: &[Loaded]) -> Value {
        json!({"font": fonts[self.font as usize].name, "size": SIZE_NAMES[self.size as usize],
               "location": LOC_NAMES[self.loc as usize], "options": OPT_NAMES[self.opt as usize],
               "raw": [self.font, self.size, self.loc, self.opt]})
    }
    fn from_raw(v: &Value) -> Cfg {
        let a: Vec<u8> = v.as_array().unwrap().iter().map(|x| x.as_u64().unwrap() as u8).collect();
        Cfg { font: a[0], size: a[1], loc: a[2], opt: a[3] }
    }
}

fn size_of(c: Cfg) -> Size {
    match c.size {
        0 => Size::new(8.0),
        1 => Size::new(16.0),
        // fractional and small: the interpreter sees ppem 7 (tinos switches hinting off below 8,
        // so this is the scaled + disabled route), the scalers see 7.5
        3 => Size::new(7.5),
        _ => Size::unscaled(),
    }
}

fn coords_of(f: &Loaded, loc: u8) -> Vec<F2Dot14> {
    match loc {
        0 => vec![],
        1 => vec![F2Dot14::ZERO; f.axes],
        _ => (0..f.axes).map(|i| F2Dot14::from_f32(if i % 2 == 0 { 0.5 } else { -0.5 })).collect(),
    }
}

fn smooth(mode: SmoothMode) -> Target {
    Target::Smooth { mode, symmetric_rendering: true, preserve_linear_metrics: false }
}

fn options_of(opt: u8) -> HintingOptions {
    match opt {
        0 => HintingOptions { engine: Engine::Interpreter, target: Target::Mono },
        1 => HintingOptions { engine: Engine::Interpreter, target: smooth(SmoothMode::Normal) },
        2 => HintingOptions { engine: Engine::Interpreter, target: smooth(SmoothMode::Lcd) },
        3 => HintingOptions { engine: Engine::Auto(None), target: smooth(SmoothMode::Normal) },
        4 => HintingOptions { engine: Engine::Auto(None), target: Target::Mono },
        8 => HintingOptions { engine: Engine::Interpreter, target: Target::Smooth { mode: SmoothMode::Normal, symmetric_rendering: false, preserve_linear_metrics: false } },
        9 => HintingOptions { engine: Engine::Interpreter, target: Target::Smooth { mode: SmoothMode::Normal, symmetric_rendering: true, preserve_linear_metrics: true } },
        10 => HintingOptions { engine: Engine::Auto(None), target: smooth(SmoothMode::Light) },
        _ => HintingOptions { engine: Engine::AutoFallback, target: Target::default() },
    }
}

/// per-font glyph cap for the corpus-wide parts (set once from the tier; F is never capped)
static EXTRA_GLYPH_CAP: std::sync::atomic::AtomicU32 = std::sync::atomic::AtomicU32::new(u32::MAX);
/// sizes used for the extra corpus fonts
static EXTRA_ALL_SIZES: std::sync::atomic::AtomicBool = std::sync::atomic::AtomicBool::new(false);

fn glyph_limit(f: &Loaded) -> u32 {
    if f.extra && !f.uncapped {
        f.n_glyphs.min(EXTRA_GLYPH_CAP.load(std::sync::atomic::Ordering::Relaxed))
    } else {
        f.n_glyphs
    }
}

/// all configurations of one font (locations beyond "none" only for variable fonts)
fn configs_of(fonts: &[Loaded], fi: usize, with_unhinted: bool) -> Vec<Cfg> {
    let mut v = vec![];
    let locs: &[u8] = if fonts[fi].axes > 0 { &[0, 1, 2] } else { &[0] };
    let all_sizes = !fonts[fi].extra || EXTRA_ALL_SIZES.load(std::sync::atomic::Ordering::Relaxed);
    let mut opts: Vec<u8> = HINTED_OPTS.to_vec();
    if with_unhinted {
        opts.extend([OPT_UNHINTED, OPT_UNHINTED_HB]);
    }
    for size in 0..N_SIZES {
        if !all_sizes && size != 1 {
            continue;
        }
        for &loc in locs {
            for &opt in &opts {
                v.push(Cfg { font: fi as u8, size, loc, opt });
            }
        }
    }
    v
}

/// The reconfigure alphabet K of one font: the original product sizes {8, 16, unscaled} x locations x
/// six options, plus (audit; fonts with fpgm or prep only) size 7.5 x {Interpreter/Mono,
/// Interpreter/Smooth} and, in the thorough tier, size 16 x the two added interpreter options — every new size / target value meets every old configuration in both orders.
fn k_configs_of(fonts: &[Loaded], fi: usize, with_target_flags: bool) -> Vec<Cfg> {
    let mut v = vec![];
    let locs: &[u8] = if fonts[fi].axes > 0 { &[0, 1, 2] } else { &[0] };
    for size in 0..3u8 {
        for &loc in locs {
            for &opt in &K_BASE_OPTS {
                v.push(Cfg { font: fi as u8, size, loc, opt });
            }
        }
    }
    // the added values act on TrueType interpreter state: fonts with a font or control-value program
    let f = &fonts[fi];
    let has_programs = f.is_glyf && (f.font.data_for_tag(font_types::Tag::new(b"fpgm")).is_some() || f.font.data_for_tag(font_types::Tag::new(b"prep")).is_some());
    if !has_programs {
        return v;
    }
    for &loc in locs {
        for opt in [0u8, 1] {
            v.push(Cfg { font: fi as u8, size: 3, loc, opt });
        }
        if with_target_flags {
            for opt in [8u8, 9] {
                v.push(Cfg { font: fi as u8, size: 1, loc, opt });
            }
        }
    }
    v
}

// =============================================================================================
// drawing and observation
// =============================================================================================

#[derive(Clone, PartialEq, Eq, Hash, Debug)]
enum Outcome {
    Ok { cmds: Vec<(u8, [u32; 6])>, lsb: Option<u32>, adv: Option<u32>, overlaps: bool },
    Err(String),
}

impl Outcome {
    fn brief(&self) -> String {
        match self {
            Outcome::Ok { cmds, lsb, adv, .. } => format!(
                "Ok({} commands, digest {:016x}, lsb {:?}, advance {:?})",
                cmds.len(),
                digest_of(cmds),
                lsb.map(f32::from_bits),
                adv.map(f32::from_bits)
            ),
            Outcome::Err(e) => format!("Err({e})"),
        }
    }
    fn is_ok(&self) -> bool {
        matches!(self, Outcome::Ok { .. })
    }
}

#[derive(Default)]
struct RecPen(Vec<(u8, [u32; 6])>);
impl OutlinePen for RecPen {
    fn move_to(&mut self, x: f32, y: f32) {
        self.0.push((0, [x.to_bits(), y.to_bits(), 0, 0, 0, 0]));
    }
    fn line_to(&mut self, x: f32, y: f32) {
        self.0.push((1, [x.to_bits(), y.to_bits(), 0, 0, 0, 0]));
    }
    fn quad_to(&mut self, a: f32, b: f32, x: f32, y: f32) {
        self.0.push((2, [a.to_bits(), b.to_bits(), x.to_bits(), y.to_bits(), 0, 0]));
    }
    fn curve_to(&mut self, a: f32, b: f32, c: f32, d: f32, x: f32, y: f32) {
        self.0.push((3, [a.to_bits(), b.to_bits(), c.to_bits(), d.to_bits(), x.to_bits(), y.to_bits()]));
    }
    fn close(&mut self) {
        self.0.push((4, [0; 6]));
    }
}

enum How<'a> {
    Hinted(&'a HintingInstance),
    /// `is_pedantic = true`: hinting errors fail the draw
    HintedPedantic(&'a HintingInstance),
    /// hinted instance + HarfBuzz path style: documented to be rejected
    HintedHarfBuzz(&'a HintingInstance),
    Unhinted(Size, &'a [F2Dot14], PathStyle),
}

fn draw(glyph: &OutlineGlyph, how: &How, mem: Option<&mut [u8]>) -> Outcome {
    let r = guard(|| {
        let mut pen = RecPen::default();
        let settings = match how {
            How::Hinted(inst) => DrawSettings::hinted(inst, false),
            How::HintedPedantic(inst) => DrawSettings::hinted(inst, true),
            How::HintedHarfBuzz(inst) => DrawSettings::hinted(inst, false).with_path_style(PathStyle::HarfBuzz),
            How::Unhinted(size, coords, style) => DrawSettings::unhinted(*size, LocationRef::new(coords)).with_path_style(*style),
        }
        .with_memory(mem);
        glyph.draw(settings, &mut pen).map(|m| (pen.0, m))
    });
    match r {
        Ok(Ok((cmds, m))) => Outcome::Ok {
            cmds,
            lsb: m.lsb.map(f32::to_bits),
            adv: m.advance_width.map(f32::to_bits),
            overlaps: m.has_overlaps,
        },
        Ok(Err(e)) => Outcome::Err(format!("{e:?}")),
        Err(p) => Outcome::Err(format!("panic: {} at {}", p.kind(), p.site())),
    }
}

/// (MoveTo (Line|Quad|Curve)* Close)* with finite coordinates
fn well_formed(cmds: &[(u8, [u32; 6])]) -> Result<(), String> {
    let mut open = false;
    for (i, (k, a)) in cmds.iter().enumerate() {
        let n = match k {
            0 | 1 => 2,
            2 => 4,
            3 => 6,
            _ => 0,
        };
        for v in &a[..n] {
            if !f32::from_bits(*v).is_finite() {
                return Err(format!("non-finite coordinate in command {i}"));
            }
        }
        match k {
            0 => {
                if open {
                    return Err(format!("move_to inside an open contour at command {i}"));
                }
                open = true;
            }
            4 => {
                if !open {
                    return Err(format!("close without open contour at command {i}"));
                }
                open = false;
            }
            _ => {
                if !open {
                    return Err(format!("segment outside a contour at command {i}"));
                }
            }
        }
    }
    if open {
        return Err("last contour not closed".into());
    }
    Ok(())
}

fn make_instance(fonts: &[Loaded], c: Cfg) -> Result<HintingInstance, String> {
    let f = &fonts[c.font as usize];
    let coords = coords_of(f, c.loc);
    make_instance_at(fonts, c, &coords)
}

/// like `make_instance`, with an explicit coordinate vector instead of `c.loc`
fn make_instance_at(fonts: &[Loaded], c: Cfg, coords: &[F2Dot14]) -> Result<HintingInstance, String> {
    let f = &fonts[c.font as usize];
    match guard(|| HintingInstance::new(&f.outlines, size_of(c), LocationRef::new(coords), options_of(c.opt))) {
        Ok(Ok(i)) => Ok(i),
        Ok(Err(e)) => Err(format!("{e:?}")),
        Err(p) => Err(format!("panic: {} at {}", p.kind(), p.site())),
    }
}

fn reconfigure(fonts: &[Loaded], inst: &mut HintingInstance, c: Cfg) -> Result<(), String> {
    let f = &fonts[c.font as usize];
    let coords = coords_of(f, c.loc);
    match guard(|| inst.reconfigure(&f.outlines, size_of(c), LocationRef::new(&coords), options_of(c.opt))) {
        Ok(Ok(())) => Ok(()),
        Ok(Err(e)) => Err(format!("{e:?}")),
        Err(p) => Err(format!("panic: {} at {}", p.kind(), p.site())),
    }
}

/// Observation of a configuration through a given (fresh or reused) instance: construction result
/// or the outcomes for the selected glyphs.
type Obs = Result<Vec<Outcome>, String>;

fn observe_sel(fonts: &[Loaded], c: Cfg, inst: &Result<HintingInstance, String>) -> Obs {
    let f = &fonts[c.font as usize];
    match inst {
        Err(e) => Err(e.clone()),
        Ok(i) => {
            let mut v: Vec<Outcome> = f
                .sel
                .iter()
                .map(|g| match f.outlines.get(*g) {
                    Some(gl) => draw(&gl, &How::Hinted(i), None),
                    None => Outcome::Err("no outline".into()),
                })
                .collect();
            // what the instance says about itself (last entry; compared reused vs fresh like a draw)
            v.push(Outcome::Err(format!(
                "getters: size {:?} location {:?} target {:?} enabled {}",
                i.size().ppem(),
                i.location().coords().iter().map(|c| c.to_bits()).collect::<Vec<_>>(),
                i.target(),
                i.is_enabled()
            )));
            Ok(v)
        }
    }
}

fn first_diff(a: &Obs, b: &Obs) -> String {
    match (a, b) {
        (Ok(x), Ok(y)) => {
            for (i, (p, q)) in x.iter().zip(y.iter()).enumerate() {
                if p != q {
                    let all: Vec<usize> = x.iter().zip(y.iter()).enumerate().filter(|(_, (p, q))| p != q).map(|(i, _)| i).collect();
                    return format!("{}: reused {} vs fresh {} (differing entries: {all:?} of {})", if i + 1 == x.len() { "instance getters".to_string() } else { format!("selected glyph #{i}") }, p.brief(), q.brief(), x.len());
                }
            }
            "?".into()
        }
        (x, y) => format!(
            "reused {:?} vs fresh {:?}",
            x.as_ref().map(|v| v.len()).map_err(|e| e.clone()),
            y.as_ref().map(|v| v.len()).map_err(|e| e.clone())
        ),
    }
}

struct Local {
    all: HashSet<u64>,
    nontrivial: HashSet<u64>,
}
impl Local {
    fn new() -> Self {
        Local { all: HashSet::new(), nontrivial: HashSet::new() }
    }
    fn add(&mut self, d: u64, nt: bool) {
        self.all.insert(d);
        if nt {
            self.nontrivial.insert(d);
        }
    }
}

static MERGE_SEQ: std::sync::atomic::AtomicU32 = std::sync::atomic::AtomicU32::new(0);

fn merge(run: &Run, locals: Vec<Local>) {
    let mut all = HashSet::new();
    let mut nt = HashSet::new();
    for l in locals {
        all.extend(l.all);
        nt.extend(l.nontrivial);
    }
    run.observe_many(&all, &nt);
    // per-phase distinct counts (phases in execution order: 3 pairs, [3 triples], 1, 2a, 2b, 3b, 3c, 5)
    let k = MERGE_SEQ.fetch_add(1, std::sync::atomic::Ordering::Relaxed);
    run.count(&format!("phase{}_distinct", k), all.len() as u64);
    run.count(&format!("phase{}_distinct_nontrivial", k), nt.len() as u64);
}

fn main() {
    main_for("C12", body)
}

fn body(run: &Run, replay: Option<&Value>) {
    run.rule("a case is (font, glyph(s), configuration, perturbation) where the perturbation is a second draw, a caller buffer (alignment, fill), a zero-vector location (of the axis count or another length), a pedantic flag, a reconfigure history, a draw-order history, a thread schedule, or an enumerated contour shape / scratch size of the shapes font; distinct = distinct (case, observed result) digests; non-trivial = the reference draw succeeded with a non-empty pen stream (parts 1-3) / the schedule let more than one thread pass the metrics read before the first publish (part 4 reports this histogram)");
    run.assume("oracle is differential: the perturbed draw must equal the unperturbed draw of the same glyph and configuration made through a fresh instance with library-allocated memory");
    run.assume("auxiliary free-running pass of part 4 (real OS threads, barrier per round, fresh shared Auto instance per round) is SAMPLING, not the deciding exploration: it exists to catch work moved between the hook sites or accesses finer than them, which the schedule search executes atomically; a mismatch it reports is a real failing execution, its silence proves nothing beyond the executions that ran");
    run.assume("interpreter and unhinted draws contain no interior mutability (DESIGN §1), so only the auto-hinter's lazy metrics are schedule-explored; shuttle threads yield exactly at the three hook sites");
    if !skrifa::verif_hooks::install_sched_hook(sk_hook) {
        run.machinery_error("could not install the skrifa scheduling hook");
        return;
    }
    let wide = match load_fonts() {
        Ok(f) => f,
        Err(e) => {
            run.machinery_error(&format!("corpus font missing: {e}"));
            return;
        }
    };
    EXTRA_GLYPH_CAP.store(run.tier.pick(96, 4096), std::sync::atomic::Ordering::Relaxed);
    EXTRA_ALL_SIZES.store(true, std::sync::atomic::Ordering::Relaxed);
    if let Some(case) = replay {
        replay_case(run, &wide, case);
        return;
    }
    // F = the DESIGN font set (a prefix of `wide`); parts 3 and 4 range over F only
    let n_f = wide.iter().position(|f| f.extra).unwrap_or(wide.len());
    let fonts = &wide[..n_f];
    run.bound("corpus_fonts_for_parts_1_2_3b", json!({"count": wide.len() - n_f, "glyph_cap_per_font": run.tier.pick(96, 4096), "sizes": json!(SIZE_NAMES)}));
    run.bound(
        "fonts",
        json!(fonts.iter().map(|f| json!({"name": f.name, "glyphs": f.n_glyphs, "axes": f.axes, "glyf": f.is_glyf, "selected": f.sel.len()})).collect::<Vec<_>>()),
    );
    run.bound("sizes", json!(SIZE_NAMES));
    run.bound("locations", json!(LOC_NAMES));
    run.bound("options", json!(OPT_NAMES));

    if std::env::var("C12_DEBUG_SYNTH").is_ok() {
        // development aid: print what the synthetic font shows under each interpreter configuration
        let fi = fonts.len() - 1;
        for c in configs_of(fonts, fi, true) {
            let o = if is_unhinted(c.opt) { continue } else { observe_sel(fonts, c, &make_instance(fonts, c)) };
            eprintln!("{:?} -> {:?}", c.json(fonts)["raw"], o.map(|v| v.iter().map(|o| o.brief()).collect::<Vec<_>>()));
        }
    }
    let mut timing = vec![];
    let mut t = run.elapsed();
    let mut lap = |name: &str, run: &Run| {
        let now = run.elapsed();
        timing.push(json!({"part": name, "wall_s": ((now - t) * 100.0).round() / 100.0}));
        t = now;
    };
    // development aid (cost measurements): C12_ONLY=3,4,... runs only the named parts
    let only = std::env::var("C12_ONLY").ok();
    let want = |p: &str| only.as_ref().map(|o| o.split(',').any(|x| x == p)).unwrap_or(true);
    // Part 4 is dominated by a few long single-threaded schedule searches, so it runs beside the
    // data-parallel parts 3, 1, 2, 3b, 3c, 5 (which never touch the schedule hook's thread-local state of
    // a thread that is inside a search: a search makes no rayon calls). What is enumerated, and in
    // which order within each part, does not depend on this.
    let t_join = run.elapsed();
    let (wall4, ()) = rayon::join(
        || {
            if want("4") {
                part4_schedules(run, fonts);
            }
            run.elapsed() - t_join
        },
        || {
            if want("3") {
                part3_histories(run, fonts);
                lap("3 histories", run);
            }
            if want("1") {
                part1_wellformed(run, &wide);
                lap("1 well-formedness", run);
            }
            if want("2") {
                part2_buffers(run, &wide);
                lap("2 buffers", run);
            }
            if want("3b") {
                part3b_draw_order(run, &wide);
                lap("3b draw order", run);
            }
            if want("3c") {
                part3c_buffer_reuse_across_locations(run, &wide);
                lap("3c buffer reuse across locations", run);
            }
            if want("5") {
                part5_shapes(run, &wide);
                lap("5 contour shapes and scratch sizes", run);
            }
        },
    );
    lap("(waiting for 4)", run);
    if want("4b") {
        part4b_free_running(run, fonts, None);
        lap("4b free-running (sampling)", run);
    }
    timing.push(json!({"part": "4 schedules (beside 3, 1, 2, 3b, 3c, 5)", "wall_s": (wall4 * 100.0).round() / 100.0}));
    run.extra("wall_by_part", json!(timing));
}

// =============================================================================================
// part 5 (audit): enumerated contour shapes, both path styles; scratch sizes at the allocator's bounds
// =============================================================================================

/// One glyph of the shapes font under one size: draws it unhinted in both path styles and checks
///  * FreeType style, Ok: exactly one move per stored contour (every contour has >= 1 point);
///  * HarfBuzz style, Ok: at most one move per contour, and exactly one for every contour that is not
///    a lone off-curve point (the only shape that style documents as producing nothing);
///  * both Ok, every contour starts on-curve, unscaled: the two styles emit the same commands (the
///    styles are documented to differ only in how a contour that STARTS off-curve is entered);
///  * (part 1 already checks well-formedness and repeatability, part 2 the caller buffers).
/// Returns the violations as (identity, detail).
fn shapes_case(f: &Loaded, info: &shapes::ShapeInfo, gid: u32, size: u8) -> (Vec<(String, String)>, Outcome, Outcome) {
    let mut bad = vec![];
    let c = Cfg { font: 0, size, loc: 0, opt: OPT_UNHINTED };
    let Some(gl) = f.outlines.get(GlyphId::new(gid)) else {
        return (bad, Outcome::Err("no outline".into()), Outcome::Err("no outline".into()));
    };
    let ft = draw(&gl, &How::Unhinted(size_of(c), &[], PathStyle::FreeType), None);
    let hb = draw(&gl, &How::Unhinted(size_of(c), &[], PathStyle::HarfBuzz), None);
    let n = info.contours.len();
    let lone_off = info.contours.iter().filter(|k| k.len() == 1 && k[0] != shapes::ON).count();
    let moves = |o: &Outcome| match o {
        Outcome::Ok { cmds, .. } => Some(cmds.iter().filter(|c| c.0 == 0).count()),
        _ => None,
    };
    if let Some(m) = moves(&ft) {
        if m != n {
            bad.push(("contour shapes: FreeType-style stream does not have one move per contour".to_string(), format!("{m} moves for {n} contours {:?}", info.contours)));
        }
    }
    if let Some(m) = moves(&hb) {
        if m > n || m + lone_off < n {
            bad.push(("contour shapes: HarfBuzz-style stream does not have one move per contour".to_string(), format!("{m} moves for {n} contours ({lone_off} lone off-curve points) {:?}", info.contours)));
        }
    }
    let on_start = info.contours.iter().all(|k| k[0] == shapes::ON);
    if on_start && size == 2 {
        if let (Outcome::Ok { cmds: a, .. }, Outcome::Ok { cmds: b, .. }) = (&ft, &hb) {
            if a != b {
                bad.push(("contour shapes: FreeType and HarfBuzz styles differ for contours that start on-curve".to_string(), format!("{:?}: {} vs {}", info.contours, ft.brief(), hb.brief())));
            }
        }
        if ft.is_ok() != hb.is_ok() {
            bad.push(("contour shapes: one path style fails where the other succeeds for contours that start on-curve".to_string(), format!("{:?}: {} vs {}", info.contours, ft.brief(), hb.brief())));
        }
    }
    (bad, ft, hb)
}

fn part5_shapes(run: &Run, fonts: &[Loaded]) {
    let Some(f) = fonts.iter().find(|f| f.name == shapes::NAME) else {
        run.machinery_error("the contour-shapes font is missing");
        return;
    };
    let infos = shapes::glyph_list();
    if infos.len() as u32 != f.n_glyphs || !f.is_glyf {
        run.machinery_error("the contour-shapes font does not have the constructed glyph count");
        return;
    }
    run.bound("contour_shapes", json!({"point_kinds": ["on", "off-quad"], "single_contour_lengths": [1, 2, 3, 4, 5, 6], "two_contour_lengths": [1, 2, 3], "glyphs": infos.len(), "sizes": ["8", "16", "unscaled", "7.5"], "scratch_size_targets": shapes::BUCKETS.iter().flat_map(|b| [*b, *b + 1]).collect::<Vec<_>>()}));
    let mut l = Local::new();
    let mut both_ok = 0u64;
    let mut errs = 0u64;
    for (gid, info) in infos.iter().enumerate() {
        for size in 0..N_SIZES {
            let (bad, ft, hb) = shapes_case(f, info, gid as u32, size);
            run.eval();
            run.trans(2);
            let nt = matches!(&ft, Outcome::Ok { cmds, .. } if !cmds.is_empty());
            l.add(digest_of(&("p5", gid, size, &ft, &hb)), nt);
            if ft.is_ok() && hb.is_ok() {
                both_ok += 1;
            } else {
                errs += 1;
            }
            for (id, what) in bad {
                run.violation(&id, &format!("{} gid {gid} size {}: {what}", f.name, SIZE_NAMES[size as usize]), json!({"part": "5", "gid": gid, "size": size}));
            }
        }
    }
    run.count("part5_shape_cases", infos.len() as u64 * N_SIZES as u64);
    run.count("part5_cases_both_styles_ok", both_ok);
    run.count("part5_cases_with_a_rejected_style", errs);
    // coverage evidence (not an oracle): which allocator bounds the size family really hits
    let hit: Vec<usize> = infos
        .iter()
        .enumerate()
        .filter_map(|(gid, i)| {
            let want = i.expect_size?;
            let got = f.outlines.get(GlyphId::new(gid as u32))?.draw_memory_size(Hinting::None);
            (got == want).then_some(want)
        })
        .collect();
    run.count("part5_scratch_size_targets_hit_exactly", hit.len() as u64);
    run.extra("part5_scratch_sizes_hit", json!(hit));
    merge(run, vec![l]);
    run.sample(json!({"part": "5 contour shapes", "example": {"gid": 57, "contours": infos[57].contours}}));
}

// =============================================================================================
// part 1: well-formedness and repeatability
// =============================================================================================

fn part1_wellformed(run: &Run, fonts: &[Loaded]) {
    let mut cfgs = vec![];
    for fi in 0..fonts.len() {
        cfgs.extend(configs_of(fonts, fi, true));
    }
    run.count("part1_configurations", cfgs.len() as u64);
    let locals: Vec<Local> = cfgs
        .par_iter()
        .map(|&c| {
            let mut l = Local::new();
            let f = &fonts[c.font as usize];
            let coords = coords_of(f, c.loc);
            let inst = if is_unhinted(c.opt) { None } else { Some(make_instance(fonts, c)) };
            if let Some(Err(_)) = &inst {
                run.count("part1_instance_errors", 1);
                return l;
            }
            let mut draws = 0u64;
            for gid in 0..glyph_limit(f) {
                let Some(gl) = f.outlines.get(GlyphId::new(gid)) else { continue };
                let how = match &inst {
                    Some(Ok(i)) => How::Hinted(i),
                    _ => How::Unhinted(size_of(c), &coords, style_of(c.opt)),
                };
                let a = draw(&gl, &how, None);
                let b = draw(&gl, &how, None);
                draws += 2;
                let nt = matches!(&a, Outcome::Ok { cmds, .. } if !cmds.is_empty());
                l.add(digest_of(&("p1", c, gid, &a)), nt);
                if a != b {
                    run.violation(
                        &format!("OutlineGlyph::draw not repeatable ({}, {})", if f.is_glyf { "glyf" } else { "cff" }, OPT_NAMES[c.opt as usize]),
                        &format!("{} gid {gid}: first {} second {}", f.name, a.brief(), b.brief()),
                        json!({"part": 1, "cfg": c.json(fonts), "gid": gid}),
                    );
                }
                // (audit) one move and one close per stored contour: the number of contours is counted
                // from the raw glyf data (component tree summed). Checked where hinting cannot
                // change the contour structure: unhinted FreeType style and the interpreter.
                if f.is_glyf && (c.opt == OPT_UNHINTED || (!is_unhinted(c.opt) && !is_auto(c.opt) && c.opt != 5)) {
                    if let (Outcome::Ok { cmds, .. }, Some(Some(want))) = (&a, f.raw_contours.get(gid as usize)) {
                        let moves = cmds.iter().filter(|c| c.0 == 0).count();
                        run.count("part1_contour_count_checks", 1);
                        if moves != *want {
                            run.violation(
                                &format!("pen stream has {} contours than the glyph data ({})", if moves < *want { "fewer" } else { "more" }, OPT_NAMES[c.opt as usize].split('/').next().unwrap()),
                                &format!("{} gid {gid} under {}: {moves} move_to for {want} stored contours", f.name, c.json(fonts)),
                                json!({"part": 1, "cfg": c.json(fonts), "gid": gid}),
                            );
                        }
                    }
                }
                // (audit) pedantic draws: repeatable and, when successful, well formed
                if let (Some(Ok(i)), false) = (&inst, is_auto(c.opt)) {
                    let pa = draw(&gl, &How::HintedPedantic(i), None);
                    let pb = draw(&gl, &How::HintedPedantic(i), None);
                    draws += 2;
                    l.add(digest_of(&("p1p", c, gid, &pa)), matches!(&pa, Outcome::Ok { cmds, .. } if !cmds.is_empty()));
                    if pa != pb {
                        run.violation(
                            &format!("OutlineGlyph::draw not repeatable ({}, {}, pedantic)", if f.is_glyf { "glyf" } else { "cff" }, OPT_NAMES[c.opt as usize]),
                            &format!("{} gid {gid}: first {} second {}", f.name, pa.brief(), pb.brief()),
                            json!({"part": 1, "cfg": c.json(fonts), "gid": gid, "pedantic": true}),
                        );
                    }
                    if let (true, Outcome::Ok { cmds, .. }) = (f.is_glyf, &pa) {
                        if let Err(w) = well_formed(cmds) {
                            run.violation(
                                &format!("ill-formed pen stream for a TrueType outline ({}, pedantic): {}", OPT_NAMES[c.opt as usize], w.split(" at command").next().unwrap_or("")),
                                &format!("{} gid {gid} under {}: {w}", f.name, c.json(fonts)),
                                json!({"part": 1, "cfg": c.json(fonts), "gid": gid, "pedantic": true}),
                            );
                        }
                    }
                }
                if let Some(Ok(i)) = &inst {
                    // hinted drawing with the HarfBuzz path style is documented to be rejected
                    for _ in 0..2 {
                        let h = draw(&gl, &How::HintedHarfBuzz(i), None);
                        draws += 1;
                        if h != Outcome::Err("HarfBuzzHintingUnsupported".into()) {
                            run.violation(
                                &format!("hinted draw with HarfBuzz path style is not rejected with HarfBuzzHintingUnsupported ({})", OPT_NAMES[c.opt as usize]),
                                &format!("{} gid {gid} under {}: {}", f.name, c.json(fonts), h.brief()),
                                json!({"part": "1h", "cfg": c.json(fonts), "gid": gid}),
                            );
                        }
                    }
                }
                if f.is_glyf {
                    if let Outcome::Ok { cmds, .. } = &a {
                        if let Err(w) = well_formed(cmds) {
                            run.violation(
                                &format!("ill-formed pen stream for a TrueType outline ({}): {}", OPT_NAMES[c.opt as usize], w.split(" at command").next().unwrap_or("")),
                                &format!("{} gid {gid} under {}: {w}", f.name, c.json(fonts)),
                                json!({"part": 1, "cfg": c.json(fonts), "gid": gid}),
                            );
                        }
                    }
                }
            }
            run.evals(draws / 2);
            run.trans(draws);
            run.count("part1_draws", draws);
            l
        })
        .collect();
    merge(run, locals);
    let c0 = cfgs[cfgs.len() / 2];
    run.sample(json!({"part": "1 well-formedness/repeatability", "example_configuration": c0.json(fonts)}));
}

// =============================================================================================
// part 2: caller buffers and zero location
// =============================================================================================

fn with_aligned<R>(size: usize, align: usize, fill: u8, f: impl FnOnce(&mut [u8]) -> R) -> R {
    let mut buf = vec![fill; size + 16];
    let base = buf.as_ptr() as usize;
    let off = (align + 8 - base % 8) % 8;
    debug_assert_eq!((base + off) % 8, align);
    f(&mut buf[off..off + size])
}

fn part2_buffers(run: &Run, fonts: &[Loaded]) {
    // (a) caller memory: glyf fonts, options that can use the interpreter or no hinting
    let mut cfgs = vec![];
    for fi in 0..fonts.len() {
        if !fonts[fi].is_glyf {
            continue;
        }
        for c in configs_of(fonts, fi, true) {
            if is_auto(c.opt) {
                continue; // Auto ignores caller memory entirely (no buffer carved)
            }
            if c.loc == 1 {
                continue; // the zero vector is compared separately below
            }
            if c.opt == 8 || c.opt == 9 {
                continue; // differ from option 1 in target flags only, which the carving never sees
            }
            cfgs.push(c);
        }
    }
    run.count("part2_buffer_configurations", cfgs.len() as u64);
    run.bound("buffer_alignments", json!([0, 1, 2, 3, 4, 5, 6, 7]));
    run.bound("buffer_fills", json!(["00", "ff", "5a"]));
    let locals: Vec<Local> = cfgs
        .par_iter()
        .map(|&c| {
            let mut l = Local::new();
            let f = &fonts[c.font as usize];
            let coords = coords_of(f, c.loc);
            let inst = if is_unhinted(c.opt) { None } else { Some(make_instance(fonts, c)) };
            if let Some(Err(_)) = &inst {
                return l;
            }
            let hinting = if is_unhinted(c.opt) { Hinting::None } else { Hinting::Embedded };
            let mut draws = 0u64;
            for gid in 0..glyph_limit(f) {
                let Some(gl) = f.outlines.get(GlyphId::new(gid)) else { continue };
              // (audit) hinted draws are made with is_pedantic false and true
              for pedantic in [false, true] {
                let how = match &inst {
                    Some(Ok(i)) if pedantic => How::HintedPedantic(i),
                    Some(Ok(i)) => How::Hinted(i),
                    _ if pedantic => continue,
                    _ => How::Unhinted(size_of(c), &coords, style_of(c.opt)),
                };
                let reference = draw(&gl, &how, None);
                let size = gl.draw_memory_size(hinting);
                let nt = matches!(&reference, Outcome::Ok { cmds, .. } if !cmds.is_empty());
                for align in 0..8usize {
                    for fill in [0u8, 0xFF, 0x5A] {
                        // pedantic: addresses ≡ 1 and 4 (mod 8), fills FF and 5A
                        if pedantic && !((align == 1 || align == 4) && fill != 0) {
                            continue;
                        }
                        let got = with_aligned(size, align, fill, |m| draw(&gl, &how, Some(m)));
                        draws += 1;
                        l.add(digest_of(&("p2", c, gid, align, fill, pedantic, &got)), nt);
                        if got != reference {
                            let class = match (&reference, &got) {
                                (Outcome::Ok { .. }, Outcome::Ok { .. }) => "different stream/metrics".to_string(),
                                (Outcome::Ok { .. }, Outcome::Err(e)) => format!("fails with {}", e.split('(').next().unwrap_or("")),
                                (Outcome::Err(e), Outcome::Ok { .. }) if e.starts_with("panic") => "library-allocated draw panics where caller memory succeeds".to_string(),
                                (Outcome::Err(_), _) => "differs from failing reference".to_string(),
                            };
                            run.violation(
                                &if class.starts_with("fails") {
                                    format!("draw with caller memory of draw_memory_size at address ≡ {} (mod 4) ({}): {class}", align % 4, OPT_NAMES[c.opt as usize].split('/').next().unwrap())
                                } else {
                                    format!("draw with caller memory of draw_memory_size ({}): {class}", OPT_NAMES[c.opt as usize].split('/').next().unwrap())
                                },
                                &format!("{} gid {gid} {}: buffer of {size} bytes at address ≡ {align} (mod 8) filled {fill:02x}: {} vs library-allocated {}", f.name, c.json(fonts), got.brief(), reference.brief()),
                                json!({"part": 2, "cfg": c.json(fonts), "gid": gid, "align": align, "fill": fill, "pedantic": pedantic}),
                            );
                        }
                    }
                }
              }
            }
            run.evals(draws);
            run.trans(draws);
            run.count("part2_buffer_draws", draws);
            l
        })
        .collect();
    merge(run, locals);

    // (b) None vs all-zero location: variable fonts, all options incl. unhinted, all sizes, all glyphs
    let mut zcfgs = vec![];
    for fi in 0..fonts.len() {
        if fonts[fi].axes == 0 {
            continue;
        }
        for c in configs_of(fonts, fi, true) {
            if c.loc == 1 {
                zcfgs.push(c);
            }
        }
    }
    let locals: Vec<Local> = zcfgs
        .par_iter()
        .map(|&cz| {
            let mut l = Local::new();
            let f = &fonts[cz.font as usize];
            let cn = Cfg { loc: 0, ..cz };
            let mut n = 0u64;
            // (audit) an all-zero vector of the axis count, and also a shorter (1) and a longer
            // (axes + 1) one: "all-zero location" does not depend on the length
            let mut lens = vec![f.axes];
            if cz.size == 1 {
                // the other lengths at one size (the decision does not involve the size)
                if f.axes > 1 {
                    lens.push(1);
                }
                lens.push(f.axes + 1);
            }
            let inn = if is_unhinted(cz.opt) { None } else { Some(make_instance(fonts, cn)) };
            for zlen in lens {
                let zero = vec![F2Dot14::ZERO; zlen];
                let other = if zlen == f.axes { "" } else { " of another length" };
                let iz = if is_unhinted(cz.opt) { None } else { Some(make_instance_at(fonts, cz, &zero)) };
                match (&iz, &inn) {
                    (Some(Err(a)), Some(Err(b))) if a == b => continue,
                    (Some(Err(_)), _) | (_, Some(Err(_))) => {
                        run.violation(
                            &format!("HintingInstance::new differs between None and all-zero location{other} ({})", OPT_NAMES[cz.opt as usize]),
                            &format!("{}: {} zero vector of length {zlen}", f.name, cz.json(fonts)),
                            json!({"part": "2z", "cfg": cz.json(fonts), "gid": 0, "zlen": zlen}),
                        );
                        continue;
                    }
                    _ => {}
                }
                for gid in 0..glyph_limit(f) {
                    let Some(gl) = f.outlines.get(GlyphId::new(gid)) else { continue };
                    let (a, b) = match (&iz, &inn) {
                        (Some(Ok(z)), Some(Ok(nn))) => (draw(&gl, &How::Hinted(z), None), draw(&gl, &How::Hinted(nn), None)),
                        _ => (draw(&gl, &How::Unhinted(size_of(cz), &zero, style_of(cz.opt)), None), draw(&gl, &How::Unhinted(size_of(cz), &[], style_of(cz.opt)), None)),
                    };
                    n += 1;
                    let nt = matches!(&b, Outcome::Ok { cmds, .. } if !cmds.is_empty());
                    l.add(digest_of(&("p2z", cz, gid, zlen, &a)), nt);
                    if a != b {
                        run.violation(
                            &format!("draw differs between None and all-zero location{other} ({})", OPT_NAMES[cz.opt as usize]),
                            &format!("{} gid {gid} {}: zero-vector (length {zlen}) {} vs none {}", f.name, cz.json(fonts), a.brief(), b.brief()),
                            json!({"part": "2z", "cfg": cz.json(fonts), "gid": gid, "zlen": zlen}),
                        );
                    }
                }
            }
            run.evals(n);
            run.trans(2 * n);
            run.count("part2_zero_location_comparisons", n);
            l
        })
        .collect();
    merge(run, locals);
    run.sample(json!({"part": "2 buffers", "example": {"cfg": cfgs[cfgs.len() / 3].json(fonts), "alignments": 8, "fills": 2}}));
}

// =============================================================================================
// part 3: reconfigure histories
// =============================================================================================

fn part3_histories(run: &Run, fonts: &[Loaded]) {
    let mut k: Vec<Cfg> = vec![];
    for fi in 0..fonts.len() {
        k.extend(k_configs_of(fonts, fi, run.tier == Tier::Thorough));
    }
    run.bound("K_size", json!(k.len()));
    // fresh references, one per configuration
    let fresh: Vec<Obs> = k.par_iter().map(|&c| observe_sel(fonts, c, &make_instance(fonts, c))).collect();
    let fresh_ok = fresh.iter().filter(|o| o.is_ok()).count();
    run.count("part3_configurations_with_fresh_instance", fresh_ok as u64);
    // distinct fresh observations (vacuity indicator: reconfigure must matter)
    let distinct_fresh: HashSet<u64> = fresh.iter().map(digest_of).collect();
    run.extra("part3_distinct_fresh_observations", json!(distinct_fresh.len()));

    // ---- all ordered pairs a -> b -----------------------------------------------------------
    // history: new(a); draw one glyph of a; reconfigure(b); draw the selected glyphs of b
    let nk = k.len();
    let locals: Vec<Local> = (0..nk * nk)
        .into_par_iter()
        .fold(Local::new, |mut l, idx| {
            let (ai, bi) = (idx / nk, idx % nk);
            let (a, b) = (k[ai], k[bi]);
            let fa = &fonts[a.font as usize];
            let mut inst = match make_instance(fonts, a) {
                Ok(i) => i,
                // a cannot be instantiated: start from the empty instance instead
                Err(_) => HintingInstance::new(&fa.outlines, Size::unscaled(), LocationRef::default(), options_of(5)).unwrap(),
            };
            // dirty whatever a draw can dirty
            if let Some(gl) = fa.outlines.get(*fa.sel.last().unwrap()) {
                let _ = draw(&gl, &How::Hinted(&inst), None);
            }
            let r = reconfigure(fonts, &mut inst, b);
            let got = observe_sel(fonts, b, &r.map(|_| inst));
            let nt = matches!(&fresh[bi], Ok(v) if v.iter().any(|o| matches!(o, Outcome::Ok{cmds,..} if !cmds.is_empty())));
            l.add(digest_of(&("p3", a, b, &got)), nt && a != b);
            if got != fresh[bi] {
                report_history(run, fonts, &[a, b], &first_diff(&got, &fresh[bi]), false);
            }
            run.eval();
            run.trans(2 + fonts[b.font as usize].sel.len() as u64);
            l
        })
        .collect();
    run.count("part3_ordered_pairs", (nk * nk) as u64);
    merge(run, locals);
    run.sample(json!({"part": "3 histories", "example_pair": [k[1].json(fonts), k[k.len() - 2].json(fonts)], "pairs": k.len() * k.len()}));

    // ---- thorough: all triples over a sub-alphabet, with clone() ------------------------------
    if run.tier == Tier::Thorough {
        // K': per font, sizes {8 or 16 alternating, unscaled}, default + non-default location,
        // three option families rotating over fonts so that every engine × format × scaled/unscaled ×
        // default/non-default location occurs
        let mut kp: Vec<usize> = vec![];
        for (i, c) in k.iter().enumerate() {
            let fi = c.font as usize;
            let want_size = c.size == 2 || c.size == (fi % 2) as u8;
            let want_loc = c.loc == 0 || c.loc == 2;
            let want_opt = c.opt == (fi % 3) as u8 || c.opt == 3 + (fi % 3) as u8;
            if want_size && want_loc && want_opt && (c.size != 2 || c.opt % 3 == (fi % 3) as u8) {
                kp.push(i);
            }
        }
        // thin to ≤ 48 keeping a fixed stride
        while kp.len() > 48 {
            let drop: Vec<usize> = kp.iter().copied().skip(3).step_by(4).collect();
            kp.retain(|x| !drop.contains(x));
        }
        run.bound("K_prime", json!(kp.iter().map(|i| k[*i].json(fonts)["raw"].clone()).collect::<Vec<_>>()));
        let n_kp = kp.len();
        let pairs: Vec<(usize, usize)> = kp.iter().flat_map(|a| kp.iter().map(move |b| (*a, *b))).collect();
        let locals: Vec<Local> = pairs
            .par_iter()
            .map(|&(ai, bi)| {
                let mut l = Local::new();
                let (a, b) = (k[ai], k[bi]);
                let Ok(mut ab) = make_instance(fonts, a) else { return l };
                let rb = reconfigure(fonts, &mut ab, b);
                let mut n = 0u64;
                for &ci in &kp {
                    let c = k[ci];
                    // literal triple: new(a), reconfigure(b), reconfigure(c)
                    let mut lit = match make_instance(fonts, a) {
                        Ok(i) => i,
                        Err(_) => continue,
                    };
                    let _ = reconfigure(fonts, &mut lit, b);
                    let r = reconfigure(fonts, &mut lit, c);
                    let got = observe_sel(fonts, c, &r.map(|_| lit));
                    n += 1;
                    l.add(digest_of(&("p3t", a, b, c, &got)), fresh[ci].is_ok());
                    if got != fresh[ci] {
                        report_history(run, fonts, &[a, b, c], &first_diff(&got, &fresh[ci]), false);
                    }
                    // clone as a fourth operation: clone the a->b instance, reconfigure the clone to c
                    let mut cl = ab.clone();
                    let r = reconfigure(fonts, &mut cl, c);
                    let got = observe_sel(fonts, c, &r.map(|_| cl));
                    n += 1;
                    l.add(digest_of(&("p3c", a, b, c, &got)), fresh[ci].is_ok());
                    if got != fresh[ci] {
                        report_history(run, fonts, &[a, b, c], &first_diff(&got, &fresh[ci]), true);
                    }
                }
                // the instance that was cloned from is undisturbed
                let got = observe_sel(fonts, b, &rb.map(|_| ab));
                if got != fresh[bi] {
                    report_history(run, fonts, &[a, b], &format!("after being cloned {} times: {}", n_kp, first_diff(&got, &fresh[bi])), true);
                }
                run.evals(n);
                run.trans(n * 4);
                run.count("part3_triples_literal_plus_cloned", n);
                l
            })
            .collect();
        merge(run, locals);
    }
}

fn report_history(run: &Run, fonts: &[Loaded], h: &[Cfg], diff: &str, cloned: bool) {
    let last = h[h.len() - 1];
    let prev = h[h.len() - 2];
    let fmt = |c: Cfg| if fonts[c.font as usize].is_glyf { "glyf" } else { "cff" };
    let engine = |c: Cfg| OPT_NAMES[c.opt as usize].split('/').next().unwrap();
    run.violation(
        &format!(
            "HintingInstance::reconfigure{} leaks history: draws for ({}, {}) after a {} configuration{}",
            if cloned { "+clone" } else { "" },
            fmt(last),
            engine(last),
            fmt(prev),
            if last.font == prev.font { " of the same font" } else { "" }
        ),
        &format!("history {}: {diff}", serde_json::to_string(&h.iter().map(|c| c.json(fonts)["raw"].clone()).collect::<Vec<_>>()).unwrap()),
        json!({"part": 3, "history": h.iter().map(|c| c.json(fonts)).collect::<Vec<_>>(), "cloned": cloned}),
    );
}

// =============================================================================================
// part 3b: draw-order histories through one instance and one dirty caller buffer
// =============================================================================================

fn part3b_draw_order(run: &Run, fonts: &[Loaded]) {
    let max_glyphs = run.tier.pick(40u32, 64u32);
    run.bound("draw_order_max_glyphs_per_font", json!(max_glyphs));
    let mut cfgs = vec![];
    for (fi, f) in fonts.iter().enumerate() {
        let opts: &[u8] = if f.extra { &[1, OPT_UNHINTED, OPT_UNHINTED_HB] } else { &[0, 1, 3, 5, OPT_UNHINTED, OPT_UNHINTED_HB] };
        for &opt in opts {
            for loc in if f.axes > 0 { vec![0u8, 2] } else { vec![0u8] } {
                cfgs.push(Cfg { font: fi as u8, size: 1, loc, opt });
            }
        }
    }
    let locals: Vec<Local> = cfgs
        .par_iter()
        .map(|&c| {
            let mut l = Local::new();
            let f = &fonts[c.font as usize];
            let coords = coords_of(f, c.loc);
            let inst = if is_unhinted(c.opt) { None } else { Some(make_instance(fonts, c)) };
            if let Some(Err(_)) = &inst {
                return l;
            }
            let hinting = if is_unhinted(c.opt) { Hinting::None } else { Hinting::Embedded };
            let how = match &inst {
                Some(Ok(i)) => How::Hinted(i),
                _ => How::Unhinted(size_of(c), &coords, style_of(c.opt)),
            };
            let n = f.n_glyphs.min(max_glyphs);
            let glyphs: Vec<(u32, OutlineGlyph)> = (0..n).filter_map(|g| f.outlines.get(GlyphId::new(g)).map(|gl| (g, gl))).collect();
            let alone: Vec<Outcome> = glyphs.iter().map(|(_, gl)| draw(gl, &how, None)).collect();
            let maxsize = glyphs.iter().map(|(_, gl)| gl.draw_memory_size(hinting)).max().unwrap_or(0);
            let mut buf = vec![0u8; maxsize + 8];
            let off = (8 - buf.as_ptr() as usize % 8) % 8;
            let mut cnt = 0u64;
            for (ia, (ga, gla)) in glyphs.iter().enumerate() {
                for (ib, (gb, glb)) in glyphs.iter().enumerate() {
                    // a then b through the same instance, reusing the same (now dirty) buffer
                    let sa = gla.draw_memory_size(hinting);
                    let sb = glb.draw_memory_size(hinting);
                    let _ = draw(gla, &how, Some(&mut buf[off..off + sa]));
                    let got = draw(glb, &how, Some(&mut buf[off..off + sb]));
                    cnt += 1;
                    let nt = matches!(&alone[ib], Outcome::Ok { cmds, .. } if !cmds.is_empty()) && ia != ib;
                    l.add(digest_of(&("p3b", c, ga, gb, &got)), nt);
                    if got != alone[ib] {
                        run.violation(
                            &format!("draw depends on the glyph drawn before ({}, {})", if f.is_glyf { "glyf" } else { "cff" }, OPT_NAMES[c.opt as usize]),
                            &format!("{} {}: gid {gb} after gid {ga}: {} vs alone {}", f.name, c.json(fonts), got.brief(), alone[ib].brief()),
                            json!({"part": "3b", "cfg": c.json(fonts), "gid": gb, "before": ga}),
                        );
                    }
                }
            }
            run.evals(cnt);
            run.trans(2 * cnt);
            run.count("part3b_ordered_glyph_pairs", cnt);
            l
        })
        .collect();
    merge(run, locals);
}

// =============================================================================================
// part 3c: one caller buffer reused across draws at DIFFERENT locations / sizes
// =============================================================================================

fn reuse_label(opt: u8) -> String {
    match opt {
        OPT_UNHINTED => "FreeType path style".into(),
        OPT_UNHINTED_HB => "HarfBuzz path style".into(),
        o => format!("hinted {}", OPT_NAMES[o as usize].split('/').next().unwrap()),
    }
}

/// History: draw glyph a under (size1, location1) into a caller buffer; then — for hinted options
/// after reconfiguring the SAME HintingInstance — draw glyph b under (size2, location2) into the same,
/// now dirty, buffer. Oracle: the second draw equals the draw of b under (size2, location2) with
/// library-allocated memory (and a fresh instance). Enumerated: variable fonts × options {unhinted
/// FreeType style, unhinted HarfBuzz style, Interpreter/Mono, Interpreter/Smooth, AutoFallback} ×
/// all ordered pairs of distinct (size, location) ∈ {8,16,unscaled} × {none, zero, non-default} ×
/// glyph a ∈ first A glyphs × glyph b ∈ first B glyphs.
fn one_reuse_history(fonts: &[Loaded], c1: Cfg, c2: Cfg, ga: u32, buf: &mut [u8], off: usize) -> Option<Result<HintingInstance, String>> {
    // performs the first half (draw a under c1, then reconfigure to c2); leaves `buf` dirty
    let f = &fonts[c1.font as usize];
    let gla = f.outlines.get(GlyphId::new(ga))?;
    let coords1 = coords_of(f, c1.loc);
    if is_unhinted(c1.opt) {
        let sa = gla.draw_memory_size(Hinting::None);
        let _ = draw(&gla, &How::Unhinted(size_of(c1), &coords1, style_of(c1.opt)), Some(&mut buf[off..off + sa]));
        None
    } else {
        let sa = gla.draw_memory_size(Hinting::Embedded);
        let mut inst = match make_instance(fonts, c1) {
            Ok(i) => i,
            Err(e) => return Some(Err(e)),
        };
        let _ = draw(&gla, &How::Hinted(&inst), Some(&mut buf[off..off + sa]));
        Some(reconfigure(fonts, &mut inst, c2).map(|_| inst))
    }
}

fn part3c_buffer_reuse_across_locations(run: &Run, fonts: &[Loaded]) {
    let (na, nb) = run.tier.pick((12u32, 40u32), (32u32, 128u32));
    run.bound("buffer_reuse_across_locations", json!({"glyphs_a": na, "glyphs_b": nb, "options": ["Unhinted", "Unhinted-HarfBuzz", "Interpreter/Mono", "Interpreter/Smooth-Normal", "AutoFallback/default"], "sizes_x_locations": 9}));
    // tasks: (font, option, first configuration)
    let mut tasks: Vec<Cfg> = vec![];
    for (fi, f) in fonts.iter().enumerate() {
        if f.axes == 0 {
            continue;
        }
        for opt in [OPT_UNHINTED, OPT_UNHINTED_HB, 0, 1, 5] {
            if !is_unhinted(opt) && !f.is_glyf {
                continue; // caller memory is only used for glyf outlines
            }
            for size in 0..3u8 {
                for loc in 0..3u8 {
                    tasks.push(Cfg { font: fi as u8, size, loc, opt });
                }
            }
        }
    }
    let locals: Vec<Local> = tasks
        .par_iter()
        .map(|&c1| {
            let mut l = Local::new();
            let f = &fonts[c1.font as usize];
            let hinting = if is_unhinted(c1.opt) { Hinting::None } else { Hinting::Embedded };
            let glyphs: Vec<(u32, OutlineGlyph)> = (0..f.n_glyphs.min(nb)).filter_map(|g| f.outlines.get(GlyphId::new(g)).map(|gl| (g, gl))).collect();
            let maxsize = glyphs.iter().map(|(_, gl)| gl.draw_memory_size(hinting)).max().unwrap_or(0);
            let mut buf = vec![0u8; maxsize + 8];
            let off = (8 - buf.as_ptr() as usize % 8) % 8;
            let mut snapshot = vec![0u8; buf.len()];
            let mut cnt = 0u64;
            for size2 in 0..3u8 {
                for loc2 in 0..3u8 {
                    let c2 = Cfg { size: size2, loc: loc2, ..c1 };
                    if c2 == c1 {
                        continue; // same configuration: that is part 3b
                    }
                    let coords2 = coords_of(f, c2.loc);
                    // references for b under c2: fresh instance, library-allocated memory
                    let fresh_inst = if is_unhinted(c2.opt) { None } else { Some(make_instance(fonts, c2)) };
                    let reference: Vec<Outcome> = glyphs
                        .iter()
                        .map(|(_, gl)| match &fresh_inst {
                            None => draw(gl, &How::Unhinted(size_of(c2), &coords2, style_of(c2.opt)), None),
                            Some(Ok(i)) => draw(gl, &How::Hinted(i), None),
                            Some(Err(e)) => Outcome::Err(e.clone()),
                        })
                        .collect();
                    for (ga, _) in glyphs.iter().take(na as usize) {
                        buf.fill(0);
                        let reused = one_reuse_history(fonts, c1, c2, *ga, &mut buf, off);
                        snapshot.copy_from_slice(&buf);
                        for (ib, (gb, glb)) in glyphs.iter().enumerate() {
                            // restore the buffer to exactly its content after the first draw
                            buf.copy_from_slice(&snapshot);
                            let sb = glb.draw_memory_size(hinting);
                            let got = match &reused {
                                None => draw(glb, &How::Unhinted(size_of(c2), &coords2, style_of(c2.opt)), Some(&mut buf[off..off + sb])),
                                Some(Ok(i)) => draw(glb, &How::Hinted(i), Some(&mut buf[off..off + sb])),
                                Some(Err(e)) => Outcome::Err(e.clone()),
                            };
                            cnt += 1;
                            let nt = matches!(&reference[ib], Outcome::Ok { cmds, .. } if !cmds.is_empty());
                            l.add(digest_of(&("p3c", c1, c2, ga, gb, &got)), nt);
                            if got != reference[ib] {
                                let class = if got.is_ok() || !reference[ib].is_ok() { "different stream" } else { "failure" };
                                run.violation(
                                    &format!("draw with reused caller memory ({}): {class} after a draw at another location", reuse_label(c1.opt)),
                                    &format!("{}: gid {ga} under {} then gid {gb} under {} through one caller buffer: {} vs fresh-buffer draw {}", f.name, c1.json(fonts), c2.json(fonts), got.brief(), reference[ib].brief()),
                                    json!({"part": "3c", "cfg": c1.json(fonts), "cfg2": c2.json(fonts), "before": ga, "gid": gb}),
                                );
                            }
                        }
                    }
                }
            }
            run.evals(cnt);
            run.trans(2 * cnt);
            run.count("part3c_reuse_histories", cnt);
            l
        })
        .collect();
    merge(run, locals);
    if let Some(t) = tasks.get(tasks.len() / 2) {
        run.sample(json!({"part": "3c buffer reuse across locations", "first_configuration": t.json(fonts), "second": "every other (size, location) of the same font and option"}));
    }
}

// =============================================================================================
// part 4: schedules
// =============================================================================================

#[derive(Clone)]
struct SchedJob {
    font: usize,
    glyphs: Vec<u32>,
    opt: u8, // 3 or 4
    size: u8,
}

struct SchedResult {
    schedules: u64,
    yields: u64,
    /// histogram: (metrics computations in the execution − computations of the sequential run)
    excess: BTreeMap<u32, u64>,
    mismatch: Option<String>,
}

fn run_sched(fonts: &'static [Loaded], styles: &GlyphStyles, job: &SchedJob, max_schedules: Option<usize>) -> Result<SchedResult, String> {
    let f = &fonts[job.font];
    let size = if job.size == 2 { Size::unscaled() } else if job.size == 0 { Size::new(8.0) } else { Size::new(16.0) };
    let target = options_of(job.opt).target;
    let mk = {
        let styles = styles.clone();
        move || HintingInstance::new(&f.outlines, size, LocationRef::default(), HintingOptions { engine: Engine::Auto(Some(styles.clone())), target })
    };
    // references: each glyph alone through a fresh instance
    let mut refs = vec![];
    for g in &job.glyphs {
        let inst = mk().map_err(|e| format!("{e:?}"))?;
        let gl = f.outlines.get(GlyphId::new(*g)).ok_or("no outline")?;
        refs.push(draw(&gl, &How::Hinted(&inst), None));
    }
    // sequential baseline of the computation count: all glyphs through one instance
    COMPUTES.with(|c| c.set(0));
    {
        let inst = mk().map_err(|e| format!("{e:?}"))?;
        for (t, g) in job.glyphs.iter().enumerate() {
            let gl = f.outlines.get(GlyphId::new(*g)).unwrap();
            let o = draw(&gl, &How::Hinted(&inst), None);
            if o != refs[t] {
                return Ok(SchedResult { schedules: 0, yields: 0, excess: BTreeMap::new(), mismatch: Some(format!("sequential draw of gid {g} through a shared instance: {} vs fresh {}", o.brief(), refs[t].brief())) });
            }
        }
    }
    let seq_computes = COMPUTES.with(|c| c.get());
    let refs = Arc::new(refs);
    let acc: Arc<Mutex<(BTreeMap<u32, u64>, Option<String>, u64)>> = Arc::new(Mutex::new((BTreeMap::new(), None, 0)));
    let mut config = shuttle::Config::new();
    config.stack_size = 1 << 21;
    config.failure_persistence = shuttle::FailurePersistence::None;
    config.max_steps = shuttle::MaxSteps::None;
    let runner = shuttle::Runner::new(shuttle::scheduler::DfsScheduler::new(max_schedules, false), config);
    let glyphs = job.glyphs.clone();
    let acc2 = acc.clone();
    IN_SHUTTLE.with(|c| c.set(true));
    YIELDS.with(|c| c.set(0));
    let n = runner.run(move || {
        COMPUTES.with(|c| c.set(0));
        let inst = Arc::new(mk().unwrap());
        // the main shuttle thread draws glyph 0 itself after spawning the others
        let mut hs = vec![];
        for (t, g) in glyphs.iter().enumerate().skip(1) {
            let inst = inst.clone();
            let refs = refs.clone();
            let g = *g;
            hs.push(shuttle::thread::spawn(move || {
                let gl = f.outlines.get(GlyphId::new(g)).unwrap();
                let o = draw(&gl, &How::Hinted(&inst), None);
                if o == refs[t] { None } else { Some(format!("thread {t} gid {g}: {} vs sequential reference {}", o.brief(), refs[t].brief())) }
            }));
        }
        let gl = f.outlines.get(GlyphId::new(glyphs[0])).unwrap();
        let o = draw(&gl, &How::Hinted(&inst), None);
        let mut bad = if o == refs[0] { None } else { Some(format!("thread 0 gid {}: {} vs sequential reference {}", glyphs[0], o.brief(), refs[0].brief())) };
        for h in hs {
            if let Some(b) = h.join().unwrap() {
                bad = Some(b);
            }
        }
        let comp = COMPUTES.with(|c| c.get());
        let mut a = acc2.lock().unwrap();
        *a.0.entry(comp.saturating_sub(seq_computes)).or_insert(0) += 1;
        if bad.is_some() && a.1.is_none() {
            a.1 = bad;
        }
        if comp < seq_computes {
            a.2 += 1;
        }
    });
    IN_SHUTTLE.with(|c| c.set(false));
    let yields = YIELDS.with(|c| c.get());
    let a = acc.lock().unwrap();
    if a.2 > 0 {
        return Err(format!("{} executions computed fewer metrics than the sequential run", a.2));
    }
    Ok(SchedResult { schedules: n as u64, yields, excess: a.0.clone(), mismatch: a.1.clone() })
}

fn part4_schedules(run: &Run, fonts: &[Loaded]) {
    // SAFETY of lifetime: fonts live until process exit (body never returns before exit in main_for);
    // shuttle requires 'static closures.
    let fonts: &'static [Loaded] = unsafe { std::mem::transmute::<&[Loaded], &'static [Loaded]>(fonts) };
    let sched_fonts: Vec<usize> = fonts
        .iter()
        .enumerate()
        .filter(|(_, f)| f.name.contains("autohint_metrics"))
        .map(|(i, _)| i)
        .collect();
    let max_g = run.tier.pick(20u32, 64u32);
    let mut jobs: Vec<SchedJob> = vec![];
    for &fi in &sched_fonts {
        let n = fonts[fi].n_glyphs.min(max_g);
        // 2 threads: all unordered glyph pairs (incl. the same glyph twice)
        for a in 0..n {
            for b in a..n {
                jobs.push(SchedJob { font: fi, glyphs: vec![a, b], opt: 3, size: 1 });
            }
        }
    }
    // 3 threads. Style classes are not public, so glyphs are classified by observation: two glyphs
    // share a style's metrics slot iff drawing both through one fresh instance computes metrics once.
    let styles: BTreeMap<usize, GlyphStyles> = sched_fonts.iter().map(|&fi| (fi, GlyphStyles::new(&fonts[fi].outlines))).collect();
    let mut triple_report = vec![];
    for &fi in &sched_fonts {
        let f = &fonts[fi];
        let n = f.n_glyphs.min(max_g);
        let mut classes: Vec<Vec<u32>> = vec![];
        for g in 0..n {
            let Some(gl) = f.outlines.get(GlyphId::new(g)) else { continue };
            let mut placed = false;
            for cl in classes.iter_mut() {
                let inst = HintingInstance::new(&f.outlines, Size::new(16.0), LocationRef::default(), HintingOptions { engine: Engine::Auto(Some(styles[&fi].clone())), target: Target::default() }).unwrap();
                COMPUTES.with(|c| c.set(0));
                let rep = f.outlines.get(GlyphId::new(cl[0])).unwrap();
                let _ = draw(&rep, &How::Hinted(&inst), None);
                let _ = draw(&gl, &How::Hinted(&inst), None);
                if COMPUTES.with(|c| c.get()) <= 1 {
                    cl.push(g);
                    placed = true;
                    break;
                }
            }
            if !placed {
                classes.push(vec![g]);
            }
        }
        // largest class first (stable), so that the primary triple races on a widely shared slot
        classes.sort_by_key(|c| std::cmp::Reverse(c.len()));
        let mut triples: Vec<Vec<u32>> = vec![];
        let c0 = &classes[0];
        triples.push(vec![c0[0], c0[0], c0[0]]);
        if c0.len() > 1 {
            triples.push(vec![c0[0], c0[1], c0[0]]);
        }
        if c0.len() > 2 {
            triples.push(vec![c0[0], c0[1], c0[2]]);
        }
        if classes.len() > 1 {
            triples.push(vec![c0[0], classes[1][0], classes[1][0]]);
            triples.push(vec![c0[0], classes[1][0], c0[0]]);
        }
        if classes.len() > 2 {
            triples.push(vec![c0[0], classes[1][0], classes[2][0]]);
        }
        if run.tier == Tier::Thorough {
            // all multisets of 3 over up to 2 representatives of each of the first 4 classes
            let reps: Vec<u32> = classes.iter().take(4).flat_map(|c| c.iter().take(2).copied()).collect();
            for (x, &a) in reps.iter().enumerate() {
                for (y, &b) in reps.iter().enumerate().skip(x) {
                    for &c in &reps[y..] {
                        let t = vec![a, b, c];
                        if !triples.contains(&t) {
                            triples.push(t);
                        }
                    }
                }
            }
        } else if f.name.contains("seriftc") {
            // CJK metrics cost ~1 ms per computation: in the quick tier this font takes part in
            // 3-thread search with one triple only
            triples.truncate(1);
        }
        triple_report.push(json!({"font": f.name, "metric_classes_among_first_glyphs": classes.len(), "triples": triples}));
        for (i, t) in triples.into_iter().enumerate() {
            jobs.push(SchedJob { font: fi, glyphs: t, opt: if i % 2 == 0 { 3 } else { 4 }, size: 1 });
        }
    }
    run.bound("schedule_3thread_groups", json!(triple_report));
    run.bound("schedule_fonts", json!(sched_fonts.iter().map(|i| fonts[*i].name.clone()).collect::<Vec<_>>()));
    run.bound("schedule_glyphs_per_font_2threads", json!(max_g));
    // longest (3-thread) jobs first
    jobs.sort_by_key(|j| std::cmp::Reverse(j.glyphs.len()));
    let results: Vec<(SchedJob, Result<SchedResult, String>)> = jobs
        .par_iter()
        .map(|j| {
            let t = std::time::Instant::now();
            let r = run_sched(fonts, &styles[&j.font], j, None);
            if std::env::var("C12_DEBUG_TIMES").is_ok() {
                eprintln!("sched {} {:?}: {:.2}s", fonts[j.font].name, j.glyphs, t.elapsed().as_secs_f64());
            }
            (j.clone(), r)
        })
        .collect();
    let mut hist: BTreeMap<String, u64> = BTreeMap::new();
    let mut all = HashSet::new();
    let mut nontrivial = HashSet::new();
    let mut sampled = 0;
    for (j, r) in results {
        let r = match r {
            Ok(r) => r,
            Err(e) => {
                run.machinery_error(&format!("schedule job {:?}/{:?}: {e}", fonts[j.font].name, j.glyphs));
                return;
            }
        };
        run.evals(r.schedules * j.glyphs.len() as u64);
        run.trans(r.yields);
        run.count(&format!("part4_schedules_{}threads", j.glyphs.len()), r.schedules);
        run.count(&format!("part4_groups_{}threads", j.glyphs.len()), 1);
        for (k, v) in &r.excess {
            *hist.entry(format!("{}threads_excess_metric_computations_{}", j.glyphs.len(), k)).or_insert(0) += v;
            let d = digest_of(&("p4", j.font, &j.glyphs, j.opt, *k));
            all.insert(d);
            if *k > 0 {
                nontrivial.insert(d);
            }
        }
        if sampled < 2 && r.excess.keys().any(|k| *k > 0) && (sampled == 0 || j.glyphs.len() == 2) {
            sampled += 1;
            run.sample(json!({"part": "4 schedules", "font": fonts[j.font].name, "glyphs": j.glyphs, "options": OPT_NAMES[j.opt as usize], "schedules": r.schedules, "excess_metric_computations_histogram": r.excess}));
        }
        if let Some(m) = r.mismatch {
            run.violation(
                &format!("concurrent draws through a shared Auto HintingInstance differ from the sequential reference ({} threads)", j.glyphs.len()),
                &format!("{} glyphs {:?}: {m}", fonts[j.font].name, j.glyphs),
                json!({"part": 4, "font": j.font, "glyphs": j.glyphs, "opt": j.opt, "size": j.size}),
            );
        }
    }
    run.observe_many(&all, &nontrivial);
    let raced: u64 = hist.iter().filter(|(k, _)| !k.ends_with("_0")).map(|(_, v)| *v).sum();
    run.extra("part4_metrics_computation_histogram", json!(hist));
    if raced == 0 && run.violations() == 0 {
        run.machinery_error("no schedule made two threads compute the same metrics (race not explored: hook sites not reached?)");
    }
}

// =============================================================================================
// part 4b: free-running pass (auxiliary, sampling)
// =============================================================================================

/// `T` real OS threads draw through one shared Auto instance that is fresh in every round (so the
/// lazy metrics race happens in every round); a barrier releases them together. Even rounds: all
/// threads draw the same glyph; odd rounds: different glyphs. Fixed thread and round counts.
/// Returns the number of mismatching draws.
fn part4b_free_running(run: &Run, fonts: &[Loaded], only_font: Option<usize>) -> u64 {
    const T: usize = 16;
    let mut report = vec![];
    let mut total_mismatches = 0u64;
    for (fi, f) in fonts.iter().enumerate() {
        if !f.name.contains("autohint_metrics") || only_font.map(|o| o != fi).unwrap_or(false) {
            continue;
        }
        // CJK metrics cost ~1 ms per computation: fewer rounds for that font
        let rounds: usize = if f.name.contains("seriftc") { run.tier.pick(400, 8000) } else { run.tier.pick(3000, 60000) };
        let styles = GlyphStyles::new(&f.outlines);
        let mk = |opt: u8| {
            HintingInstance::new(&f.outlines, Size::new(16.0), LocationRef::default(), HintingOptions { engine: Engine::Auto(Some(styles.clone())), target: options_of(opt).target })
        };
        let glyphs: Vec<(u32, OutlineGlyph)> = (0..f.n_glyphs.min(24)).filter_map(|g| f.outlines.get(GlyphId::new(g)).map(|gl| (g, gl))).collect();
        // sequential references, one fresh instance per glyph, for both targets used
        let mut refs: Vec<[Outcome; 2]> = vec![];
        for (_, gl) in &glyphs {
            let a = draw(gl, &How::Hinted(&mk(3).unwrap()), None);
            let b = draw(gl, &How::Hinted(&mk(4).unwrap()), None);
            refs.push([a, b]);
        }
        let insts: Vec<HintingInstance> = (0..rounds).map(|r| mk(if r % 4 < 2 { 3 } else { 4 }).unwrap()).collect();
        let barrier = std::sync::Barrier::new(T);
        let first: Mutex<Option<(usize, usize, u32, String)>> = Mutex::new(None);
        let mismatches = std::sync::atomic::AtomicU64::new(0);
        let (glyphs, refs, insts, barrier, first, mismatches) = (&glyphs, &refs, &insts, &barrier, &first, &mismatches);
        std::thread::scope(|sc| {
            for t in 0..T {
                std::thread::Builder::new()
                    .stack_size(8 << 20)
                    .spawn_scoped(sc, move || {
                        for r in 0..rounds {
                            let gi = if r % 2 == 0 { (r / 2) % glyphs.len() } else { (r + t * 5) % glyphs.len() };
                            let which = if r % 4 < 2 { 0 } else { 1 };
                            barrier.wait();
                            let o = draw(&glyphs[gi].1, &How::Hinted(&insts[r]), None);
                            if o != refs[gi][which] {
                                mismatches.fetch_add(1, std::sync::atomic::Ordering::Relaxed);
                                let mut fm = first.lock().unwrap();
                                if fm.is_none() {
                                    *fm = Some((t, r, glyphs[gi].0, format!("{} vs sequential reference {}", o.brief(), refs[gi][which].brief())));
                                }
                            }
                        }
                    })
                    .expect("spawn");
            }
        });
        let n = (T * rounds) as u64;
        let mm = mismatches.load(std::sync::atomic::Ordering::Relaxed);
        total_mismatches += mm;
        run.evals(n);
        run.count("part4b_free_running_draws", n);
        run.observe(digest_of(&("p4b", fi, rounds)), true);
        report.push(json!({"font": f.name, "threads": T, "rounds": rounds, "draws": n, "mismatches": mm}));
        let first_mismatch = first.lock().unwrap().clone();
        if let Some((t, r, gid, what)) = first_mismatch {
            run.violation(
                "free-running concurrent draws through a shared Auto HintingInstance differ from the sequential reference",
                &format!("{}: {T} OS threads x {rounds} barrier rounds, thread {t} in round {r} gid {gid}: {what} ({mm} of {n} draws differ)", f.name),
                json!({"part": "4b", "font": fi, "gid": gid}),
            );
        }
    }
    run.extra("free_running_pass", json!({"kind": "sampling, not the deciding exploration", "groups": report}));
    total_mismatches
}

// =============================================================================================
// replay
// =============================================================================================

fn replay_case(run: &Run, fonts: &[Loaded], case: &Value) {
    let part = case["part"].to_string();
    let part = part.trim_matches('"');
    match part {
        "3" => {
            let h: Vec<Cfg> = case["history"].as_array().unwrap().iter().map(|c| Cfg::from_raw(&c["raw"])).collect();
            let cloned = case["cloned"].as_bool().unwrap_or(false);
            let last = *h.last().unwrap();
            let fresh = observe_sel(fonts, last, &make_instance(fonts, last));
            let Ok(mut inst) = make_instance(fonts, h[0]) else {
                println!("first configuration cannot be instantiated");
                return;
            };
            let fa = &fonts[h[0].font as usize];
            if let Some(gl) = fa.outlines.get(*fa.sel.last().unwrap()) {
                let _ = draw(&gl, &How::Hinted(&inst), None);
            }
            let mut r = Ok(());
            for (i, c) in h.iter().enumerate().skip(1) {
                if cloned && i == h.len() - 1 && h.len() > 2 {
                    inst = inst.clone();
                }
                r = reconfigure(fonts, &mut inst, *c);
            }
            let got = observe_sel(fonts, last, &r.map(|_| inst));
            println!("reused: {:?}", got.as_ref().map(|v| v.iter().map(|o| o.brief()).collect::<Vec<_>>()));
            println!("fresh:  {:?}", fresh.as_ref().map(|v| v.iter().map(|o| o.brief()).collect::<Vec<_>>()));
            if got != fresh {
                report_history(run, fonts, &h, &first_diff(&got, &fresh), cloned);
            }
        }
        "3c" => {
            let c1 = Cfg::from_raw(&case["cfg"]["raw"]);
            let c2 = Cfg::from_raw(&case["cfg2"]["raw"]);
            let ga = case["before"].as_u64().unwrap() as u32;
            let gb = case["gid"].as_u64().unwrap() as u32;
            let f = &fonts[c1.font as usize];
            let hinting = if is_unhinted(c1.opt) { Hinting::None } else { Hinting::Embedded };
            let glb = f.outlines.get(GlyphId::new(gb)).unwrap();
            let coords2 = coords_of(f, c2.loc);
            let reference = if is_unhinted(c2.opt) {
                draw(&glb, &How::Unhinted(size_of(c2), &coords2, style_of(c2.opt)), None)
            } else {
                match make_instance(fonts, c2) {
                    Ok(i) => draw(&glb, &How::Hinted(&i), None),
                    Err(e) => Outcome::Err(e),
                }
            };
            let maxsize = (0..f.n_glyphs).filter_map(|g| f.outlines.get(GlyphId::new(g))).map(|g| g.draw_memory_size(hinting)).max().unwrap_or(0);
            let mut buf = vec![0u8; maxsize + 8];
            let off = (8 - buf.as_ptr() as usize % 8) % 8;
            let reused = one_reuse_history(fonts, c1, c2, ga, &mut buf, off);
            let sb = glb.draw_memory_size(hinting);
            let got = match &reused {
                None => draw(&glb, &How::Unhinted(size_of(c2), &coords2, style_of(c2.opt)), Some(&mut buf[off..off + sb])),
                Some(Ok(i)) => draw(&glb, &How::Hinted(i), Some(&mut buf[off..off + sb])),
                Some(Err(e)) => Outcome::Err(e.clone()),
            };
            println!("reused buffer: {}", got.brief());
            println!("fresh buffer:  {}", reference.brief());
            if got != reference {
                let class = if got.is_ok() || !reference.is_ok() { "different stream" } else { "failure" };
                run.violation(
                    &format!("draw with reused caller memory ({}): {class} after a draw at another location", reuse_label(c1.opt)),
                    &format!("{} vs {}", got.brief(), reference.brief()),
                    case.clone(),
                );
            }
        }
        "5" => {
            let gid = case["gid"].as_u64().unwrap() as usize;
            let size = case["size"].as_u64().unwrap() as u8;
            let infos = shapes::glyph_list();
            if let Some(f) = fonts.iter().find(|f| f.name == shapes::NAME) {
                let (bad, ft, hb) = shapes_case(f, &infos[gid], gid as u32, size);
                println!("FreeType style: {}\nHarfBuzz style: {}", ft.brief(), hb.brief());
                for (id, what) in bad {
                    run.violation(&id, &what, case.clone());
                }
            }
        }
        "1h" => {
            let c = Cfg::from_raw(&case["cfg"]["raw"]);
            let gid = case["gid"].as_u64().unwrap_or(0) as u32;
            let f = &fonts[c.font as usize];
            if let (Ok(i), Some(gl)) = (make_instance(fonts, c), f.outlines.get(GlyphId::new(gid))) {
                let h = draw(&gl, &How::HintedHarfBuzz(&i), None);
                println!("hinted + HarfBuzz: {}", h.brief());
                if h != Outcome::Err("HarfBuzzHintingUnsupported".into()) {
                    run.violation("replayed: hinted draw with HarfBuzz path style is not rejected", &h.brief(), case.clone());
                }
            }
        }
        "4b" => {
            // sampling pass: re-run it for that font; it may or may not hit the same execution again
            let n_f = fonts.iter().position(|f| f.extra).unwrap_or(fonts.len());
            let mm = part4b_free_running(run, &fonts[..n_f], Some(case["font"].as_u64().unwrap() as usize));
            println!("free-running pass re-run: {mm} mismatching draws");
        }
        "4" => {
            let fonts_s: &'static [Loaded] = unsafe { std::mem::transmute::<&[Loaded], &'static [Loaded]>(fonts) };
            let job = SchedJob {
                font: case["font"].as_u64().unwrap() as usize,
                glyphs: case["glyphs"].as_array().unwrap().iter().map(|g| g.as_u64().unwrap() as u32).collect(),
                opt: case["opt"].as_u64().unwrap() as u8,
                size: case["size"].as_u64().unwrap() as u8,
            };
            let styles = GlyphStyles::new(&fonts[job.font].outlines);
            match run_sched(fonts_s, &styles, &job, None) {
                Ok(r) => {
                    println!("schedules {} histogram {:?}", r.schedules, r.excess);
                    if let Some(m) = r.mismatch {
                        run.violation(
                            &format!("concurrent draws through a shared Auto HintingInstance differ from the sequential reference ({} threads)", job.glyphs.len()),
                            &m,
                            case.clone(),
                        );
                    }
                }
                Err(e) => run.machinery_error(&e),
            }
        }
        _ => {
            // parts 1, 2, 2z, 3b: one glyph under one configuration
            let c = Cfg::from_raw(&case["cfg"]["raw"]);
            let gid = case["gid"].as_u64().unwrap_or(0) as u32;
            let f = &fonts[c.font as usize];
            let coords = coords_of(f, c.loc);
            let inst = if is_unhinted(c.opt) { None } else { Some(make_instance(fonts, c)) };
            let pedantic = case["pedantic"].as_bool().unwrap_or(false);
            let how = match &inst {
                Some(Ok(i)) if pedantic => How::HintedPedantic(i),
                Some(Ok(i)) => How::Hinted(i),
                Some(Err(e)) => {
                    println!("instance error {e}");
                    return;
                }
                None => How::Unhinted(size_of(c), &coords, style_of(c.opt)),
            };
            let Some(gl) = f.outlines.get(GlyphId::new(gid)) else { return };
            let reference = draw(&gl, &how, None);
            println!("reference: {}", reference.brief());
            let hinting = if is_unhinted(c.opt) { Hinting::None } else { Hinting::Embedded };
            let got = match part {
                "1" => {
                    if let Outcome::Ok { cmds, .. } = &reference {
                        if f.is_glyf {
                            if let Err(w) = well_formed(cmds) {
                                run.violation("replayed: ill-formed pen stream", &w, case.clone());
                            }
                            let moves = cmds.iter().filter(|c| c.0 == 0).count();
                            if let (Some(Some(want)), true) = (f.raw_contours.get(gid as usize), c.opt == OPT_UNHINTED || (!is_unhinted(c.opt) && !is_auto(c.opt) && c.opt != 5)) {
                                println!("moves {moves}, stored contours {want}");
                                if moves != *want {
                                    run.violation("replayed: pen stream contour count differs from the glyph data", &format!("{moves} vs {want}"), case.clone());
                                }
                            }
                        }
                    }
                    draw(&gl, &how, None)
                }
                "2" => {
                    let align = case["align"].as_u64().unwrap() as usize;
                    let fill = case["fill"].as_u64().unwrap() as u8;
                    with_aligned(gl.draw_memory_size(hinting), align, fill, |m| draw(&gl, &how, Some(m)))
                }
                "2z" => {
                    // reference above was drawn with the axis-count zero vector; redo both sides here
                    let zlen = case["zlen"].as_u64().map(|z| z as usize).unwrap_or(f.axes);
                    let zero = vec![F2Dot14::ZERO; zlen];
                    let cn = Cfg { loc: 0, ..c };
                    let (z, nn) = if is_unhinted(c.opt) {
                        (draw(&gl, &How::Unhinted(size_of(c), &zero, style_of(c.opt)), None), draw(&gl, &How::Unhinted(size_of(c), &[], style_of(c.opt)), None))
                    } else {
                        match (make_instance_at(fonts, c, &zero), make_instance(fonts, cn)) {
                            (Ok(a), Ok(b)) => (draw(&gl, &How::Hinted(&a), None), draw(&gl, &How::Hinted(&b), None)),
                            (a, b) => (Outcome::Err(format!("{:?}", a.err())), Outcome::Err(format!("{:?}", b.err()))),
                        }
                    };
                    println!("zero vector of length {zlen}: {}", z.brief());
                    println!("none:                       {}", nn.brief());
                    if z != nn {
                        run.violation("replayed C12 part 2z case differs", &format!("{} vs {}", z.brief(), nn.brief()), case.clone());
                    }
                    return;
                }
                _ => {
                    let before = case["before"].as_u64().unwrap_or(0) as u32;
                    let glb = f.outlines.get(GlyphId::new(before)).unwrap();
                    let sz = gl.draw_memory_size(hinting).max(glb.draw_memory_size(hinting));
                    let mut buf = vec![0u8; sz + 8];
                    let off = (8 - buf.as_ptr() as usize % 8) % 8;
                    let sa = glb.draw_memory_size(hinting);
                    let sb = gl.draw_memory_size(hinting);
                    let _ = draw(&glb, &how, Some(&mut buf[off..off + sa]));
                    draw(&gl, &how, Some(&mut buf[off..off + sb]))
                }
            };
            println!("perturbed: {}", got.brief());
            if got != reference {
                run.violation(&format!("replayed C12 part {part} case differs"), &format!("{} vs {}", got.brief(), reference.brief()), case.clone());
            }
        }
    }
}
