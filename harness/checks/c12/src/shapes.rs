//! A synthesised, hand-encoded (from the OpenType `glyf` spec, no write-fonts glyph builder) TrueType
//! font that enumerates contour SHAPES for the path converter and exact scratch-memory SIZES for the
//! library allocator:
//!
//!  * glyph 0: empty;
//!  * glyphs 1..=126: every single contour of 1..=6 points over the point kinds {on-curve, quadratic
//!    off-curve} (2 + 4 + ... + 64). The cubic off-curve flag (bit 7) is not in the alphabet: read-fonts
//!    drops it unless built with `spec_next`, which the harness (like a default build) does not enable;
//!  * glyphs 127..=322: every ordered pair of contours of 1..=3 points (14 x 14) in one glyph — state
//!    must not leak from one contour into the next;
//!  * the next 12 glyphs: all-on-curve glyphs whose advertised unhinted scratch size
//!    (17 * (points + 4 phantom points) + 2 * contours + 4 bytes; the harness reports how many bounds
//!    were really hit from `draw_memory_size`, it does not trust this formula) is exactly B and B + 1 for every bucket bound B of
//!    `with_temporary_memory` (512, 1024, 2048, 4096, 8192, 16384).
//!
//! No fpgm / prep / cvt / instructions: only the scalers, the memory carving and `to_path` are involved.

use font_types::{Fixed, FWord, LongDateTime, Tag, UfWord};
use write_fonts::tables::head::{Head, MacStyle};
use write_fonts::tables::hhea::Hhea;
use write_fonts::tables::hmtx::{Hmtx, LongMetric};
use write_fonts::tables::maxp::Maxp;
use write_fonts::FontBuilder;

pub const NAME: &str = "synthetic_contour_shapes.ttf";

/// point kinds
pub const ON: u8 = 0;
pub const QUAD: u8 = 1;

pub const BUCKETS: [usize; 6] = [512, 1024, 2048, 4096, 8192, 16384];

/// What the harness knows about every glyph from the construction alone.
#[derive(Clone, Debug)]
pub struct ShapeInfo {
    /// point kinds per contour
    pub contours: Vec<Vec<u8>>,
    /// expected `draw_memory_size(Hinting::None)` for the size family, if this is one of its glyphs
    pub expect_size: Option<usize>,
}

fn all_shapes(len: usize) -> Vec<Vec<u8>> {
    let mut out = vec![vec![]];
    for _ in 0..len {
        let mut next = vec![];
        for s in &out {
            for k in [ON, QUAD] {
                let mut t = s.clone();
                t.push(k);
                next.push(t);
            }
        }
        out = next;
    }
    out
}

pub fn glyph_list() -> Vec<ShapeInfo> {
    let mut g = vec![ShapeInfo { contours: vec![], expect_size: None }];
    for len in 1..=6 {
        for s in all_shapes(len) {
            g.push(ShapeInfo { contours: vec![s], expect_size: None });
        }
    }
    let mut short: Vec<Vec<u8>> = all_shapes(1);
    short.extend(all_shapes(2));
    short.extend(all_shapes(3));
    for a in &short {
        for b in &short {
            g.push(ShapeInfo { contours: vec![a.clone(), b.clone()], expect_size: None });
        }
    }
    for b in BUCKETS {
        for target in [b, b + 1] {
            // 17 (n + 4) + 2 c + 4 == target, 1 <= c <= n: take the largest n of the right parity
            let want = target - 72;
            let mut n = want / 17;
            while n > 0 && ((want - 17 * n) % 2 != 0 || (want - 17 * n) / 2 == 0) {
                n -= 1;
            }
            let c = (want - 17 * n) / 2;
            assert!(n >= c && c >= 1, "size family: no (points, contours) for {target}");
            // c contours: the first c-1 have one point, the last has the rest
            let mut contours: Vec<Vec<u8>> = (0..c - 1).map(|_| vec![ON]).collect();
            contours.push(vec![ON; n - (c - 1)]);
            g.push(ShapeInfo { contours, expect_size: Some(target) });
        }
    }
    g
}

/// Absolute coordinates of point `k` (running index over the glyph) of contour `c`: distinct, mixed
/// parity (midpoints land on .5), inside 0..1000.
fn coord(k: usize, c: usize) -> (i16, i16) {
    let x = 20 + ((k * 37 + c * 101) % 900) as i16;
    let y = 10 + ((k * k * 53 + k * 7 + c * 17) % 880) as i16;
    (x, y)
}

fn encode_glyph(info: &ShapeInfo) -> Vec<u8> {
    if info.contours.is_empty() {
        return vec![];
    }
    let mut pts: Vec<(i16, i16, u8)> = vec![];
    let mut ends: Vec<u16> = vec![];
    for (c, kinds) in info.contours.iter().enumerate() {
        for kind in kinds {
            let (x, y) = coord(pts.len(), c);
            let flag = match *kind {
                ON => 0x01u8,
                _ => 0x00,
            };
            pts.push((x, y, flag));
        }
        ends.push((pts.len() - 1) as u16);
    }
    let mut b = vec![];
    b.extend((info.contours.len() as i16).to_be_bytes());
    let (xmin, xmax) = (pts.iter().map(|p| p.0).min().unwrap(), pts.iter().map(|p| p.0).max().unwrap());
    let (ymin, ymax) = (pts.iter().map(|p| p.1).min().unwrap(), pts.iter().map(|p| p.1).max().unwrap());
    for v in [xmin, ymin, xmax, ymax] {
        b.extend(v.to_be_bytes());
    }
    for e in &ends {
        b.extend(e.to_be_bytes());
    }
    b.extend(0u16.to_be_bytes()); // instructionLength
    // flags: no short vectors, no repeats: every coordinate is an int16 delta
    for p in &pts {
        b.push(p.2);
    }
    let mut prev = 0i16;
    for p in &pts {
        b.extend((p.0 - prev).to_be_bytes());
        prev = p.0;
    }
    let mut prev = 0i16;
    for p in &pts {
        b.extend((p.1 - prev).to_be_bytes());
        prev = p.1;
    }
    while b.len() % 4 != 0 {
        b.push(0);
    }
    b
}

pub fn build() -> (Vec<u8>, Vec<ShapeInfo>) {
    let glyphs = glyph_list();
    let n = glyphs.len() as u16;
    let mut glyf = vec![];
    let mut loca: Vec<u8> = vec![];
    for g in &glyphs {
        loca.extend((glyf.len() as u32).to_be_bytes());
        glyf.extend(encode_glyph(g));
    }
    loca.extend((glyf.len() as u32).to_be_bytes());
    let max_points = glyphs.iter().map(|g| g.contours.iter().map(|c| c.len()).sum::<usize>()).max().unwrap() as u16;
    let max_contours = glyphs.iter().map(|g| g.contours.len()).max().unwrap() as u16;
    let head = Head::new(Fixed::from_f64(1.0), 0, 0x000B, 1000, LongDateTime::new(0), LongDateTime::new(0), 0, 0, 1000, 1000, MacStyle::empty(), 6, 1);
    let mut maxp = Maxp::new(n);
    maxp.max_points = Some(max_points);
    maxp.max_contours = Some(max_contours);
    maxp.max_composite_points = Some(0);
    maxp.max_composite_contours = Some(0);
    maxp.max_zones = Some(1);
    maxp.max_twilight_points = Some(0);
    maxp.max_storage = Some(0);
    maxp.max_function_defs = Some(0);
    maxp.max_instruction_defs = Some(0);
    maxp.max_stack_elements = Some(0);
    maxp.max_size_of_instructions = Some(0);
    maxp.max_component_elements = Some(0);
    maxp.max_component_depth = Some(0);
    let hhea = Hhea::new(FWord::new(900), FWord::new(-100), FWord::new(0), UfWord::new(1000), FWord::new(0), FWord::new(0), FWord::new(1000), 1, 0, 0, n);
    let hmtx = Hmtx::new((0..n).map(|_| LongMetric::new(1000, 20)).collect(), vec![]);
    let mut fb = FontBuilder::new();
    fb.add_table(&head).unwrap();
    fb.add_table(&maxp).unwrap();
    fb.add_table(&hhea).unwrap();
    fb.add_table(&hmtx).unwrap();
    fb.add_raw(Tag::new(b"glyf"), glyf);
    fb.add_raw(Tag::new(b"loca"), loca);
    (fb.build(), glyphs)
}
