//! A synthesised TrueType font whose `prep` leaves state behind *only when ppem < 12*:
//! storage[0], cvt[1], twilight point 0, function definition 1 and instruction definition 0x91.
//! Each glyph's program makes exactly one of these observable by moving point 1 vertically (glyphs 6
//! and 7 additionally write storage / cvt at glyph time, exercising the copy-on-write buffers), so a
//! `reconfigure` from ppem 8 to ppem 16 that fails to re-derive one of the buffers changes a pen
//! stream (or turns an error into a success).
//!
//! Glyphs 8..18 form the out-of-range write family: a glyph program whose first storage / cvt write is
//! out of range (index len, len+1, 0x7FFF; WS, WCVTP, WCVTF; in-range-then-out and out-then-in
//! variants) and which then shows storage[2] / cvt[0]; glyphs 8 and 14 overwrite those cells privately
//! so that a following draw through the same caller buffer would see their leftovers.
//!
//! Glyphs 19..22 form the twilight family: original position of the prep-conditional twilight point 0,
//! a glyph-time write of twilight point 1, and reads of the current / original position of twilight
//! point 1 (which only a leak from scratch memory or from an earlier configuration can make non-zero).
//!
//! Glyphs 23..26 form the value-stack family: reads below the bottom of the interpreter stack (which is
//! carved from the scratch memory) after nothing / after a popped push.
//!
//! Glyphs 27..32 form the retained-graphics-state family: control-value cut-in, minimum distance, single
//! width + cut-in, delta base / shift, auto-flip and instruct-control bit 2 are set by prep only when
//! ppem < 12 (the last two of them: < 8) and used unconditionally by one glyph each.
//!
//! prep also increments storage[3] and shifts twilight point 2 unconditionally (read-modify-write from
//! the initial zero); glyphs 33 and 34 show them.
//!
//! Built with write-fonts only (GlyfLocaBuilder + FontBuilder) from the constants below.

use font_types::{Fixed, FWord, LongDateTime, Tag, UfWord};
use kurbo::BezPath;
use write_fonts::tables::glyf::{GlyfLocaBuilder, SimpleGlyph};
use write_fonts::tables::head::{Head, MacStyle};
use write_fonts::tables::hhea::Hhea;
use write_fonts::tables::hmtx::{Hmtx, LongMetric};
use write_fonts::tables::maxp::Maxp;
use write_fonts::FontBuilder;

// TrueType opcodes used
const SVTCA_Y: u8 = 0x00;
const SZP2: u8 = 0x15;
const SZPS: u8 = 0x16;
const ELSE_: u8 = 0x1B;
const SWAP: u8 = 0x23;
const CALL: u8 = 0x2B;
const FDEF: u8 = 0x2C;
const ENDF: u8 = 0x2D;
const MIAP0: u8 = 0x3E;
const WS: u8 = 0x42;
const RS: u8 = 0x43;
const WCVTP: u8 = 0x44;
const RCVT: u8 = 0x45;
const GC0: u8 = 0x46;
const GC1: u8 = 0x47;
const SZP0: u8 = 0x13;
const DUP: u8 = 0x20;
const POP: u8 = 0x21;
const ADD: u8 = 0x60;
const SVTCA_X: u8 = 0x01;
const SRP0: u8 = 0x10;
const SHPIX: u8 = 0x38;
const SMD: u8 = 0x1A;
const SCVTCI: u8 = 0x1D;
const SSWCI: u8 = 0x1E;
const SSW: u8 = 0x1F;
const MIAP1: u8 = 0x3F;
const MDAP0: u8 = 0x2E;
const FLIPOFF: u8 = 0x4E;
const DELTAP1: u8 = 0x5D;
const SDB: u8 = 0x5E;
const SDS: u8 = 0x5F;
const INSTCTRL: u8 = 0x8E;
const PUSHB3: u8 = 0xB2;
const PUSHW1: u8 = 0xB8;
const MDRP_PLAIN: u8 = 0xC0;
const MDRP_MIN: u8 = 0xC8;
const MIRP_PLAIN: u8 = 0xE0;
const SCFS: u8 = 0x48;
const MPPEM: u8 = 0x4B;
const LT: u8 = 0x50;
const IF: u8 = 0x58;
const EIF: u8 = 0x59;
const IDEF: u8 = 0x89;
const PUSHB1: u8 = 0xB0; // pushes 1 byte
const PUSHB2: u8 = 0xB1; // pushes 2 bytes
const PUSHW2: u8 = 0xB9; // pushes 2 words
const WCVTF: u8 = 0x70;
const UNUSED_OPCODE: u8 = 0x91;

/// fpgm: function 0 = ( v -- ) set y of glyph point 1 to v (26.6)
fn fpgm() -> Vec<u8> {
    vec![PUSHB1, 0, FDEF, SVTCA_Y, PUSHB1, 1, SWAP, SCFS, ENDF]
}

fn prep() -> Vec<u8> {
    let _ = ELSE_;
    // unconditional: storage[2] = 160 (read by the out-of-range write family)
    let mut p = vec![PUSHB2, 2, 160, WS];
    // unconditional read-modify-write of state that a fresh instance starts at zero (audit): an
    // instance that keeps it across `reconfigure` shows it whatever the order of the two sizes.
    // storage[3] := storage[3] + 64 (RS before any WS of that slot)
    p.extend([PUSHB1, 3, PUSHB1, 3, RS, PUSHB1, 64, ADD, WS]);
    // twilight point 2 shifted by 1 px along y from wherever it is
    p.extend([SVTCA_Y, PUSHB1, 0, SZP2, PUSHB2, 2, 64, SHPIX, PUSHB1, 1, SZP2]);
    p.extend([MPPEM, PUSHB1, 12, LT, IF]);
    // storage[0] = 128
    p.extend([PUSHB2, 0, 128, WS]);
    // cvt[1] = 77
    p.extend([PUSHB2, 1, 77, WCVTP]);
    // twilight point 0 moved to cvt[0] along y
    p.extend([PUSHB1, 0, SZPS, SVTCA_Y, PUSHB2, 0, 0, MIAP0, PUSHB1, 1, SZPS]);
    // function 1: move point 1 to y = 192
    p.extend([PUSHB1, 1, FDEF, PUSHB1, 192, PUSHB1, 0, CALL, ENDF]);
    // instruction 0x91: move point 1 to y = 64
    p.extend([PUSHB1, UNUSED_OPCODE, IDEF, PUSHB1, 64, PUSHB1, 0, CALL, ENDF]);
    // retained graphics state (audit; read by glyphs 27..31): control-value cut-in very large,
    // minimum distance 2 px, single-width cut-in very large with a single width of 200 units,
    // delta shift 1, auto-flip off
    p.extend([PUSHW1, 0x40, 0x00, SCVTCI]);
    p.extend([PUSHB1, 128, SMD]);
    p.extend([PUSHW1, 0x40, 0x00, SSWCI]);
    p.extend([PUSHB1, 200, SSW]);
    p.extend([PUSHB1, 1, SDS]);
    p.push(FLIPOFF);
    p.push(EIF);
    // second block, only when ppem < 8 (size 7.5 and unscaled): delta base 20 and instruct-control
    // bit 2 (native ClearType: x movements are no longer ignored under smooth targets)
    p.extend([MPPEM, PUSHB1, 8, LT, IF]);
    p.extend([PUSHB1, 20, SDB]);
    p.extend([PUSHB2, 4, 3, INSTCTRL]);
    p.push(EIF);
    p
}

fn glyph_programs() -> Vec<Vec<u8>> {
    vec![
        vec![],                                        // 0 .notdef: no program
        vec![PUSHB1, 1, CALL],                         // 1 function definition 1
        vec![PUSHB1, 0, RS, PUSHB1, 0, CALL],          // 2 storage[0]
        vec![SVTCA_Y, PUSHB1, 0, SZP2, PUSHB1, 0, GC0, PUSHB1, 1, SZP2, PUSHB1, 0, CALL], // 3 twilight
        vec![UNUSED_OPCODE],                           // 4 instruction definition
        vec![PUSHB1, 1, RCVT, PUSHB1, 0, CALL],        // 5 cvt[1]
        // 6: glyph-time write to storage[1], then storage[0] shows (copy-on-write must have copied)
        vec![PUSHB2, 1, 5, WS, PUSHB1, 0, RS, PUSHB1, 0, CALL],
        // 7: glyph-time write to cvt[2], then cvt[1] shows
        vec![PUSHB2, 2, 9, WCVTP, PUSHB1, 1, RCVT, PUSHB1, 0, CALL],
        // ---- out-of-range write family (maxStorage = 4, cvt length = 3; prep sets storage[2] = 160
        // unconditionally and cvt[0] = 100 units). An out-of-range WS/WCVTP/WCVTF is ignored in
        // non-pedantic mode; what is read afterwards must still be the instance's value, whoever
        // supplied the scratch buffer and whatever it contains.
        // 8: A(storage): private overwrite of storage[2], then show it
        vec![PUSHB2, 2, 99, WS, PUSHB1, 2, RS, PUSHB1, 0, CALL],
        // 9..11: B(storage): first write at index len, len+1, 0x7FFF; then show storage[2]
        vec![PUSHB2, 4, 7, WS, PUSHB1, 2, RS, PUSHB1, 0, CALL],
        vec![PUSHB2, 5, 7, WS, PUSHB1, 2, RS, PUSHB1, 0, CALL],
        vec![PUSHW2, 0x7F, 0xFF, 0, 7, WS, PUSHB1, 2, RS, PUSHB1, 0, CALL],
        // 12: first write in range, second out of range
        vec![PUSHB2, 1, 5, WS, PUSHB2, 4, 7, WS, PUSHB1, 2, RS, PUSHB1, 0, CALL],
        // 13: first write out of range, second in range (to another cell)
        vec![PUSHB2, 4, 7, WS, PUSHB2, 1, 5, WS, PUSHB1, 2, RS, PUSHB1, 0, CALL],
        // 14: A(cvt): private overwrite of cvt[0], then show it
        vec![PUSHB2, 0, 50, WCVTP, PUSHB1, 0, RCVT, PUSHB1, 0, CALL],
        // 15..18: B(cvt): WCVTP at len, len+1, 0x7FFF and WCVTF at len; then show cvt[0]
        vec![PUSHB2, 3, 9, WCVTP, PUSHB1, 0, RCVT, PUSHB1, 0, CALL],
        vec![PUSHB2, 4, 9, WCVTP, PUSHB1, 0, RCVT, PUSHB1, 0, CALL],
        vec![PUSHW2, 0x7F, 0xFF, 0, 9, WCVTP, PUSHB1, 0, RCVT, PUSHB1, 0, CALL],
        vec![PUSHB2, 3, 9, WCVTF, PUSHB1, 0, RCVT, PUSHB1, 0, CALL],
        // ---- twilight family (audit): the ORIGINAL position of a twilight point and glyph-time
        // twilight writes. prep moves twilight point 0 only when ppem < 12 (MIAP sets both the
        // current and the original position); twilight point 1 is never touched by prep.
        // 19: original position of twilight point 0 (GC[1]) — stale twilight_original_scaled shows
        vec![SVTCA_Y, PUSHB1, 0, SZP2, PUSHB1, 0, GC1, PUSHB1, 1, SZP2, PUSHB1, 0, CALL],
        // 20: glyph-time MIAP of twilight point 1 to cvt[0] (a private write), then show it
        vec![SVTCA_Y, PUSHB1, 0, SZP0, PUSHB2, 1, 0, MIAP0, PUSHB1, 1, SZP0, PUSHB1, 0, SZP2, PUSHB1, 1, GC0, PUSHB1, 1, SZP2, PUSHB1, 0, CALL],
        // 21: current position of twilight point 1 (must be the instance's 0, whatever glyph 20 left
        // in the scratch memory)
        vec![SVTCA_Y, PUSHB1, 0, SZP2, PUSHB1, 1, GC0, PUSHB1, 1, SZP2, PUSHB1, 0, CALL],
        // 22: original position of twilight point 1
        vec![SVTCA_Y, PUSHB1, 0, SZP2, PUSHB1, 1, GC1, PUSHB1, 1, SZP2, PUSHB1, 0, CALL],
        // ---- value-stack family (audit): the interpreter's stack lives in the scratch memory. In
        // non-pedantic mode reading below the stack bottom yields 0, never what the memory holds
        // (pedantic: the draw fails the same way every time).
        // 23: function 0 called with nothing below its own push (SWAP pops the missing value)
        vec![PUSHB1, 0, CALL],
        // 24: DUP on the empty stack
        vec![DUP, PUSHB1, 0, CALL],
        // 25: ADD on the empty stack
        vec![ADD, PUSHB1, 0, CALL],
        // 26: push 77, pop it, then read below the bottom: the 77 still sits in the stack memory
        vec![PUSHB1, 77, POP, PUSHB1, 0, CALL],
        // ---- retained graphics-state family (audit): each value is set by prep only under a ppem
        // condition and used here unconditionally, so a value surviving `reconfigure` moves a point.
        // 27: control-value cut-in — MIAP[round + cut-in] of point 1 to cvt[0] (1.6 px at ppem 16,
        // away from the original 0 by more than the default cut-in of 17/16 px)
        vec![SVTCA_Y, PUSHB2, 1, 0, MIAP1],
        // 28: minimum distance — MDRP[min] of point 1 from point 0 (original distance 0)
        vec![SVTCA_Y, PUSHB1, 0, SRP0, PUSHB1, 1, MDRP_MIN],
        // 29: single width and its cut-in — plain MDRP of point 1 from point 0
        vec![SVTCA_Y, PUSHB1, 0, SRP0, PUSHB1, 1, MDRP_PLAIN],
        // 30: delta base and shift — DELTAP1 on point 1 (touched first: in backward-compatibility mode
        // deltas only move touched points), 8 steps at ppem = base 9 + 7
        vec![SVTCA_Y, PUSHB1, 1, MDAP0, PUSHB3, 0x7F, 1, 1, DELTAP1],
        // 31: auto-flip — cvt[2] := -2 px privately, then MIRP of point 3 (11 px above point 0)
        vec![PUSHB1, 2, PUSHW1, 0xFF, 0x80, WCVTP, SVTCA_Y, PUSHB1, 0, SRP0, PUSHB2, 3, 2, MIRP_PLAIN],
        // 32: instruct-control bit 2 — an x movement, ignored in backward-compatibility mode
        vec![SVTCA_X, PUSHB2, 1, 192, SCFS],
        // 33: storage[3], which prep increments from its initial value
        vec![PUSHB1, 3, RS, PUSHB1, 0, CALL],
        // 34: current position of twilight point 2, which prep shifts from its initial position
        vec![SVTCA_Y, PUSHB1, 0, SZP2, PUSHB1, 2, GC0, PUSHB1, 1, SZP2, PUSHB1, 0, CALL],
    ]
}

pub fn build() -> Vec<u8> {
    let programs = glyph_programs();
    let n = programs.len() as u16;
    let mut builder = GlyfLocaBuilder::new();
    for (i, prog) in programs.iter().enumerate() {
        let mut path = BezPath::new();
        let dx = i as f64 * 10.0;
        path.move_to((50.0 + dx, 0.0));
        path.line_to((550.0, 0.0));
        path.quad_to((500.0, 400.0), (300.0, 700.0));
        path.close_path();
        let mut g = SimpleGlyph::from_bezpath(&path).unwrap();
        g.instructions = prog.clone();
        builder.add_glyph(&g).unwrap();
    }
    let (glyf, loca, loca_format) = builder.build();
    let head = Head::new(
        Fixed::from_f64(1.0),
        0,
        0x000B,
        1000,
        LongDateTime::new(0),
        LongDateTime::new(0),
        0,
        0,
        600,
        700,
        MacStyle::empty(),
        6,
        loca_format as i16,
    );
    let mut maxp = Maxp::new(n);
    maxp.max_points = Some(8);
    maxp.max_contours = Some(2);
    maxp.max_composite_points = Some(0);
    maxp.max_composite_contours = Some(0);
    maxp.max_zones = Some(2);
    maxp.max_twilight_points = Some(4);
    maxp.max_storage = Some(4);
    maxp.max_function_defs = Some(4);
    maxp.max_instruction_defs = Some(2);
    maxp.max_stack_elements = Some(32);
    maxp.max_size_of_instructions = Some(256);
    maxp.max_component_elements = Some(0);
    maxp.max_component_depth = Some(0);
    let hhea = Hhea::new(
        FWord::new(800),
        FWord::new(-200),
        FWord::new(0),
        UfWord::new(600),
        FWord::new(0),
        FWord::new(0),
        FWord::new(600),
        1,
        0,
        0,
        n,
    );
    let hmtx = Hmtx::new((0..n).map(|_| LongMetric::new(600, 50)).collect(), vec![]);
    let mut fb = FontBuilder::new();
    fb.add_table(&head).unwrap();
    fb.add_table(&maxp).unwrap();
    fb.add_table(&hhea).unwrap();
    fb.add_table(&hmtx).unwrap();
    fb.add_table(&glyf).unwrap();
    fb.add_table(&loca).unwrap();
    // cvt: [100, 0, 0]
    fb.add_raw(Tag::new(b"cvt "), vec![0u8, 100, 0, 0, 0, 0]);
    fb.add_raw(Tag::new(b"fpgm"), fpgm());
    fb.add_raw(Tag::new(b"prep"), prep());
    fb.build()
}
