//! A synthesised TrueType font whose `prep` leaves state behind *only when ppem < 12*:
//! storage[0], cvt[1], twilight point 0, function definition 1 and instruction definition 0x91.
//! Each glyph's program makes exactly one of these observable by moving point 1 vertically (glyphs 6
//! and 7 additionally write storage / cvt at glyph time, exercising the copy-on-write buffers), so a
//! `reconfigure` from ppem 8 to ppem 16 that fails to re-derive one of the buffers changes a pen
//! stream (or turns an error into a success).
//!
//! Glyphs 8..18 form the out-of-range write family: a glyph program whose first storage / cvt write is
//! out of range (index len, len+1, 0x7FFF; WS, WCVTP, WCVTF; in-range-then-out and out-then-in
//! variants) and which then shows storage[2] / cvt[0]; glyphs 8 and 14 overwrite those cells privately
//! so that a following draw through the same caller buffer would see their leftovers.
//!
//! Built with write-fonts only (GlyfLocaBuilder + FontBuilder) from the constants below.

use font_types::{Fixed, FWord, LongDateTime, Tag, UfWord};
use kurbo::BezPath;
use write_fonts::tables::glyf::{GlyfLocaBuilder, SimpleGlyph};
use write_fonts::tables::head::{Head, MacStyle};
use write_fonts::tables::hhea::Hhea;
use write_fonts::tables::hmtx::{Hmtx, LongMetric};
use write_fonts::tables::maxp::Maxp;
use write_fonts::FontBuilder;

// TrueType opcodes used
const SVTCA_Y: u8 = 0x00;
const SZP2: u8 = 0x15;
const SZPS: u8 = 0x16;
const ELSE_: u8 = 0x1B;
const SWAP: u8 = 0x23;
const CALL: u8 = 0x2B;
const FDEF: u8 = 0x2C;
const ENDF: u8 = 0x2D;
const MIAP0: u8 = 0x3E;
const WS: u8 = 0x42;
const RS: u8 = 0x43;
const WCVTP: u8 = 0x44;
const RCVT: u8 = 0x45;
const GC0: u8 = 0x46;
const SCFS: u8 = 0x48;
const MPPEM: u8 = 0x4B;
const LT: u8 = 0x50;
const IF: u8 = 0x58;
const EIF: u8 = 0x59;
const IDEF: u8 = 0x89;
const PUSHB1: u8 = 0xB0; // pushes 1 byte
const PUSHB2: u8 = 0xB1; // pushes 2 bytes
const PUSHW2: u8 = 0xB9; // pushes 2 words
const WCVTF: u8 = 0x70;
const UNUSED_OPCODE: u8 = 0x91;

/// fpgm: function 0 = ( v -- ) set y of glyph point 1 to v (26.6)
fn fpgm() -> Vec<u8> {
    vec![PUSHB1, 0, FDEF, SVTCA_Y, PUSHB1, 1, SWAP, SCFS, ENDF]
}

fn prep() -> Vec<u8> {
    let _ = ELSE_;
    // unconditional: storage[2] = 160 (read by the out-of-range write family)
    let mut p = vec![PUSHB2, 2, 160, WS];
    p.extend([MPPEM, PUSHB1, 12, LT, IF]);
    // storage[0] = 128
    p.extend([PUSHB2, 0, 128, WS]);
    // cvt[1] = 77
    p.extend([PUSHB2, 1, 77, WCVTP]);
    // twilight point 0 moved to cvt[0] along y
    p.extend([PUSHB1, 0, SZPS, SVTCA_Y, PUSHB2, 0, 0, MIAP0, PUSHB1, 1, SZPS]);
    // function 1: move point 1 to y = 192
    p.extend([PUSHB1, 1, FDEF, PUSHB1, 192, PUSHB1, 0, CALL, ENDF]);
    // instruction 0x91: move point 1 to y = 64
    p.extend([PUSHB1, UNUSED_OPCODE, IDEF, PUSHB1, 64, PUSHB1, 0, CALL, ENDF]);
    p.push(EIF);
    p
}

fn glyph_programs() -> Vec<Vec<u8>> {
    vec![
        vec![],                                        // 0 .notdef: no program
        vec![PUSHB1, 1, CALL],                         // 1 function definition 1
        vec![PUSHB1, 0, RS, PUSHB1, 0, CALL],          // 2 storage[0]
        vec![SVTCA_Y, PUSHB1, 0, SZP2, PUSHB1, 0, GC0, PUSHB1, 1, SZP2, PUSHB1, 0, CALL], // 3 twilight
        vec![UNUSED_OPCODE],                           // 4 instruction definition
        vec![PUSHB1, 1, RCVT, PUSHB1, 0, CALL],        // 5 cvt[1]
        // 6: glyph-time write to storage[1], then storage[0] shows (copy-on-write must have copied)
        vec![PUSHB2, 1, 5, WS, PUSHB1, 0, RS, PUSHB1, 0, CALL],
        // 7: glyph-time write to cvt[2], then cvt[1] shows
        vec![PUSHB2, 2, 9, WCVTP, PUSHB1, 1, RCVT, PUSHB1, 0, CALL],
        // ---- out-of-range write family (maxStorage = 4, cvt length = 3; prep sets storage[2] = 160
        // unconditionally and cvt[0] = 100 units). An out-of-range WS/WCVTP/WCVTF is ignored in
        // non-pedantic mode; what is read afterwards must still be the instance's value, whoever
        // supplied the scratch buffer and whatever it contains.
        // 8: A(storage): private overwrite of storage[2], then show it
        vec![PUSHB2, 2, 99, WS, PUSHB1, 2, RS, PUSHB1, 0, CALL],
        // 9..11: B(storage): first write at index len, len+1, 0x7FFF; then show storage[2]
        vec![PUSHB2, 4, 7, WS, PUSHB1, 2, RS, PUSHB1, 0, CALL],
        vec![PUSHB2, 5, 7, WS, PUSHB1, 2, RS, PUSHB1, 0, CALL],
        vec![PUSHW2, 0x7F, 0xFF, 0, 7, WS, PUSHB1, 2, RS, PUSHB1, 0, CALL],
        // 12: first write in range, second out of range
        vec![PUSHB2, 1, 5, WS, PUSHB2, 4, 7, WS, PUSHB1, 2, RS, PUSHB1, 0, CALL],
        // 13: first write out of range, second in range (to another cell)
        vec![PUSHB2, 4, 7, WS, PUSHB2, 1, 5, WS, PUSHB1, 2, RS, PUSHB1, 0, CALL],
        // 14: A(cvt): private overwrite of cvt[0], then show it
        vec![PUSHB2, 0, 50, WCVTP, PUSHB1, 0, RCVT, PUSHB1, 0, CALL],
        // 15..18: B(cvt): WCVTP at len, len+1, 0x7FFF and WCVTF at len; then show cvt[0]
        vec![PUSHB2, 3, 9, WCVTP, PUSHB1, 0, RCVT, PUSHB1, 0, CALL],
        vec![PUSHB2, 4, 9, WCVTP, PUSHB1, 0, RCVT, PUSHB1, 0, CALL],
        vec![PUSHW2, 0x7F, 0xFF, 0, 9, WCVTP, PUSHB1, 0, RCVT, PUSHB1, 0, CALL],
        vec![PUSHB2, 3, 9, WCVTF, PUSHB1, 0, RCVT, PUSHB1, 0, CALL],
    ]
}

pub fn build() -> Vec<u8> {
    let programs = glyph_programs();
    let n = programs.len() as u16;
    let mut builder = GlyfLocaBuilder::new();
    for (i, prog) in programs.iter().enumerate() {
        let mut path = BezPath::new();
        let dx = i as f64 * 10.0;
        path.move_to((50.0 + dx, 0.0));
        path.line_to((550.0, 0.0));
        path.quad_to((500.0, 400.0), (300.0, 700.0));
        path.close_path();
        let mut g = SimpleGlyph::from_bezpath(&path).unwrap();
        g.instructions = prog.clone();
        builder.add_glyph(&g).unwrap();
    }
    let (glyf, loca, loca_format) = builder.build();
    let head = Head::new(
        Fixed::from_f64(1.0),
        0,
        0x000B,
        1000,
        LongDateTime::new(0),
        LongDateTime::new(0),
        0,
        0,
        600,
        700,
        MacStyle::empty(),
        6,
        loca_format as i16,
    );
    let mut maxp = Maxp::new(n);
    maxp.max_points = Some(8);
    maxp.max_contours = Some(2);
    maxp.max_composite_points = Some(0);
    maxp.max_composite_contours = Some(0);
    maxp.max_zones = Some(2);
    maxp.max_twilight_points = Some(4);
    maxp.max_storage = Some(4);
    maxp.max_function_defs = Some(4);
    maxp.max_instruction_defs = Some(2);
    maxp.max_stack_elements = Some(32);
    maxp.max_size_of_instructions = Some(64);
    maxp.max_component_elements = Some(0);
    maxp.max_component_depth = Some(0);
    let hhea = Hhea::new(
        FWord::new(800),
        FWord::new(-200),
        FWord::new(0),
        UfWord::new(600),
        FWord::new(0),
        FWord::new(0),
        FWord::new(600),
        1,
        0,
        0,
        n,
    );
    let hmtx = Hmtx::new((0..n).map(|_| LongMetric::new(600, 50)).collect(), vec![]);
    let mut fb = FontBuilder::new();
    fb.add_table(&head).unwrap();
    fb.add_table(&maxp).unwrap();
    fb.add_table(&hhea).unwrap();
    fb.add_table(&hmtx).unwrap();
    fb.add_table(&glyf).unwrap();
    fb.add_table(&loca).unwrap();
    // cvt: [100, 0, 0]
    fb.add_raw(Tag::new(b"cvt "), vec![0u8, 100, 0, 0, 0, 0]);
    fb.add_raw(Tag::new(b"fpgm"), fpgm());
    fb.add_raw(Tag::new(b"prep"), prep());
    fb.build()
}
