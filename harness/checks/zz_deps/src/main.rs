fn main() {}
