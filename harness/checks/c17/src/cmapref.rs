//! A small from-specification `cmap` reader that shares no code with read-fonts / skrifa.
//!
//! It reads the raw bytes of a font's `cmap` table (OpenType 1.9 §cmap): header, encoding records,
//! subtable formats 4, 12 (code point → glyph) and 14 (variation sequences). It is the harness' judge of
//! "which characters does this font map, and to which glyph", for the original AND for the subset, so
//! that a defect of `skrifa::charmap::Charmap` (which klippa's plan also uses) is not common-mode; the
//! harness additionally asserts that skrifa's `Charmap` agrees with this reader on both fonts.
//!
//! Subtable selection follows what `skrifa::charmap::Charmap` documents (FreeType's strategy + HarfBuzz'
//! symbol preference): the encoding records are searched in REVERSE order; (3,0) is a symbol subtable and
//! beats every other kind; (3,10) and (0,4) are full-repertoire Unicode and beat BMP-only; (2,*), (0,*),
//! (3,1) are BMP-only Unicode; among records of the best kind the one met first in the reverse search
//! (the highest record index) is used; only formats 4 and 12 are eligible; a symbol subtable answers a
//! code point ≤ U+00FF that it does not map with its mapping of U+F000 + code point; a mapping to glyph 0
//! is "not mapped". Variation sequences come from the last (0,5) record whose subtable is format 14.

fn be16(b: &[u8], at: usize) -> Option<u32> {
    Some(u16::from_be_bytes([*b.get(at)?, *b.get(at + 1)?]) as u32)
}
fn be24(b: &[u8], at: usize) -> Option<u32> {
    Some(((*b.get(at)? as u32) << 16) | ((*b.get(at + 1)? as u32) << 8) | *b.get(at + 2)? as u32)
}
fn be32(b: &[u8], at: usize) -> Option<u32> {
    Some(u32::from_be_bytes([*b.get(at)?, *b.get(at + 1)?, *b.get(at + 2)?, *b.get(at + 3)?]))
}

/// The bytes of table `tag` of font number `index` of an sfnt file / collection.
pub fn raw_table<'a>(file: &'a [u8], index: u32, tag: &[u8; 4]) -> Option<&'a [u8]> {
    let mut dir = 0usize;
    if file.get(0..4)? == b"ttcf" {
        let n = be32(file, 8)?;
        if index >= n {
            return None;
        }
        dir = be32(file, 12 + 4 * index as usize)? as usize;
    }
    let num = be16(file, dir + 4)? as usize;
    for i in 0..num {
        let r = dir + 12 + 16 * i;
        if file.get(r..r + 4)? == tag {
            let off = be32(file, r + 8)? as usize;
            let len = be32(file, r + 12)? as usize;
            return file.get(off..off.checked_add(len)?);
        }
    }
    None
}

#[derive(Clone, Debug)]
pub struct Seg4 {
    pub start: u32,
    pub end: u32,
    delta: u32,
    range_offset: u32,
    /// byte position of this segment's idRangeOffset field inside the subtable
    ro_pos: usize,
}

#[derive(Clone, Debug)]
pub enum Sub {
    /// format 4: segments in file order + the bytes from the subtable start to the end of the cmap table
    F4 { segs: Vec<Seg4>, bytes: Vec<u8>, sorted: bool },
    /// format 12: (startCharCode, endCharCode, startGlyphID) in file order
    F12 { groups: Vec<(u32, u32, u32)>, sorted: bool },
}

impl Sub {
    fn parse(cmap: &[u8], off: usize) -> Option<(u32, Option<Sub>)> {
        let format = be16(cmap, off)?;
        match format {
            4 => {
                let n = (be16(cmap, off + 6)? / 2) as usize;
                let end_at = off + 14;
                let start_at = end_at + 2 * n + 2;
                let delta_at = start_at + 2 * n;
                let ro_at = delta_at + 2 * n;
                let mut segs = Vec::with_capacity(n);
                for i in 0..n {
                    segs.push(Seg4 {
                        end: be16(cmap, end_at + 2 * i)?,
                        start: be16(cmap, start_at + 2 * i)?,
                        delta: be16(cmap, delta_at + 2 * i)?,
                        range_offset: be16(cmap, ro_at + 2 * i)?,
                        ro_pos: ro_at + 2 * i - off,
                    });
                }
                let sorted = segs.windows(2).all(|w| w[0].end <= w[1].end);
                Some((4, Some(Sub::F4 { segs, bytes: cmap.get(off..)?.to_vec(), sorted })))
            }
            12 => {
                let n = be32(cmap, off + 12)? as usize;
                let mut groups = Vec::with_capacity(n.min(1 << 20));
                for i in 0..n {
                    let g = off + 16 + 12 * i;
                    groups.push((be32(cmap, g)?, be32(cmap, g + 4)?, be32(cmap, g + 8)?));
                }
                let sorted = groups.windows(2).all(|w| w[0].1 < w[1].0);
                Some((12, Some(Sub::F12 { groups, sorted })))
            }
            f => Some((f, None)),
        }
    }

    /// The glyph the subtable gives for `c` (0 and "no segment" are both `None`).
    pub fn map(&self, c: u32) -> Option<u32> {
        match self {
            Sub::F4 { segs, bytes, sorted } => {
                if c > 0xFFFF {
                    return None;
                }
                // "search for the first endCode that is greater than or equal to the character code"
                // (binary search when the end codes ascend, as the format requires; linear otherwise)
                let s = if *sorted {
                    segs.get(segs.partition_point(|s| s.end < c))?
                } else {
                    segs.iter().find(|s| s.end >= c)?
                };
                if s.start > c {
                    return None;
                }
                let g = if s.range_offset == 0 {
                    (c + s.delta) & 0xFFFF
                } else {
                    // "*(idRangeOffset[i]/2 + (c - startCode[i]) + &idRangeOffset[i])"
                    let at = s.ro_pos + s.range_offset as usize + 2 * (c - s.start) as usize;
                    let raw = be16(bytes, at)?;
                    if raw == 0 {
                        return None;
                    }
                    (raw + s.delta) & 0xFFFF
                };
                (g != 0).then_some(g)
            }
            Sub::F12 { groups, sorted } => {
                // groups are required to ascend without overlap: binary search then; linear otherwise
                let g = if *sorted {
                    let i = groups.partition_point(|g| g.1 < c);
                    groups.get(i).filter(|g| g.0 <= c && c <= g.1)?
                } else {
                    groups.iter().find(|g| g.0 <= c && c <= g.1)?
                };
                let gid = g.2.wrapping_add(c - g.0);
                (gid != 0).then_some(gid)
            }
        }
    }

    /// Inclusive code ranges the subtable names (format 4's U+FFFF terminator excluded), file order.
    pub fn ranges(&self) -> Vec<(u32, u32)> {
        match self {
            Sub::F4 { segs, .. } => segs
                .iter()
                .filter(|s| s.start <= s.end && s.start != 0xFFFF)
                .map(|s| (s.start, s.end.min(0xFFFE)))
                .collect(),
            Sub::F12 { groups, .. } => groups
                .iter()
                .filter(|g| g.0 <= g.1 && g.0 <= 0x10FFFF)
                .map(|g| (g.0, g.1.min(0x10FFFF)))
                .collect(),
        }
    }

    /// Every (character, glyph) the subtable maps, ascending by character.
    pub fn mappings(&self) -> Vec<(u32, u32)> {
        let mut r = self.ranges();
        r.sort();
        let mut out = vec![];
        let mut next = 0u32;
        for (s, e) in r {
            let from = s.max(next);
            if from > e {
                continue;
            }
            for c in from..=e {
                if let Some(g) = self.map(c) {
                    out.push((c, g));
                }
            }
            next = e + 1;
        }
        out
    }
}

#[derive(Clone, Debug)]
pub struct Record {
    pub platform: u32,
    pub encoding: u32,
    pub offset: u32,
    pub format: u32,
    pub sub: Option<Sub>,
}

/// One variation selector record of a format 14 subtable.
#[derive(Clone, Debug)]
pub struct Uvs {
    pub selector: u32,
    /// default UVS ranges (start, additionalCount)
    pub default: Vec<(u32, u32)>,
    /// non-default (character, glyph)
    pub non_default: Vec<(u32, u32)>,
}

#[derive(Clone, Debug, Default)]
pub struct RefCmap {
    pub records: Vec<Record>,
    /// index of the record whose subtable answers `map`
    pub best: Option<usize>,
    pub symbol: bool,
    pub uvs: Vec<Uvs>,
}

#[derive(Clone, Copy, Debug, PartialEq, Eq)]
pub enum Variant {
    UseDefault,
    Glyph(u32),
}

impl RefCmap {
    /// `None` when there is no cmap table or its header / a needed subtable cannot be read.
    pub fn new(file: &[u8], index: u32) -> Option<RefCmap> {
        let cmap = raw_table(file, index, b"cmap")?;
        let n = be16(cmap, 2)? as usize;
        let mut records = vec![];
        for i in 0..n {
            let r = 4 + 8 * i;
            let offset = be32(cmap, r + 4)?;
            let (format, sub) = Sub::parse(cmap, offset as usize).unwrap_or((u32::MAX, None));
            records.push(Record { platform: be16(cmap, r)?, encoding: be16(cmap, r + 2)?, offset, format, sub });
        }
        // kind: 3 symbol, 2 full Unicode, 1 BMP Unicode
        let kind = |r: &Record| -> u32 {
            if r.sub.is_none() {
                return 0;
            }
            match (r.platform, r.encoding) {
                (0, 5) => 0,
                (3, 0) => 3,
                (3, 10) | (0, 4) => 2,
                (2, _) | (0, _) | (3, 1) => 1,
                _ => 0,
            }
        };
        let mut best: Option<usize> = None;
        let mut best_kind = 0;
        for i in (0..records.len()).rev() {
            let k = kind(&records[i]);
            if k > best_kind {
                best_kind = k;
                best = Some(i);
            }
        }
        let mut uvs = vec![];
        if let Some(r) = records.iter().rev().find(|r| r.platform == 0 && r.encoding == 5 && r.format == 14) {
            let off = r.offset as usize;
            let n = be32(cmap, off + 6)? as usize;
            for i in 0..n {
                let v = off + 10 + 11 * i;
                let selector = be24(cmap, v)?;
                let d = be32(cmap, v + 3)? as usize;
                let nd = be32(cmap, v + 7)? as usize;
                let mut default = vec![];
                let mut non_default = vec![];
                if d != 0 {
                    let m = be32(cmap, off + d)? as usize;
                    for k in 0..m {
                        let e = off + d + 4 + 4 * k;
                        default.push((be24(cmap, e)?, *cmap.get(e + 3)? as u32));
                    }
                }
                if nd != 0 {
                    let m = be32(cmap, off + nd)? as usize;
                    for k in 0..m {
                        let e = off + nd + 4 + 5 * k;
                        non_default.push((be24(cmap, e)?, be16(cmap, e + 3)?));
                    }
                }
                uvs.push(Uvs { selector, default, non_default });
            }
        }
        Some(RefCmap { records, best, symbol: best_kind == 3, uvs })
    }

    pub fn best_sub(&self) -> Option<&Sub> {
        self.records[self.best?].sub.as_ref()
    }

    pub fn best_format(&self) -> u32 {
        self.best.map(|i| self.records[i].format).unwrap_or(0)
    }

    /// The nominal glyph of character `c`.
    pub fn map(&self, c: u32) -> Option<u32> {
        let s = self.best_sub()?;
        s.map(c).or_else(|| if self.symbol && c <= 0xFF { s.map(c + 0xF000) } else { None })
    }

    /// Every (character, glyph) `map` answers, ascending (for a symbol subtable the U+0000..U+00FF
    /// aliases are included).
    pub fn mappings(&self) -> Vec<(u32, u32)> {
        let Some(s) = self.best_sub() else {
            return vec![];
        };
        let mut m = s.mappings();
        if self.symbol {
            let have: std::collections::BTreeSet<u32> = m.iter().map(|p| p.0).collect();
            for c in 0..=0xFFu32 {
                if !have.contains(&c) {
                    if let Some(g) = s.map(c + 0xF000) {
                        m.push((c, g));
                    }
                }
            }
            m.sort();
        }
        m
    }

    /// Inclusive code ranges named by any format 4 / 12 subtable of the font, merged and ascending.
    pub fn named_ranges(&self) -> Vec<(u32, u32)> {
        let mut r: Vec<(u32, u32)> = self.records.iter().filter_map(|r| r.sub.as_ref()).flat_map(|s| s.ranges()).collect();
        r.sort();
        let mut out: Vec<(u32, u32)> = vec![];
        for (s, e) in r {
            match out.last_mut() {
                Some(l) if s <= l.1.saturating_add(1) => l.1 = l.1.max(e),
                _ => out.push((s, e)),
            }
        }
        out
    }

    pub fn selectors(&self) -> Vec<u32> {
        self.uvs.iter().map(|u| u.selector).collect()
    }

    /// Format 14 lookup: a non-default mapping wins; else a default range containing `c` means "use the
    /// nominal glyph".
    pub fn map_variant(&self, c: u32, selector: u32) -> Option<Variant> {
        let u = self.uvs.iter().find(|u| u.selector == selector)?;
        if let Some((_, g)) = u.non_default.iter().find(|p| p.0 == c) {
            return Some(Variant::Glyph(*g));
        }
        if u.default.iter().any(|(s, n)| *s <= c && c <= *s + *n) {
            return Some(Variant::UseDefault);
        }
        None
    }

    /// Every (character, selector, mapping) of the format 14 subtable.
    pub fn variant_mappings(&self) -> Vec<(u32, u32, Variant)> {
        let mut out = vec![];
        for u in &self.uvs {
            for (s, n) in &u.default {
                for c in *s..=*s + *n {
                    // a non-default entry for the same character wins in map_variant
                    if !u.non_default.iter().any(|p| p.0 == c) {
                        out.push((c, u.selector, Variant::UseDefault));
                    }
                }
            }
            for (c, g) in &u.non_default {
                out.push((*c, u.selector, Variant::Glyph(*g)));
            }
        }
        out
    }
}

/// (advance width, left side bearing) of glyph `gid` read from the raw `hmtx` / `hhea` / `maxp` bytes:
/// the first numberOfHMetrics glyphs have (advance, lsb) records, later glyphs repeat the last advance and
/// have a 16-bit side bearing each.
pub fn raw_hmtx(file: &[u8], index: u32, gid: u32) -> Option<(u16, i16)> {
    let hhea = raw_table(file, index, b"hhea")?;
    let hmtx = raw_table(file, index, b"hmtx")?;
    let maxp = raw_table(file, index, b"maxp")?;
    let n_long = be16(hhea, 34)?;
    let n = be16(maxp, 4)?;
    if gid >= n || n_long == 0 {
        return None;
    }
    if gid < n_long {
        Some((be16(hmtx, 4 * gid as usize)? as u16, be16(hmtx, 4 * gid as usize + 2)? as u16 as i16))
    } else {
        let adv = be16(hmtx, 4 * (n_long as usize - 1))? as u16;
        let lsb = be16(hmtx, 4 * n_long as usize + 2 * (gid - n_long) as usize)? as u16 as i16;
        Some((adv, lsb))
    }
}
