//! C17 — subsetting preserves everything about the glyphs and characters it keeps.
//!
//! Bounded exhaustive exploration of `klippa::subset_font` (DESIGN.md §3 C17):
//!
//! * fonts: every corpus font with `glyf`/`loca` outlines (static, variable, colour; TTC members too);
//! * requests, in a fixed order:
//!   - *tiny* fonts (glyphs + mapped characters + one unmapped character ≤ 9 items quick / 12 thorough):
//!     every subset of that item set;
//!   - the other fonts: every subset of size ≤ k (k = 2 quick, 3 thorough) of a per-font boundary set of
//!     ≤ 10 glyph ids and ≤ 10 characters (so requests by gid only, by unicode only and mixed are all
//!     enumerated);
//!   - the request "everything" (all glyph ids and all mapped characters);
//!   - the singles layer: every glyph id alone and every mapped character alone;
//!   - the loca format boundary family (see `loca_boundary_family`): for fonts whose glyf data exceeds
//!     64 KiB, the prefixes "glyph ids 0..=j" for j within ±4 of where the subset's padded / unpadded glyf
//!     total reaches 0x10000 and 0x1FFFF, under {DEFAULT, RETAIN_GIDS, NO_HINTING} (8 flag sets and a
//!     second pass in thorough);
//! * one derived font (Roboto-Regular.abc.ttf plus a cmap format 14 subtable; no glyf corpus font has
//!   one) whose variation selectors are requested like characters: a requested (character, selector)
//!   sequence must stay "use default" or map to a glyph with equal observations;
//! * flags: all 2^5 combinations of {NO_HINTING, RETAIN_GIDS, SET_OVERLAPS_FLAG, NOTDEF_OUTLINE,
//!   GLYPH_NAMES} (singles layer: default only in quick, 3 combinations in thorough);
//! * for every case the subset is produced, verified against the original, then subset *again* with the
//!   same request (glyph ids translated through the derived old→new relation) and verified again.
//! * two reductions, both reported in the evidence: a font with > 100 000 mapped characters
//!   (AdobeBlank) gets k − 1 and a covering set of flag combinations; a font whose cmap puts a format-12
//!   subtable under a BMP-only encoding record (autohint_cmap.ttf) gets glyph-id requests only.
//!
//! * round-11 additions: the alias family (absent characters b + {1,2,16}·0x10000 / s & 0xFFFF that alias a
//!   mapped character, alone / with the aliased character / with a glyph id / all together), glyph-shape
//!   classes × the byte-rewriting flag sets, the hmtx tail family, and a derived font with an HVAR LSB map;
//! * the judge of "what does a font map" is the harness' own from-spec cmap reader (`cmapref.rs`), for the
//!   original and for every subset; skrifa's `Charmap` (the property's observer and what klippa's plan
//!   uses) must agree with it on every code point any subtable names and on the ±1 / ±k·0x10000 alias
//!   probes of the kept and requested characters; every other Unicode subtable of the subset is judged
//!   too; a request's absent characters must not change the glyph count or the character map; the raw
//!   hmtx record of every derived pair is compared independently of skrifa.
//!
//! The oracle never looks at klippa's plan: the old→new glyph relation is derived from the two fonts
//! (cmap of requested characters, identity under RETAIN_GIDS, positional component ids of paired
//! composites, closed transitively; glyphs requested by id only — and the components they reach — are
//! searched by equal observations). Observations are made through skrifa on both fonts: unhinted pen
//! stream, the outline loader's advance, glyph_metrics advance and left side bearing at sizes
//! {unscaled, 16} × locations {default, each axis ±1, one mixed point}.
//!
//! Triage aids (not used by ./check): `C17_DEBUG=1 ./check C17 --replay f` prints cmap records, table
//! sizes and per-character mappings of both subset levels; `C17_SCAN=<font file name>` lists failing
//! single-glyph / single-character requests.
//! Derived fonts `+no-adv-map`, `+no-adv-map-long-words`, `+long-hvar` (HVAR without index maps; 16-bit
//! words / LONG_WORDS with small deltas / LONG_WORDS with deltas outside i16) guard the fixes c527e46 and
//! 32dcf4f (PROPOSED_FIX_hvar_no_adv_map_and_long_words.diff is what was proposed).

use klippa::{subset_font, Plan, SubsetFlags, DEFAULT_LAYOUT_FEATURES};
use rayon::prelude::*;
use serde_json::{json, Value};
use skrifa::{
    instance::{LocationRef, Size},
    metrics::GlyphMetrics,
    outline::{DrawSettings, OutlineGlyphCollection, OutlinePen},
    raw::{
        collections::IntSet,
        tables::glyf::Glyph,
        types::{F2Dot14, NameId},
        FontRef, TableProvider,
    },
    GlyphId, MetadataProvider, Tag,
};
use std::collections::{BTreeMap, BTreeSet, HashSet};
use vcore::*;

mod cmapref;
use cmapref::{RefCmap, Variant};

fn main() {
    main_for("C17", body)
}

// ---------------------------------------------------------------------------------------------
// flags
// ---------------------------------------------------------------------------------------------

const F_NO_HINTING: u16 = 0x0001;
const F_RETAIN_GIDS: u16 = 0x0002;
const F_SET_OVERLAPS: u16 = 0x0010;
const F_NOTDEF_OUTLINE: u16 = 0x0040;
const F_GLYPH_NAMES: u16 = 0x0080;
const FLAG_BITS: [u16; 5] = [
    F_NO_HINTING,
    F_RETAIN_GIDS,
    F_SET_OVERLAPS,
    F_NOTDEF_OUTLINE,
    F_GLYPH_NAMES,
];

fn flag_sets() -> Vec<u16> {
    (0u16..32)
        .map(|m| {
            FLAG_BITS
                .iter()
                .enumerate()
                .filter(|(i, _)| m & (1 << i) != 0)
                .fold(0u16, |a, (_, b)| a | b)
        })
        .collect()
}

fn flag_names(f: u16) -> String {
    let mut v = vec![];
    for (b, n) in [
        (F_NO_HINTING, "NO_HINTING"),
        (F_RETAIN_GIDS, "RETAIN_GIDS"),
        (F_SET_OVERLAPS, "SET_OVERLAPS"),
        (F_NOTDEF_OUTLINE, "NOTDEF_OUTLINE"),
        (F_GLYPH_NAMES, "GLYPH_NAMES"),
    ] {
        if f & b != 0 {
            v.push(n);
        }
    }
    if v.is_empty() {
        "DEFAULT".into()
    } else {
        v.join("|")
    }
}

// ---------------------------------------------------------------------------------------------
// observations of one glyph (reference and subset are both read through skrifa)
// ---------------------------------------------------------------------------------------------

/// Pen that folds the exact command stream (verbs + f32 bit patterns) into a digest.
struct HashPen {
    h: Fnv,
    n: u32,
}
impl OutlinePen for HashPen {
    fn move_to(&mut self, x: f32, y: f32) {
        self.h.u64(0x10 | ((x.to_bits() as u64) << 32));
        self.h.u64(y.to_bits() as u64);
        self.n += 1;
    }
    fn line_to(&mut self, x: f32, y: f32) {
        self.h.u64(0x11 | ((x.to_bits() as u64) << 32));
        self.h.u64(y.to_bits() as u64);
        self.n += 1;
    }
    fn quad_to(&mut self, a: f32, b: f32, x: f32, y: f32) {
        self.h.u64(0x12 | ((a.to_bits() as u64) << 32));
        self.h.u64(b.to_bits() as u64 | ((x.to_bits() as u64) << 32));
        self.h.u64(y.to_bits() as u64);
        self.n += 1;
    }
    fn curve_to(&mut self, a: f32, b: f32, c: f32, d: f32, x: f32, y: f32) {
        self.h.u64(0x13 | ((a.to_bits() as u64) << 32));
        self.h.u64(b.to_bits() as u64 | ((c.to_bits() as u64) << 32));
        self.h.u64(d.to_bits() as u64 | ((x.to_bits() as u64) << 32));
        self.h.u64(y.to_bits() as u64);
        self.n += 1;
    }
    fn close(&mut self) {
        self.h.u64(0x14);
        self.n += 1;
    }
}

/// Pen that renders the stream as text (only used in failure messages).
#[derive(Default)]
struct TextPen(String);
impl OutlinePen for TextPen {
    fn move_to(&mut self, x: f32, y: f32) {
        self.0.push_str(&format!("M{x},{y} "));
    }
    fn line_to(&mut self, x: f32, y: f32) {
        self.0.push_str(&format!("L{x},{y} "));
    }
    fn quad_to(&mut self, a: f32, b: f32, x: f32, y: f32) {
        self.0.push_str(&format!("Q{a},{b} {x},{y} "));
    }
    fn curve_to(&mut self, a: f32, b: f32, c: f32, d: f32, x: f32, y: f32) {
        self.0.push_str(&format!("C{a},{b} {c},{d} {x},{y} "));
    }
    fn close(&mut self) {
        self.0.push_str("Z ");
    }
}

#[derive(Clone, Copy, PartialEq, Eq, Debug)]
struct Obs {
    /// unhinted pen stream + the advance the outline loader reports, over all sizes × locations
    outline: u64,
    /// glyph_metrics advance width + left side bearing over all sizes × locations
    metrics: u64,
    /// glyph_metrics advance width alone (so that an advance defect and a side-bearing defect get
    /// different identities)
    advance: u64,
    /// some draw produced at least one pen command
    nonempty: bool,
    /// every draw returned Ok (false ⇒ the reference itself cannot draw the glyph; not compared)
    ok: bool,
}

const SIZES: [Option<f32>; 2] = [None, Some(16.0)];

fn size_of(s: Option<f32>) -> Size {
    match s {
        None => Size::unscaled(),
        Some(p) => Size::new(p),
    }
}

/// Observer for one font: glyph metrics objects are built once per (size, location).
struct Observer<'a> {
    outlines: OutlineGlyphCollection<'a>,
    grid: Vec<(Option<f32>, &'a [F2Dot14], GlyphMetrics<'a>)>,
}

impl<'a> Observer<'a> {
    fn new(font: &FontRef<'a>, locs: &'a [Vec<F2Dot14>]) -> Self {
        let mut grid = vec![];
        for s in SIZES {
            for l in locs {
                let gm = font.glyph_metrics(size_of(s), LocationRef::new(l));
                grid.push((s, l.as_slice(), gm));
            }
        }
        Observer {
            outlines: font.outline_glyphs(),
            grid,
        }
    }

    fn observe(&self, gid: u32) -> Obs {
        let g = GlyphId::new(gid);
        let mut ho = Fnv::new();
        let mut hm = Fnv::new();
        let mut ha = Fnv::new();
        let mut nonempty = false;
        let mut ok = true;
        let glyph = self.outlines.get(g);
        for (s, loc, gm) in &self.grid {
            match gm.advance_width(g) {
                Some(a) => {
                    hm.u64(a.to_bits() as u64);
                    ha.u64(a.to_bits() as u64)
                }
                None => {
                    hm.u64(0xFFFF_FFFF_0000);
                    ha.u64(0xFFFF_FFFF_0000)
                }
            }
            match gm.left_side_bearing(g) {
                Some(a) => hm.u64(a.to_bits() as u64),
                None => hm.u64(0xFFFF_FFFF_0001),
            }
            match &glyph {
                None => ho.u64(0xDEAD),
                Some(glyph) => {
                    let mut pen = HashPen {
                        h: Fnv::new(),
                        n: 0,
                    };
                    let settings = DrawSettings::unhinted(size_of(*s), LocationRef::new(loc));
                    match glyph.draw(settings, &mut pen) {
                        Ok(m) => {
                            ho.u64(pen.h.finish());
                            ho.u64(pen.n as u64);
                            match m.advance_width {
                                Some(a) => ho.u64(a.to_bits() as u64),
                                None => ho.u64(0xFFFF_FFFF_0002),
                            }
                            if pen.n > 0 {
                                nonempty = true;
                            }
                        }
                        Err(_) => {
                            ok = false;
                            ho.u64(0xE44);
                        }
                    }
                }
            }
        }
        Obs {
            outline: ho.finish(),
            metrics: hm.finish(),
            advance: ha.finish(),
            nonempty,
            ok,
        }
    }
}

/// Human readable first difference between original glyph `o` and subset glyph `n`.
fn describe_diff(
    orig: &FontRef,
    o: u32,
    sub: &FontRef,
    n: u32,
    locs: &[Vec<F2Dot14>],
    with_outline: bool,
) -> String {
    for s in SIZES {
        for l in locs {
            let lr = LocationRef::new(l);
            let a = orig.glyph_metrics(size_of(s), lr);
            let b = sub.glyph_metrics(size_of(s), lr);
            let (aa, ba) = (
                a.advance_width(GlyphId::new(o)),
                b.advance_width(GlyphId::new(n)),
            );
            let (al, bl) = (
                a.left_side_bearing(GlyphId::new(o)),
                b.left_side_bearing(GlyphId::new(n)),
            );
            let coords: Vec<f32> = l.iter().map(|c| c.to_f32()).collect();
            if aa.map(f32::to_bits) != ba.map(f32::to_bits) {
                return format!("advance at size {s:?} coords {coords:?}: original {aa:?}, subset {ba:?}");
            }
            if al.map(f32::to_bits) != bl.map(f32::to_bits) {
                return format!("lsb at size {s:?} coords {coords:?}: original {al:?}, subset {bl:?}");
            }
            if !with_outline {
                continue;
            }
            let mut pa = TextPen::default();
            let mut pb = TextPen::default();
            let ra = orig
                .outline_glyphs()
                .get(GlyphId::new(o))
                .map(|g| g.draw(DrawSettings::unhinted(size_of(s), lr), &mut pa).map(|m| m.advance_width.map(f32::to_bits)).map_err(|e| e.to_string()));
            let rb = sub
                .outline_glyphs()
                .get(GlyphId::new(n))
                .map(|g| g.draw(DrawSettings::unhinted(size_of(s), lr), &mut pb).map(|m| m.advance_width.map(f32::to_bits)).map_err(|e| e.to_string()));
            if pa.0 != pb.0 || ra != rb {
                let cut = |s: &str| s.chars().take(160).collect::<String>();
                return format!(
                    "outline at size {s:?} coords {coords:?}: original {:?} [{}] subset {:?} [{}]",
                    ra,
                    cut(&pa.0),
                    rb,
                    cut(&pb.0)
                );
            }
        }
    }
    "digests differ but no textual difference found".into()
}

/// left side bearings equal at every size × location
fn lsb_equal(orig: &FontRef, o: u32, sub: &FontRef, n: u32, locs: &[Vec<F2Dot14>]) -> bool {
    SIZES.iter().all(|s| {
        locs.iter().all(|l| {
            let lr = LocationRef::new(l);
            orig.glyph_metrics(size_of(*s), lr).left_side_bearing(GlyphId::new(o)).map(f32::to_bits)
                == sub.glyph_metrics(size_of(*s), lr).left_side_bearing(GlyphId::new(n)).map(f32::to_bits)
        })
    })
}

/// unhinted pen streams equal at every size × location (the loader's advance is not looked at)
fn streams_equal(orig: &FontRef, o: u32, sub: &FontRef, n: u32, locs: &[Vec<F2Dot14>]) -> bool {
    SIZES.iter().all(|s| {
        locs.iter().all(|l| {
            let lr = LocationRef::new(l);
            let mut pa = TextPen::default();
            let mut pb = TextPen::default();
            let ra = orig.outline_glyphs().get(GlyphId::new(o)).map(|g| g.draw(DrawSettings::unhinted(size_of(*s), lr), &mut pa).is_ok());
            let rb = sub.outline_glyphs().get(GlyphId::new(n)).map(|g| g.draw(DrawSettings::unhinted(size_of(*s), lr), &mut pb).is_ok());
            ra == rb && pa.0 == pb.0
        })
    })
}

// ---------------------------------------------------------------------------------------------
// per-font reference information
// ---------------------------------------------------------------------------------------------

struct FontInfo {
    name: String,
    bytes: Vec<u8>,
    index: u32,
    num_glyphs: u32,
    num_long_metrics: u32,
    /// every nominal mapping of the original (targets may be ≥ num_glyphs: outside the property)
    cmap: BTreeMap<u32, u32>,
    /// direct component ids per glyph (empty for simple/empty glyphs)
    comps: Vec<Vec<u32>>,
    /// component closure (incl. the glyph itself) contains glyph 0
    reach0: Vec<bool>,
    locs: Vec<Vec<F2Dot14>>,
    obs: Vec<Obs>,
    axes: usize,
    bgl: Vec<u32>,
    bch: Vec<u32>,
    tiny: bool,
    colr: bool,
    /// glyphs grouped by their HVAR advance delta-set index (outer << 16 | inner), classes in ascending
    /// index order; empty when the font has no HVAR advance index map
    hvar_classes: Vec<BTreeSet<u32>>,
    /// seams of adjacent cmap format-12 groups: (last code of a group, first code of the next)
    seams: Vec<(u32, u32)>,
    /// cmap format 14: (character, variation selector, Some(glyph) for a non-default mapping / None for
    /// "use the default glyph")
    variants: Vec<(u32, u32, Option<u32>)>,
    /// more than HUGE_CMAP mapped characters (AdobeBlank maps 1.1 M characters to one glyph): every
    /// request naming that glyph costs seconds, so the request space is reduced (see `requests_for`)
    huge_cmap: bool,
    /// the cmap has a format-12 subtable under a BMP-only encoding record ((3,1) or (0,3)), which the
    /// OpenType specification reserves for format 4 (autohint_cmap.ttf). klippa, like hb-subset, refuses
    /// to subset such a cmap and drops it; "requested characters stay mapped" is not judged on such a
    /// font (glyph-id requests are).
    nonconforming_cmap: bool,
    /// the harness' own from-spec reading of the original's cmap (judge of "what does the original map")
    refcmap: RefCmap,
    /// load-time differential: places where skrifa's `Charmap` of the ORIGINAL disagrees with `refcmap`
    charmap_diffs: Vec<String>,
    /// absent characters that alias a mapped one modulo 0x10000 (see `alias_chars`)
    aliases: Vec<u32>,
}

const HUGE_CMAP: usize = 100_000;

impl FontInfo {
    fn font(&self) -> FontRef<'_> {
        FontRef::from_index(&self.bytes, self.index).unwrap()
    }
    fn bytes_for_raw(&self) -> &[u8] {
        &self.bytes
    }
    fn valid_target(&self, cp: u32) -> Option<u32> {
        self.cmap.get(&cp).copied().filter(|g| *g < self.num_glyphs)
    }
    fn closure(&self, g: u32, out: &mut BTreeSet<u32>) {
        if g >= self.num_glyphs || !out.insert(g) {
            return;
        }
        for c in &self.comps[g as usize] {
            self.closure(*c, out);
        }
    }
}

fn direct_components(font: &FontRef, gid: u32) -> Option<Vec<u32>> {
    let loca = font.loca(None).ok()?;
    let glyf = font.glyf().ok()?;
    match loca.get_glyf(GlyphId::new(gid), &glyf) {
        Ok(Some(Glyph::Composite(c))) => Some(c.components().map(|c| c.glyph.to_u32()).collect()),
        Ok(_) => Some(vec![]),
        Err(_) => None,
    }
}

fn locations(axes: usize) -> Vec<Vec<F2Dot14>> {
    // default, each axis at ±1 (others 0), one mixed interior point
    let mut out = vec![vec![F2Dot14::ZERO; axes]];
    if axes == 0 {
        return out;
    }
    for a in 0..axes {
        for v in [1.0f32, -1.0] {
            let mut l = vec![F2Dot14::ZERO; axes];
            l[a] = F2Dot14::from_f32(v);
            out.push(l);
        }
    }
    let mixed: Vec<F2Dot14> = (0..axes)
        .map(|a| F2Dot14::from_f32(if a % 2 == 0 { 0.5 } else { -0.25 }))
        .collect();
    out.push(mixed);
    out
}

const TINY_ITEMS_QUICK: usize = 9;
const TINY_ITEMS_THOROUGH: usize = 12;

/// Code-point ranges (inclusive) named by any cmap subtable, read from the raw segment / group fields —
/// NOT through the `Charmap::mappings()` / `Cmap12::iter()` iterators, so that a defect of those
/// iterators cannot hide characters from the harness.
fn raw_cmap_ranges(font: &FontRef) -> Vec<(u32, u32)> {
    use skrifa::raw::tables::cmap::CmapSubtable;
    let mut ranges: Vec<(u32, u32)> = vec![];
    let Ok(cmap) = font.cmap() else {
        return ranges;
    };
    for rec in cmap.encoding_records() {
        match rec.subtable(cmap.offset_data()) {
            Ok(CmapSubtable::Format4(t)) => {
                for (s, e) in t.start_code().iter().zip(t.end_code().iter()) {
                    let (s, e) = (s.get() as u32, e.get() as u32);
                    // U+FFFF is the format's own sentinel
                    if s <= e && s != 0xFFFF {
                        ranges.push((s, e.min(0xFFFE)));
                    }
                }
            }
            Ok(CmapSubtable::Format12(t)) => {
                for g in t.groups() {
                    if g.start_char_code() <= g.end_char_code() {
                        ranges.push((g.start_char_code(), g.end_char_code().min(0x10FFFF)));
                    }
                }
            }
            Ok(CmapSubtable::Format13(t)) => {
                for g in t.groups() {
                    if g.start_char_code() <= g.end_char_code() {
                        ranges.push((g.start_char_code(), g.end_char_code().min(0x10FFFF)));
                    }
                }
            }
            Ok(CmapSubtable::Format6(t)) => {
                let s = t.first_code() as u32;
                if t.entry_count() > 0 {
                    ranges.push((s, s + t.entry_count() as u32 - 1));
                }
            }
            Ok(CmapSubtable::Format0(_)) => ranges.push((0, 255)),
            _ => {}
        }
    }
    ranges.sort();
    // merge
    let mut out: Vec<(u32, u32)> = vec![];
    for (s, e) in ranges {
        match out.last_mut() {
            Some(l) if s <= l.1.saturating_add(1) => l.1 = l.1.max(e),
            _ => out.push((s, e)),
        }
    }
    out
}

/// Characters on the seams of ADJACENT format-12 groups (a group that starts right after the previous
/// one ends): for the first `max` seams, the last code of the earlier and the first code of the later
/// group.
fn cmap12_seams(font: &FontRef, max: usize) -> Vec<(u32, u32)> {
    use skrifa::raw::tables::cmap::CmapSubtable;
    let mut out = vec![];
    let Ok(cmap) = font.cmap() else {
        return out;
    };
    for rec in cmap.encoding_records() {
        if let Ok(CmapSubtable::Format12(t)) = rec.subtable(cmap.offset_data()) {
            let groups = t.groups();
            for w in groups.windows(2) {
                if w[1].start_char_code() == w[0].end_char_code().wrapping_add(1) && out.len() < max {
                    let pair = (w[0].end_char_code(), w[1].start_char_code());
                    if !out.contains(&pair) {
                        out.push(pair);
                    }
                }
            }
        }
    }
    out
}

/// Cap of the alias / neighbour probes: all mapped characters when there are at most this many, else the
/// first and last PROBE_EDGE of them (in code point order).
const PROBE_EDGE: usize = 128;

/// The probe alphabet of the Charmap differential for a font whose from-spec reading is `r`:
/// * every code point any format 4 / 12 subtable names (from the reader's ranges and from `extra`);
/// * for mapped characters c (all if ≤ 2·PROBE_EDGE, else the first and last PROBE_EDGE): c − 1, c + 1,
///   every alias c + k·0x10000 (k = 1..=16, ≤ U+10FFFF) of a BMP c, and the BMP alias c & 0xFFFF of a
///   supplementary c;
/// * a fixed set of boundary code points.
fn probe_set(r: &RefCmap, extra: &[(u32, u32)], also: &[u32]) -> Vec<u32> {
    let mut out: Vec<u32> = vec![];
    for (s, e) in r.named_ranges().into_iter().chain(extra.iter().copied()) {
        out.extend(s..=e.min(0x10FFFF));
    }
    let mapped = r.mappings();
    let edge: Vec<u32> = if mapped.len() <= 2 * PROBE_EDGE {
        mapped.iter().map(|p| p.0).collect()
    } else {
        mapped[..PROBE_EDGE].iter().chain(mapped[mapped.len() - PROBE_EDGE..].iter()).map(|p| p.0).collect()
    };
    for c in edge.into_iter().chain(also.iter().copied()) {
        out.push(c.saturating_sub(1));
        out.push(c + 1);
        if c <= 0xFFFF {
            for k in 1..=16u32 {
                out.push(c + k * 0x10000);
            }
        } else {
            out.push(c & 0xFFFF);
        }
        out.push(c);
    }
    out.extend([0u32, 0x20, 0x41, 0xFF, 0x100, 0xF020, 0xF041, 0xFFFE, 0xFFFF, 0x10000, 0x10041, 0x1FFFF, 0x10FFFF, 0x110000, 0x110041]);
    out.sort();
    out.dedup();
    out
}

/// Places (at most `max`) where skrifa's `Charmap::map` disagrees with the from-spec reader.
fn charmap_differential(font: &FontRef, r: &RefCmap, extra: &[(u32, u32)], max: usize) -> Vec<String> {
    let cm = font.charmap();
    let mut out = vec![];
    for c in probe_set(r, extra, &[]) {
        let a = cm.map(c).map(|g| g.to_u32());
        let b = r.map(c);
        if a != b {
            out.push(format!("U+{c:04X}: Charmap::map says {a:?}, the from-spec reading of the cmap (selected subtable: record {:?}, format {}) says {b:?}", r.best, r.best_format()));
            if out.len() >= max {
                break;
            }
        }
    }
    out
}

/// Request characters the original does NOT map but whose value modulo 0x10000 is a mapped character (or,
/// for a font that maps supplementary characters, the unmapped BMP value of one): for the first, the 'A'
/// (U+0041) and the last mapped BMP character b: b + 0x10000, b + 0x20000, b + 0x100000; for the first
/// mapped supplementary character s: s & 0xFFFF.
fn alias_chars(fi: &FontInfo) -> Vec<u32> {
    let sel: BTreeSet<u32> = fi.refcmap.selectors().into_iter().collect();
    let valid: Vec<u32> = fi.cmap.iter().filter(|(_, g)| **g < fi.num_glyphs).map(|(c, _)| *c).collect();
    let bmp: Vec<u32> = valid.iter().copied().filter(|c| *c <= 0xFFFF).collect();
    let mut bases: Vec<u32> = vec![];
    for b in [bmp.first().copied(), fi.valid_target(0x41).map(|_| 0x41), bmp.last().copied()].into_iter().flatten() {
        if !bases.contains(&b) {
            bases.push(b);
        }
    }
    let mut out = vec![];
    for b in bases {
        for k in [1u32, 2, 16] {
            let a = b + k * 0x10000;
            if !fi.cmap.contains_key(&a) && !sel.contains(&a) && !out.contains(&a) {
                out.push(a);
            }
        }
    }
    if let Some(s) = valid.iter().find(|c| **c > 0xFFFF) {
        let a = *s & 0xFFFF;
        if !fi.cmap.contains_key(&a) && !sel.contains(&a) && !out.contains(&a) {
            out.push(a);
        }
    }
    out
}

fn load_font(name: String, bytes: Vec<u8>, index: u32, tier: Tier) -> Option<FontInfo> {
    let font = FontRef::from_index(&bytes, index).ok()?;
    font.glyf().ok()?;
    font.loca(None).ok()?;
    font.cmap().ok()?;
    font.hmtx().ok()?;
    let num_glyphs = font.maxp().ok()?.num_glyphs() as u32;
    if num_glyphs == 0 {
        return None;
    }
    let num_long_metrics = font.hhea().ok()?.number_of_h_metrics() as u32;
    // the request-character alphabet and the judge of "what the original maps": the harness' own
    // from-spec cmap reader (never skrifa's Charmap, which klippa's plan uses too)
    let refcmap = RefCmap::new(&bytes, index).unwrap_or_default();
    let cmap: BTreeMap<u32, u32> = refcmap.mappings().into_iter().collect();
    // differential on the original: skrifa's Charmap must agree with the reader on every code point any
    // subtable names (read two ways) and on the alias / neighbour probes of `probe_set`
    let mut charmap_diffs = charmap_differential(&font, &refcmap, &raw_cmap_ranges(&font), 4);
    {
        let mine: BTreeSet<(u32, u32, Option<u32>)> = refcmap
            .variant_mappings()
            .into_iter()
            .map(|(c, s, v)| (c, s, match v { Variant::UseDefault => None, Variant::Glyph(g) => Some(g) }))
            .collect();
        let theirs: BTreeSet<(u32, u32, Option<u32>)> = font
            .charmap()
            .variant_mappings()
            .map(|(c, sel, m)| (c, sel, match m {
                skrifa::charmap::MapVariant::UseDefault => None,
                skrifa::charmap::MapVariant::Variant(g) => Some(g.to_u32()),
            }))
            .collect();
        if let Some(d) = mine.symmetric_difference(&theirs).next() {
            charmap_diffs.push(format!("variation sequence U+{:04X} U+{:04X} -> {:?}: only one of Charmap::variant_mappings and the from-spec format 14 reading has it", d.0, d.1, d.2));
        }
    }
    let seams = cmap12_seams(&font, 8);
    let comps: Vec<Vec<u32>> = (0..num_glyphs)
        .map(|g| direct_components(&font, g).unwrap_or_default())
        .collect();
    let axes = font.axes().len();
    let locs = locations(axes);
    let mut fi = FontInfo {
        name,
        bytes: vec![],
        index,
        num_glyphs,
        num_long_metrics,
        cmap,
        comps,
        reach0: vec![],
        locs,
        obs: vec![],
        axes,
        bgl: vec![],
        bch: vec![],
        tiny: false,
        colr: font.colr().is_ok(),
        hvar_classes: {
            let mut by_index: BTreeMap<u32, BTreeSet<u32>> = BTreeMap::new();
            if let Ok(hvar) = font.hvar() {
                if let Some(Ok(map)) = hvar.advance_width_mapping() {
                    for g in 0..num_glyphs {
                        if let Ok(ix) = map.get(g) {
                            by_index
                                .entry(((ix.outer as u32) << 16) | ix.inner as u32)
                                .or_default()
                                .insert(g);
                        }
                    }
                }
            }
            by_index.into_values().collect()
        },
        seams,
        variants: refcmap
            .variant_mappings()
            .into_iter()
            .map(|(c, sel, v)| (c, sel, match v { Variant::UseDefault => None, Variant::Glyph(g) => Some(g) }))
            .collect(),
        huge_cmap: false,
        nonconforming_cmap: font
            .cmap()
            .map(|cmap| {
                cmap.encoding_records().iter().any(|r| {
                    let bmp_only = (r.platform_id() == skrifa::raw::tables::cmap::PlatformId::Windows && r.encoding_id() == 1)
                        || (r.platform_id() == skrifa::raw::tables::cmap::PlatformId::Unicode && r.encoding_id() == 3);
                    bmp_only && r.subtable(cmap.offset_data()).map(|s| s.format() == 12).unwrap_or(false)
                })
            })
            .unwrap_or(false),
        refcmap,
        charmap_diffs,
        aliases: vec![],
    };
    fi.huge_cmap = fi.cmap.len() > HUGE_CMAP;
    fi.aliases = alias_chars(&fi);
    fi.reach0 = (0..num_glyphs)
        .map(|g| {
            let mut s = BTreeSet::new();
            fi.closure(g, &mut s);
            s.contains(&0)
        })
        .collect();
    {
        let ob = Observer::new(&font, &fi.locs);
        fi.obs = (0..num_glyphs).map(|g| ob.observe(g)).collect();
    }
    boundary_sets(&font, &mut fi);
    let valid_chars = fi.cmap.iter().filter(|(_, g)| **g < num_glyphs).count();
    let selectors: BTreeSet<u32> = fi.variants.iter().map(|v| v.1).collect();
    let items = num_glyphs as usize + valid_chars + 1 + selectors.len();
    fi.tiny = !selectors.is_empty() && items <= 12 || items <= tier.pick(TINY_ITEMS_QUICK, TINY_ITEMS_THOROUGH);
    fi.bytes = bytes;
    Some(fi)
}

/// The per-font boundary sets (≤ 10 glyph ids, ≤ 10 characters), in a fixed priority order.
fn boundary_sets(font: &FontRef, fi: &mut FontInfo) {
    let n = fi.num_glyphs;
    let mut gl: Vec<u32> = vec![];
    let push = |v: &mut Vec<u32>, g: u32| {
        if g < n && !v.contains(&g) && v.len() < 10 {
            v.push(g);
        }
    };
    push(&mut gl, 0);
    // first composite with at least two components, and its first two components
    if let Some(g) = (0..n).find(|g| fi.comps[*g as usize].len() >= 2) {
        push(&mut gl, g);
        let c = fi.comps[g as usize].clone();
        push(&mut gl, c[0]);
        push(&mut gl, c[1]);
    }
    // both sides of the long-metric boundary
    if fi.num_long_metrics >= 1 {
        push(&mut gl, fi.num_long_metrics - 1);
    }
    push(&mut gl, fi.num_long_metrics);
    push(&mut gl, n - 1);
    // COLR base glyphs (v0, v1) and the first v0 layer glyph
    let mut colr_bases: Vec<u32> = vec![];
    if let Ok(colr) = font.colr() {
        if let Some(Ok(recs)) = colr.base_glyph_records() {
            if let Some(r) = recs.first() {
                colr_bases.push(r.glyph_id().to_u32());
            }
        }
        if let Some(Ok(list)) = colr.base_glyph_list() {
            if let Some(r) = list.base_glyph_paint_records().first() {
                colr_bases.push(r.glyph_id().to_u32());
            }
            if let Some(r) = list.base_glyph_paint_records().last() {
                colr_bases.push(r.glyph_id().to_u32());
            }
        }
    }
    for g in &colr_bases {
        push(&mut gl, *g);
    }
    // a composite one of whose components is itself a composite
    if let Some(g) = (0..n).find(|g| {
        fi.comps[*g as usize]
            .iter()
            .any(|c| (*c as usize) < fi.comps.len() && !fi.comps[*c as usize].is_empty())
    }) {
        push(&mut gl, g);
    }
    if let Some(g) = (0..n).find(|g| !fi.comps[*g as usize].is_empty()) {
        push(&mut gl, g);
    }
    push(&mut gl, 1);
    // first glyph after .notdef that draws nothing (space-like)
    if let Some(g) = (1..n).find(|g| !fi.obs[*g as usize].nonempty) {
        push(&mut gl, g);
    }
    if n >= 2 {
        push(&mut gl, n - 2);
    }
    push(&mut gl, n / 2);

    // characters
    let valid: Vec<(u32, u32)> = fi
        .cmap
        .iter()
        .filter(|(_, g)| **g < n)
        .map(|(c, g)| (*c, *g))
        .collect();
    let mut ch: Vec<u32> = vec![];
    let pushc = |v: &mut Vec<u32>, c: u32| {
        if !v.contains(&c) && v.len() < 10 {
            v.push(c);
        }
    };
    if let Some((c, _)) = valid.first() {
        pushc(&mut ch, *c);
    }
    if let Some((c, _)) = valid.last() {
        pushc(&mut ch, *c);
    }
    // two characters mapped to the same glyph
    {
        let mut first_by_gid: BTreeMap<u32, u32> = BTreeMap::new();
        for (c, g) in &valid {
            if let Some(c0) = first_by_gid.get(g) {
                pushc(&mut ch, *c0);
                pushc(&mut ch, *c);
                break;
            }
            first_by_gid.insert(*g, *c);
        }
    }
    // an unmapped character directly after the first mapped range
    if let Some((c0, _)) = valid.first() {
        let mut c = *c0;
        while fi.cmap.contains_key(&c) {
            c += 1;
        }
        pushc(&mut ch, c);
    } else {
        pushc(&mut ch, 0x41);
    }
    // character of a composite glyph
    if let Some((c, _)) = valid.iter().find(|(_, g)| !fi.comps[*g as usize].is_empty()) {
        pushc(&mut ch, *c);
    }
    // character of a glyph beyond the long metrics
    if let Some((c, _)) = valid.iter().find(|(_, g)| *g >= fi.num_long_metrics) {
        pushc(&mut ch, *c);
    }
    // character of a COLR base glyph
    if let Some((c, _)) = valid.iter().find(|(_, g)| colr_bases.contains(g)) {
        pushc(&mut ch, *c);
    }
    // first supplementary-plane character
    if let Some((c, _)) = valid.iter().find(|(c, _)| *c >= 0x10000) {
        pushc(&mut ch, *c);
    }
    // character of a glyph reaching .notdef through components
    if let Some((c, _)) = valid.iter().find(|(_, g)| *g != 0 && fi.reach0[*g as usize]) {
        pushc(&mut ch, *c);
    }
    for c in [0x41u32, 0x20] {
        if fi.valid_target(c).is_some() {
            pushc(&mut ch, c);
        }
    }
    if let Some((c, _)) = valid.get(valid.len() / 2) {
        pushc(&mut ch, *c);
    }
    fi.bgl = gl;
    fi.bch = ch;
}

// ---------------------------------------------------------------------------------------------
// requests
// ---------------------------------------------------------------------------------------------

#[derive(Clone, Debug, PartialEq, Eq, PartialOrd, Ord)]
struct Request {
    gids: Vec<u32>,
    unicodes: Vec<u32>,
}

/// all subsets of `items` with at most `k` members, in a fixed order (by size, then lexicographic)
fn subsets_up_to(n: usize, k: usize) -> Vec<Vec<usize>> {
    let mut out = vec![vec![]];
    let mut frontier: Vec<Vec<usize>> = vec![vec![]];
    for _ in 0..k {
        let mut next = vec![];
        for s in &frontier {
            let start = s.last().map(|l| l + 1).unwrap_or(0);
            for i in start..n {
                let mut t = s.clone();
                t.push(i);
                next.push(t);
            }
        }
        out.extend(next.iter().cloned());
        frontier = next;
    }
    out
}

const SHAPE_CLASSES_MAX: usize = 32;

/// Glyphs grouped by the shape of their glyf record, classes in order of first appearance:
/// composite: the component count (capped at 4) and each of the first four components' structural flag
/// bits (ARG_1_AND_2_ARE_WORDS, WE_HAVE_A_SCALE, MORE_COMPONENTS, X_AND_Y_SCALE, TWO_BY_TWO,
/// WE_HAVE_INSTRUCTIONS, USE_MY_METRICS, OVERLAP_COMPOUND); simple: whether it has instructions, the
/// REPEAT / OVERLAP_SIMPLE bits of its first flag byte, and whether it has no contours.
/// (Placement only: the grouping chooses which glyphs are requested, never what is expected of them.)
fn glyph_shape_classes(fi: &FontInfo) -> Vec<(Vec<u32>, Vec<u32>)> {
    let font = fi.font();
    let mut out: Vec<(Vec<u32>, Vec<u32>)> = vec![];
    let (Ok(loca), Ok(glyf)) = (font.loca(None), font.glyf()) else {
        return out;
    };
    for g in 0..fi.num_glyphs {
        let key: Vec<u32> = match loca.get_glyf(GlyphId::new(g), &glyf) {
            Ok(Some(Glyph::Composite(c))) => {
                let flags: Vec<u32> = c.components().map(|k| (k.flags.bits() & 0x07EB) as u32).collect();
                let mut k = vec![1, flags.len().min(4) as u32];
                k.extend(flags.iter().take(4));
                k
            }
            Ok(Some(Glyph::Simple(sg))) => vec![
                0,
                (sg.instruction_length() > 0) as u32,
                sg.glyph_data().first().map_or(0xFFFF, |b| (*b & 0x48) as u32),
                (sg.number_of_contours() == 0) as u32,
            ],
            _ => continue,
        };
        match out.iter_mut().find(|c| c.0 == key) {
            Some(c) => c.1.push(g),
            None => out.push((key, vec![g])),
        }
    }
    out
}

/// A request together with the flag sets it is run under and whether the subset is subset again.
struct Planned {
    req: Request,
    flags: Vec<u16>,
    resubset: bool,
}

fn requests_for(fi: &FontInfo, tier: Tier) -> Vec<Planned> {
    let all_flags = flag_sets();
    // item = (is_char, value)
    let use_chars = !fi.nonconforming_cmap;
    let (items, k): (Vec<(bool, u32)>, usize) = if fi.tiny {
        let mut it: Vec<(bool, u32)> = (0..fi.num_glyphs).map(|g| (false, g)).collect();
        if use_chars {
            it.extend(
                fi.cmap
                    .iter()
                    .filter(|(_, g)| **g < fi.num_glyphs)
                    .map(|(c, _)| (true, *c)),
            );
            // one unmapped character
            let mut c = fi.cmap.keys().next().copied().unwrap_or(0x41);
            while fi.cmap.contains_key(&c) {
                c += 1;
            }
            it.push((true, c));
            // variation selectors are requested like characters
            let selectors: BTreeSet<u32> = fi.variants.iter().map(|v| v.1).collect();
            it.extend(selectors.into_iter().map(|s| (true, s)));
        }
        let k = it.len();
        (it, k)
    } else {
        let mut it: Vec<(bool, u32)> = fi.bgl.iter().map(|g| (false, *g)).collect();
        if use_chars {
            it.extend(fi.bch.iter().map(|c| (true, *c)));
        }
        // huge cmap: one size smaller
        let k = if fi.huge_cmap { tier.pick(1, 2) } else { tier.pick(2, 3) };
        (it, k)
    };
    // huge cmap: a covering subset of the flag sets instead of all 32
    let main_flags: Vec<u16> = if fi.huge_cmap {
        tier.pick(
            vec![0, F_RETAIN_GIDS],
            vec![0, F_RETAIN_GIDS, F_NO_HINTING | F_SET_OVERLAPS | F_NOTDEF_OUTLINE | F_GLYPH_NAMES, 0x00D3],
        )
    } else {
        all_flags.clone()
    };
    let mut seen: BTreeSet<Request> = BTreeSet::new();
    let mut out: Vec<Planned> = vec![];
    for s in subsets_up_to(items.len(), k) {
        let mut r = Request {
            gids: vec![],
            unicodes: vec![],
        };
        for i in s {
            if items[i].0 {
                r.unicodes.push(items[i].1)
            } else {
                r.gids.push(items[i].1)
            }
        }
        if seen.insert(r.clone()) {
            out.push(Planned {
                req: r,
                flags: main_flags.clone(),
                resubset: true,
            });
        }
    }
    // "everything": all glyph ids and all mapped characters
    let all = Request {
        gids: (0..fi.num_glyphs).collect(),
        unicodes: if use_chars { fi.cmap.keys().copied().collect() } else { vec![] },
    };
    if seen.insert(all.clone()) {
        out.push(Planned {
            req: all,
            flags: main_flags.clone(),
            resubset: true,
        });
    }
    // cmap format-12 group seams: klippa looks characters up one by one for character-only requests but
    // walks the whole character map as soon as a glyph id is requested, so the seam characters are
    // requested together with one glyph id (and all together with one glyph id)
    if !fi.seams.is_empty() && use_chars && !fi.huge_cmap {
        let gids: Vec<u32> = [0u32, *fi.bgl.get(1).unwrap_or(&0)].into_iter().collect();
        let mut reqs: Vec<Request> = vec![];
        let all_seam_chars: Vec<u32> = {
            let mut v: Vec<u32> = fi.seams.iter().flat_map(|(a, b)| [*a, *b]).collect();
            v.sort();
            v.dedup();
            v
        };
        for g in &gids {
            for (a, b) in &fi.seams {
                reqs.push(Request { gids: vec![*g], unicodes: vec![*a] });
                reqs.push(Request { gids: vec![*g], unicodes: vec![*b] });
                reqs.push(Request { gids: vec![*g], unicodes: vec![*a, *b] });
            }
            reqs.push(Request { gids: vec![*g], unicodes: all_seam_chars.clone() });
        }
        for r in reqs {
            if seen.insert(r.clone()) {
                out.push(Planned {
                    req: r,
                    flags: vec![0, F_RETAIN_GIDS],
                    resubset: true,
                });
            }
        }
    }
    // alias family: ABSENT characters whose value modulo 0x10000 is a mapped character (`alias_chars`) —
    // each alone, each with the character it aliases, each with one glyph id, and all together; the
    // subset must be what the request without them gives (see `check_case`)
    if use_chars && !fi.aliases.is_empty() {
        let mut reqs: Vec<Request> = vec![];
        for a in &fi.aliases {
            reqs.push(Request { gids: vec![], unicodes: vec![*a] });
            let b = *a & 0xFFFF;
            if fi.valid_target(b).is_some() {
                reqs.push(Request { gids: vec![], unicodes: vec![b, *a] });
            }
            if !fi.huge_cmap {
                reqs.push(Request { gids: vec![*fi.bgl.get(1).unwrap_or(&0)], unicodes: vec![*a] });
            }
        }
        reqs.push(Request { gids: vec![], unicodes: fi.aliases.clone() });
        for mut r in reqs {
            r.unicodes.sort();
            if seen.insert(r.clone()) {
                out.push(Planned {
                    req: r,
                    flags: vec![0, F_RETAIN_GIDS, F_NO_HINTING | F_NOTDEF_OUTLINE],
                    resubset: true,
                });
            }
        }
    }
    // glyph-shape classes × the flags that rewrite glyph bytes: the glyf writer parses composite records
    // by their flag words (argument width, the three transform forms, instructions, MORE_COMPONENTS) and
    // patches simple glyphs at positions that depend on the instruction length; the singles layer runs
    // every glyph under the default flags only, so one representative (the first glyph, and the first
    // mapped glyph) of every class is requested under the byte-rewriting flag sets, by id and by character.
    {
        let classes = glyph_shape_classes(fi);
        let flag_sets = [
            F_NO_HINTING,
            F_SET_OVERLAPS,
            F_NO_HINTING | F_SET_OVERLAPS | F_NOTDEF_OUTLINE,
            F_NO_HINTING | F_RETAIN_GIDS,
            F_SET_OVERLAPS | F_RETAIN_GIDS,
        ];
        for (_, members) in classes.iter().take(SHAPE_CLASSES_MAX) {
            let mut reps: Vec<u32> = vec![members[0]];
            if let Some(m) = members.iter().find(|g| fi.cmap.values().any(|t| t == *g)) {
                if !reps.contains(m) {
                    reps.push(*m);
                }
            }
            for g in reps {
                let mut reqs = vec![Request { gids: vec![g], unicodes: vec![] }];
                if use_chars && !fi.huge_cmap {
                    if let Some((c, _)) = fi.cmap.iter().find(|(_, t)| **t == g) {
                        reqs.push(Request { gids: vec![], unicodes: vec![*c] });
                    }
                }
                for r in reqs {
                    // (not entered into `seen`: the singles layer runs the same request under other flags)
                    out.push(Planned { req: r, flags: flag_sets.to_vec(), resubset: false });
                }
            }
        }
    }
    // hmtx tail family: the long-metric count of the subset is found by walking back from the last new
    // glyph while the advance equals the last one's (gaps of a RETAIN_GIDS subset count as advance 0).
    // Triples x < y < z (first in glyph id order among the first/last 96 glyphs) for each advance pattern
    // {a a a, a a b, a b b, a b a, a b c} and, for RETAIN_GIDS, a pair whose higher glyph has advance 0.
    {
        let adv: Vec<Option<u16>> = (0..fi.num_glyphs).map(|g| cmapref::raw_hmtx(&fi.bytes_for_raw(), fi.index, g).map(|m| m.0)).collect();
        let cand: Vec<u32> = (1..fi.num_glyphs).filter(|g| *g < 97 || *g + 96 >= fi.num_glyphs).collect();
        let mut found: BTreeMap<&'static str, Vec<u32>> = BTreeMap::new();
        'outer: for (i, x) in cand.iter().enumerate() {
            for (j, y) in cand.iter().enumerate().skip(i + 1) {
                for z in cand.iter().skip(j + 1) {
                    let (a, b, c) = (adv[*x as usize], adv[*y as usize], adv[*z as usize]);
                    let pat = match (a == b, b == c, a == c) {
                        (true, true, _) => "aaa",
                        (true, false, _) => "aab",
                        (false, true, _) => "abb",
                        (false, false, true) => "aba",
                        (false, false, false) => "abc",
                    };
                    found.entry(pat).or_insert_with(|| vec![*x, *y, *z]);
                    if found.len() == 5 {
                        break 'outer;
                    }
                }
                if i > 24 {
                    break;
                }
            }
        }
        if let Some(z) = cand.iter().rev().find(|g| adv[**g as usize] == Some(0)) {
            if let Some(x) = cand.iter().find(|g| adv[**g as usize].map_or(false, |a| a != 0) && **g < *z) {
                found.entry("a0").or_insert_with(|| vec![*x, *z]);
            }
        }
        for (_, gids) in found {
            let r = Request { gids, unicodes: vec![] };
            if seen.insert(r.clone()) {
                out.push(Planned { req: r, flags: vec![0, F_RETAIN_GIDS, F_NOTDEF_OUTLINE], resubset: true });
            }
        }
    }
    // HVAR delta-set class sweep: the subset's advance index map is trimmed, re-encoded and written over
    // serializer scratch space; whether its last entries are right depends on which delta-set class the
    // highest kept glyph belongs to and on the NUMBER (and parity) of kept glyphs. For each of the three
    // classes with the smallest delta-set index: a top glyph g of that class (its highest member, and its
    // lowest member that has 40 eligible glyphs below it), requested by character when it has one and
    // by id otherwise, together with the first n simple glyphs of OTHER classes below g, for every n in
    // 14..=40.
    if !fi.hvar_classes.is_empty() {
        for class in fi.hvar_classes.iter().take(3) {
            let eligible = |g: u32| -> Vec<u32> {
                (1..g)
                    .filter(|x| !class.contains(x) && fi.comps[*x as usize].is_empty())
                    .collect()
            };
            let mut tops: Vec<u32> = vec![];
            if let Some(hi) = class.iter().next_back() {
                tops.push(*hi);
            }
            if let Some(lo) = class.iter().find(|g| eligible(**g).len() >= 40) {
                if !tops.contains(lo) {
                    tops.push(*lo);
                }
            }
            for g in tops {
                let lower = eligible(g);
                let ch = fi.cmap.iter().find(|(_, t)| **t == g).map(|(c, _)| *c);
                for n in 14..=40usize {
                    if lower.len() < n {
                        break;
                    }
                    let mut gids: Vec<u32> = lower[..n].to_vec();
                    let mut unicodes = vec![];
                    match ch {
                        Some(c) if use_chars => unicodes.push(c),
                        _ => gids.push(g),
                    }
                    let r = Request { gids, unicodes };
                    if seen.insert(r.clone()) {
                        out.push(Planned {
                            req: r,
                            flags: vec![0, F_NO_HINTING | F_NOTDEF_OUTLINE],
                            resubset: true,
                        });
                    }
                }
            }
        }
    }
    // gvar offset-format boundary: when the font has more than 0x1FFFE bytes of gvar data the subset's
    // short/long offset decision is at stake; every gid prefix 0..=j and every gid suffix j..=last is
    // requested under the flags that change numbering or the kept data
    let gvar_len = fi
        .font()
        .table_directory
        .table_records()
        .iter()
        .find(|r| r.tag() == Tag::new(b"gvar"))
        .map(|r| r.length())
        .unwrap_or(0);
    if gvar_len > 0x1FFFE && fi.num_glyphs <= 4096 {
        for j in 0..fi.num_glyphs {
            for r in [
                Request { gids: (0..=j).collect(), unicodes: vec![] },
                Request { gids: (j..fi.num_glyphs).collect(), unicodes: vec![] },
            ] {
                if seen.insert(r.clone()) {
                    out.push(Planned {
                        req: r,
                        flags: vec![0, F_RETAIN_GIDS, F_NOTDEF_OUTLINE],
                        resubset: true,
                    });
                }
            }
        }
    }
    // the singles layer: EVERY glyph id alone and EVERY mapped character alone (not just the boundary
    // set) — default flags in quick; {default, RETAIN_GIDS, all five} and re-subsetting in thorough
    if !fi.huge_cmap {
        let single_flags = tier.pick(vec![0u16], vec![0, F_RETAIN_GIDS, 0x00D3]);
        let mut singles: Vec<Request> = (0..fi.num_glyphs)
            .map(|g| Request {
                gids: vec![g],
                unicodes: vec![],
            })
            .collect();
        if use_chars {
            singles.extend(fi.cmap.iter().filter(|(_, g)| **g < fi.num_glyphs).map(|(c, _)| Request {
                gids: vec![],
                unicodes: vec![*c],
            }));
        }
        for r in singles {
            if seen.insert(r.clone()) {
                out.push(Planned {
                    req: r,
                    flags: single_flags.clone(),
                    resubset: tier == Tier::Thorough,
                });
            }
        }
    }
    out
}

// ---------------------------------------------------------------------------------------------
// the "loca format boundary" family
// ---------------------------------------------------------------------------------------------
//
// klippa chooses short loca iff the subset's padded glyf size is < 0x1FFFF, and short loca stores
// offset / 2 in 16 bits, so two sizes are boundaries of the glyf writer: 64 KiB (a 16-bit byte counter
// wraps) and 128 KiB (short/long decision; padded vs unpadded totals differ by one byte per odd glyph).
// For every font whose glyf data exceeds a boundary T, the requests "glyph ids 0..=j" are run for every
// j within ±4 of the prefix length at which the subset's padded total P(j) — and, where it is known, its
// unpadded total U(j) — first reaches T; every kept glyph is compared by the normal oracle.
//
// Placement only (never part of the verdict): the per-glyph trimmed lengths under a flag set come from
// the loca of one real "everything + RETAIN_GIDS" subset under the same flags (lengths are read per
// original glyph id; a long loca gives unpadded lengths, a short one only padded lengths, so U is
// available only for fonts above 128 KiB). The kept set of a prefix is the harness' own component
// closure. If the placement subset cannot be produced or read the family is skipped for that font and
// the fact is written to the evidence.

const LOCA_BOUNDARIES: [u32; 2] = [0x1_0000, 0x1_FFFF];

struct Placement {
    row: Value,
    planned: Vec<Planned>,
}

fn loca_boundary_family(fi: &FontInfo, tier: Tier) -> Option<Placement> {
    let font = fi.font();
    let glyf_len = font
        .table_directory
        .table_records()
        .iter()
        .find(|r| r.tag() == Tag::new(b"glyf"))
        .map(|r| r.length())
        .unwrap_or(0);
    if glyf_len < LOCA_BOUNDARIES[0] || fi.huge_cmap {
        return None;
    }
    // flag sets of this family: the ones that change glyph sizes or numbering (restricted for cost:
    // each case keeps ~500-1200 glyphs and compares every one of them)
    let flag_sets: Vec<u16> = tier.pick(
        vec![0, F_RETAIN_GIDS, F_NO_HINTING],
        vec![
            0,
            F_RETAIN_GIDS,
            F_NO_HINTING,
            F_NOTDEF_OUTLINE,
            F_RETAIN_GIDS | F_NO_HINTING,
            F_RETAIN_GIDS | F_NOTDEF_OUTLINE,
            F_NO_HINTING | F_NOTDEF_OUTLINE,
            0x00D3,
        ],
    );
    let all_gids: Vec<u32> = (0..fi.num_glyphs).collect();
    // prefix j keeps closure(0..=j); `first_needed[g]` = smallest j whose closure contains g
    let mut first_needed = vec![u32::MAX; fi.num_glyphs as usize];
    {
        let mut kept: BTreeSet<u32> = BTreeSet::new();
        for j in 0..fi.num_glyphs {
            let mut add = BTreeSet::new();
            fi.closure(j, &mut add);
            for g in add {
                if kept.insert(g) {
                    first_needed[g as usize] = j;
                }
            }
        }
    }
    let mut rows = vec![];
    let mut by_prefix: BTreeMap<u32, Vec<u16>> = BTreeMap::new();
    for f in &flag_sets {
        // placement subset: everything, ids retained, same size-relevant flags
        let pf = *f | F_RETAIN_GIDS;
        let lens: Option<(Vec<u32>, bool)> = (|| {
            let out = run_subset(&font, &all_gids, &[], pf).ok()?.ok()?;
            let sub = FontRef::new(&out).ok()?;
            let loca = sub.loca(None).ok()?;
            if loca.len() < fi.num_glyphs as usize {
                return None;
            }
            let long = matches!(loca, skrifa::raw::tables::loca::Loca::Long(_));
            let mut v = Vec::with_capacity(fi.num_glyphs as usize);
            for g in 0..fi.num_glyphs as usize {
                let a = loca.get_raw(g)?;
                let b = loca.get_raw(g + 1)?;
                v.push(b.checked_sub(a)?);
            }
            Some((v, long))
        })();
        let Some((lens, long)) = lens else {
            rows.push(json!({"flags": flag_names(*f), "placement": "placement subset could not be produced or read; family skipped"}));
            continue;
        };
        // sums per prefix (accumulated in order of first need)
        let n = fi.num_glyphs as usize;
        let mut add_p = vec![0u64; n];
        let mut add_u = vec![0u64; n];
        for g in 0..n {
            let j = first_needed[g] as usize;
            if j < n {
                add_u[j] += lens[g] as u64;
                add_p[j] += (lens[g] + lens[g] % 2) as u64;
            }
        }
        let mut crossings = vec![];
        for t in LOCA_BOUNDARIES {
            let mut p = 0u64;
            let mut u = 0u64;
            let mut kp = None;
            let mut ku = None;
            for j in 0..n {
                p += add_p[j];
                u += add_u[j];
                if kp.is_none() && p >= t as u64 {
                    kp = Some(j as u32);
                }
                // unpadded lengths are only known from a long loca
                if long && ku.is_none() && u >= t as u64 {
                    ku = Some(j as u32);
                }
            }
            for k in [kp, ku].into_iter().flatten() {
                for j in k.saturating_sub(4)..=(k + 4).min(fi.num_glyphs - 1) {
                    let e = by_prefix.entry(j).or_default();
                    if !e.contains(f) {
                        e.push(*f);
                    }
                }
            }
            crossings.push(json!({"boundary": format!("{t:#x}"), "first_prefix_padded_total_reaches": kp, "first_prefix_unpadded_total_reaches": ku}));
        }
        rows.push(json!({"flags": flag_names(*f), "lengths_from": if long { "long loca (unpadded)" } else { "short loca (padded only)" }, "crossings": crossings}));
    }
    let planned: Vec<Planned> = by_prefix
        .into_iter()
        .map(|(j, flags)| Planned {
            req: Request {
                gids: (0..=j).collect(),
                unicodes: vec![],
            },
            flags,
            resubset: tier == Tier::Thorough,
        })
        .collect();
    Some(Placement {
        row: json!({"font": fi.name, "glyf_bytes": glyf_len, "prefix_requests": planned.len(),
            "cases": planned.iter().map(|p| p.flags.len()).sum::<usize>(), "per_flag_set": rows}),
        planned,
    })
}

// ---------------------------------------------------------------------------------------------
// running the subsetter
// ---------------------------------------------------------------------------------------------

fn run_subset(font: &FontRef, gids: &[u32], unicodes: &[u32], flags: u16) -> Result<Result<Vec<u8>, String>, PanicInfo> {
    guard(|| {
        let mut g = IntSet::<GlyphId>::empty();
        for x in gids {
            g.insert(GlyphId::new(*x));
        }
        let mut u = IntSet::<u32>::empty();
        for x in unicodes {
            u.insert(*x);
        }
        // the defaults of the klippa command line tool (same as hb-subset's)
        let mut drop_tables = IntSet::<Tag>::empty();
        for t in [
            b"morx", b"mort", b"kerx", b"kern", b"JSTF", b"DSIG", b"EBDT", b"EBLC", b"EBSC", b"SVG ",
            b"PCLT", b"LTSH", b"Feat", b"Glat", b"Gloc", b"Silf", b"Sill",
        ] {
            drop_tables.insert(Tag::new(t));
        }
        let mut name_ids = IntSet::<NameId>::empty();
        name_ids.insert_range(NameId::from(0)..=NameId::from(6));
        let mut name_languages = IntSet::<u16>::empty();
        name_languages.insert(0x0409);
        let mut layout_scripts = IntSet::<Tag>::empty();
        layout_scripts.invert();
        let mut layout_features = IntSet::<Tag>::empty();
        layout_features.extend(DEFAULT_LAYOUT_FEATURES.iter().copied());
        let plan = Plan::new(
            &g,
            &u,
            font,
            SubsetFlags::from(flags),
            &drop_tables,
            &layout_scripts,
            &layout_features,
            &name_ids,
            &name_languages,
        );
        subset_font(font, &plan).map_err(|e| format!("{e:?}"))
    })
}

// ---------------------------------------------------------------------------------------------
// the oracle
// ---------------------------------------------------------------------------------------------

struct Viol {
    class: String,
    what: String,
    /// the original has an HVAR table and this subset has none (the mechanism of the known finding)
    hvar_dropped: bool,
}

/// (font, class) pairs whose detailed description has already been rendered: the textual diff is only
/// produced for the first report of an identity (all occurrences are still counted as violations).
static DESCRIBED: std::sync::Mutex<Option<HashSet<String>>> = std::sync::Mutex::new(None);

/// every violation identity with its number of occurrences (written to the evidence: vcore prints only
/// the first 25 distinct identities)
static IDENTITIES: std::sync::Mutex<Option<BTreeMap<String, u64>>> = std::sync::Mutex::new(None);

fn first_time(font: &str, class: &str) -> bool {
    let mut g = DESCRIBED.lock().unwrap();
    g.get_or_insert_with(HashSet::new).insert(format!("{font}|{class}"))
}

struct Outcome {
    /// old gid → new gid (first image) for every glyph the request names or reaches
    images: BTreeMap<u32, u32>,
    sub_glyphs: u32,
    pairs: usize,
    compared_outlines: usize,
    nonempty_compared: usize,
    skipped_notdef: usize,
    skipped_ref_err: usize,
    variants_checked: usize,
    digest: u64,
}

/// Verify `out` (a subset of the original described by `fi` for request `req`/`flags`).
fn verify(fi: &FontInfo, req: &Request, flags: u16, out: &[u8]) -> Result<Outcome, Vec<Viol>> {
    let mut viols: Vec<Viol> = vec![];
    let hvar_dropped = std::cell::Cell::new(false);
    macro_rules! viol {
        ($class:expr, $($arg:tt)*) => {
            viols.push(Viol { class: $class.to_string(), what: format!($($arg)*), hvar_dropped: hvar_dropped.get() })
        };
    }
    let orig = fi.font();
    let sub = match FontRef::new(out) {
        Ok(f) => f,
        Err(e) => {
            viol!("subset does not open", "FontRef::new: {e}");
            return Err(viols);
        }
    };
    hvar_dropped.set(orig.hvar().is_ok() && sub.data_for_tag(Tag::new(b"HVAR")).is_none());
    // "opens as a font": the tables the observations need must parse
    let sub_n = match sub.maxp() {
        Ok(m) => m.num_glyphs() as u32,
        Err(e) => {
            viol!("subset does not open", "maxp: {e}");
            return Err(viols);
        }
    };
    for (tag, ok) in [
        ("head", sub.head().is_ok()),
        ("hhea", sub.hhea().is_ok()),
        ("hmtx", sub.hmtx().is_ok()),
        ("loca", sub.loca(None).is_ok()),
        ("glyf", sub.glyf().is_ok()),
        // cmap is only needed when a requested character must map; that is judged below
    ] {
        if !ok {
            viol!("subset does not open", "table {tag} missing or unreadable");
        }
    }
    if !viols.is_empty() {
        return Err(viols);
    }
    if (sub.loca(None).unwrap().len() as u32) < sub_n {
        viol!(
            "subset loca shorter than maxp.numGlyphs",
            "loca has {} glyphs, maxp says {}",
            sub.loca(None).unwrap().len(),
            sub_n
        );
    }
    let retain = flags & F_RETAIN_GIDS != 0;
    let notdef_outline = flags & F_NOTDEF_OUTLINE != 0;

    // ---- what the statement says must be present --------------------------------------------
    let req_gids: BTreeSet<u32> = req.gids.iter().copied().filter(|g| *g < fi.num_glyphs).collect();
    let req_chars: BTreeSet<u32> = req.unicodes.iter().copied().collect();
    let mut expected: BTreeSet<u32> = BTreeSet::new();
    fi.closure(0, &mut expected);
    for g in &req_gids {
        fi.closure(*g, &mut expected);
    }
    for c in &req_chars {
        if let Some(g) = fi.valid_target(*c) {
            fi.closure(g, &mut expected);
        }
    }
    for (c, sel, target) in &fi.variants {
        if let (true, true, Some(g)) = (req_chars.contains(c), req_chars.contains(sel), target) {
            fi.closure(*g, &mut expected);
        }
    }
    if retain {
        let need = expected.iter().next_back().unwrap() + 1;
        if sub_n < need {
            viol!("glyph count below requested closure", "RETAIN_GIDS: {sub_n} glyphs, highest needed id {}", need - 1);
        }
    } else if (sub_n as usize) < expected.len() {
        viol!("glyph count below requested closure", "{sub_n} glyphs < |requested ∪ .notdef ∪ components| = {}", expected.len());
    }

    // ---- character map ----------------------------------------------------------------------
    // Every derived pair remembers how it was derived (its provenance); the provenance is part of the
    // violation class so that a cmap defect, a component-rewrite defect and a per-glyph data defect get
    // different identities.
    // The judge of what the subset maps is the harness' own from-spec reader of the subset's bytes; skrifa's
    // Charmap (the property's observer, and what klippa's plan uses) is compared with it below.
    let sub_ref = RefCmap::new(out, 0).unwrap_or_default();
    let sub_cm = sub.charmap();
    let mut pairs: BTreeMap<(u32, u32), &'static str> = BTreeMap::new();
    let mut char_of: BTreeMap<(u32, u32), u32> = BTreeMap::new();
    for c in &req_chars {
        if let Some(g) = fi.valid_target(*c) {
            match sub_ref.map(*c) {
                Some(n) => {
                    pairs.entry((g, n)).or_insert("requested character's glyph");
                    char_of.entry((g, n)).or_insert(*c);
                }
                None => viol!("requested character not mapped", "U+{c:04X} (original glyph {g}) has no mapping in the subset"),
            }
        }
    }
    let mut variants_checked = 0usize;
    // variation sequences (cmap format 14): when both the base character and the selector are requested
    // the sequence must keep its meaning — "use the default glyph" stays so, a non-default glyph maps to
    // a glyph that is then compared like any other image
    for (c, sel, target) in &fi.variants {
        if !(req_chars.contains(c) && req_chars.contains(sel)) {
            continue;
        }
        let got = sub_ref.map_variant(*c, *sel);
        let theirs = sub_cm.map_variant(*c, *sel).map(|m| match m {
            skrifa::charmap::MapVariant::UseDefault => Variant::UseDefault,
            skrifa::charmap::MapVariant::Variant(g) => Variant::Glyph(g.to_u32()),
        });
        if theirs != got {
            viol!("Charmap::map_variant disagrees with the from-spec reading of the subset's cmap", "U+{c:04X} U+{sel:04X}: Charmap {theirs:?}, from-spec {got:?}");
        }
        variants_checked += 1;
        match (target, got) {
            (None, Some(Variant::UseDefault)) => {}
            (Some(g), Some(Variant::Glyph(n))) if *g < fi.num_glyphs => {
                pairs.entry((*g, n)).or_insert("requested variation sequence's glyph");
                char_of.entry((*g, n)).or_insert(*c);
            }
            (Some(g), _) if *g >= fi.num_glyphs => {}
            (t, g) => viol!(
                "requested variation sequence not preserved",
                "U+{c:04X} U+{sel:04X}: original {t:?}, subset {g:?}"
            ),
        }
    }
    // "no character is mapped unless it or its glyph was requested": EVERY character the subset maps
    // (all code points its selected subtable names, read from the raw bytes)
    let wanted_char = |c: u32| req_chars.contains(&c) || fi.cmap.get(&c).map_or(false, |g| req_gids.contains(g));
    let sub_mappings = sub_ref.mappings();
    for (c, n) in &sub_mappings {
        if !wanted_char(*c) {
            viol!("unrequested character mapped", "U+{c:04X} → new glyph {n} although neither it nor its original glyph {:?} was requested", fi.cmap.get(c));
            break;
        }
    }
    // the same for variation sequences: the selector must have been requested, and the base character, its
    // nominal glyph or the sequence's own glyph too
    for (c, sel, v) in sub_ref.variant_mappings() {
        let orig_variant = fi.variants.iter().find(|x| x.0 == c && x.1 == sel).and_then(|x| x.2);
        let by_gid = orig_variant.map_or(false, |g| req_gids.contains(&g));
        if !(req_chars.contains(&sel) && (wanted_char(c) || by_gid)) {
            viol!("unrequested variation sequence mapped", "U+{c:04X} U+{sel:04X} → {v:?} in the subset");
            break;
        }
    }
    // The other Unicode subtables of the subset (a consumer may select (3,1) where skrifa selects (3,10)):
    // a character such a subtable maps must have been wanted and — where every subtable of the original
    // that maps it agrees on its glyph — must map to the same new glyph as in the selected subtable; a
    // requested character that the original's record of the same platform/encoding maps (to the glyph the
    // original's selected subtable gives) must be mapped by the subset's record of that platform/encoding.
    let orig_agree = |c: u32| -> bool {
        let mut seen: Option<u32> = None;
        for r in &fi.refcmap.records {
            if !matches!((r.platform, r.encoding), (0, 3) | (0, 4) | (3, 1) | (3, 10)) {
                continue;
            }
            if let Some(g) = r.sub.as_ref().and_then(|s| s.map(c)) {
                if seen.map_or(false, |x| x != g) {
                    return false;
                }
                seen = Some(g);
            }
        }
        true
    };
    let mut other_subtable_chars = 0usize;
    for (i, r) in sub_ref.records.iter().enumerate() {
        let Some(st) = r.sub.as_ref() else { continue };
        if Some(i) == sub_ref.best || !matches!((r.platform, r.encoding), (0, 3) | (0, 4) | (3, 1) | (3, 10)) {
            continue;
        }
        // the same bytes as the selected subtable: nothing new to judge
        if sub_ref.best.map_or(false, |b| sub_ref.records[b].offset == r.offset) {
            continue;
        }
        let label = format!("({},{}) format {}", r.platform, r.encoding, r.format);
        let mut bad_unwanted = None;
        let mut bad_glyph = None;
        for (c, n) in st.mappings() {
            other_subtable_chars += 1;
            if !wanted_char(c) {
                bad_unwanted.get_or_insert((c, n));
            } else if orig_agree(c) {
                if let Some(bn) = sub_ref.map(c) {
                    if bn != n {
                        bad_glyph.get_or_insert((c, n, bn));
                    }
                }
            }
        }
        if let Some((c, n)) = bad_unwanted {
            viol!("unrequested character mapped by a non-selected cmap subtable", "{label}: U+{c:04X} → new glyph {n}");
        }
        if let Some((c, n, bn)) = bad_glyph {
            viol!("cmap subtables of the subset disagree on a kept character", "{label}: U+{c:04X} → {n}, selected subtable → {bn}");
        }
        if let Some(or) = fi.refcmap.records.iter().find(|o| o.platform == r.platform && o.encoding == r.encoding).and_then(|o| o.sub.as_ref()) {
            for c in &req_chars {
                if let (Some(g), Some(og)) = (fi.valid_target(*c), or.map(*c)) {
                    if g == og && st.map(*c).is_none() {
                        viol!("requested character not mapped by a retained cmap subtable", "{label}: U+{c:04X} (original glyph {g})");
                        break;
                    }
                }
            }
        }
    }
    let _ = other_subtable_chars;
    // differential: skrifa's Charmap of the SUBSET against the from-spec reader, on every code point any
    // subtable of the subset names, on the neighbours and the ± k·0x10000 aliases of kept characters and
    // of the requested characters, and on a fixed boundary set (see `probe_set`)
    {
        let also: Vec<u32> = req_chars.iter().copied().collect();
        for c in probe_set(&sub_ref, &raw_cmap_ranges(&sub), &also) {
            let a = sub_cm.map(c).map(|g| g.to_u32());
            let b = sub_ref.map(c);
            if a != b {
                viol!(
                    "Charmap::map disagrees with the from-spec reading of the subset's cmap",
                    "U+{c:04X}: Charmap::map says {a:?}, the from-spec reading (selected subtable format {}) says {b:?}; requested: {}, original maps it: {:?}",
                    sub_ref.best_format(), wanted_char(c), fi.cmap.get(&c)
                );
                break;
            }
        }
    }

    // ---- old → new relation -----------------------------------------------------------------
    if retain {
        for g in &expected {
            pairs.entry((*g, *g)).or_insert("retained glyph id");
        }
    }
    let sub_ob = Observer::new(&sub, &fi.locs);
    let mut sub_obs: BTreeMap<u32, Obs> = BTreeMap::new();
    let obs_of = |n: u32, sub_obs: &mut BTreeMap<u32, Obs>| -> Obs {
        *sub_obs.entry(n).or_insert_with(|| sub_ob.observe(n))
    };
    let exempt = |o: u32| !notdef_outline && fi.reach0[o as usize];
    let equal = |o: u32, so: Obs| -> bool {
        let oo = fi.obs[o as usize];
        if !oo.ok {
            return true;
        }
        oo.metrics == so.metrics && (exempt(o) || oo.outline == so.outline)
    };
    // close the *definitive* pairs (cmap- and identity-derived) over composite components, positionally
    let mut structure_differs = 0usize;
    let mut work: Vec<(u32, u32)> = pairs.keys().copied().collect();
    while let Some((o, n)) = work.pop() {
        if n >= sub_n {
            continue;
        }
        let oc = &fi.comps[o as usize];
        if oc.is_empty() {
            continue;
        }
        if !notdef_outline && o == 0 {
            continue; // .notdef is emptied by design: its components need not be kept
        }
        if !equal(o, obs_of(n, &mut sub_obs)) {
            continue; // (o, n) itself is reported below; pairs derived from a wrong pair would only be noise
        }
        match direct_components(&sub, n) {
            Some(nc) if nc.len() == oc.len() => {
                for (a, b) in oc.iter().zip(nc.iter()) {
                    if !pairs.contains_key(&(*a, *b)) {
                        pairs.insert((*a, *b), "component of a kept composite");
                        work.push((*a, *b));
                    }
                }
            }
            // a different shape is not itself forbidden by the statement; the outline comparison of
            // (o, n) below is what judges it
            _ => structure_differs += 1,
        }
    }
    let _ = structure_differs;
    // Glyphs requested by id only, .notdef, and the components they reach: the outputs do not say which
    // new glyph is their image, so the oracle only demands that *some* glyph of the subset carries equal
    // observations (several glyphs of a font may be indistinguishable — Ahem: almost all — so no
    // component pairs are derived from such a match). Unclaimed candidates are preferred, purely to
    // make the translated request of the second pass as faithful as possible.
    let have: BTreeSet<u32> = pairs.keys().map(|p| p.0).collect();
    let mut claimed: BTreeSet<u32> = pairs.keys().map(|p| p.1).collect();
    let mut wanted: BTreeSet<u32> = BTreeSet::new();
    fi.closure(0, &mut wanted);
    for g in &req_gids {
        fi.closure(*g, &mut wanted);
    }
    if !notdef_outline {
        // components reached only through the emptied .notdef need not be kept
        let mut only0 = BTreeSet::new();
        fi.closure(0, &mut only0);
        let mut others = BTreeSet::new();
        for g in &req_gids {
            if *g != 0 {
                fi.closure(*g, &mut others);
            }
        }
        for g in only0 {
            if g != 0 && !others.contains(&g) {
                wanted.remove(&g);
            }
        }
    }
    for g in wanted.iter().copied().filter(|g| !have.contains(g)) {
        let mut best: Option<(u32, u32)> = None; // (score, n) — lower score is better
        // the conventional place of .notdef first
        let order: Vec<u32> = (0..sub_n).collect();
        for n in order {
            if !equal(g, obs_of(n, &mut sub_obs)) {
                continue;
            }
            let score = claimed.contains(&n) as u32;
            if best.map_or(true, |b| score < b.0) {
                best = Some((score, n));
            }
            if score == 0 {
                break;
            }
        }
        match best {
            Some((_, n)) => {
                pairs.entry((g, n)).or_insert(if req_gids.contains(&g) || g == 0 { "glyph requested by id" } else { "component of a glyph requested by id" });
                claimed.insert(n);
            }
            None => {
                // is there a glyph that differs from the original one in nothing but the advance?
                let oo = fi.obs[g as usize];
                let advance_only = (0..sub_n).any(|n| {
                    let so = obs_of(n, &mut sub_obs);
                    so.advance != oo.advance && {
                        // same outline stream apart from the loader's advance cannot be told from the
                        // digest, so compare the side bearings through a fresh look at the two fonts
                        describe_diff(&orig, g, &sub, n, &fi.locs, false).starts_with("advance")
                            && lsb_equal(&orig, g, &sub, n, &fi.locs)
                            && streams_equal(&orig, g, &sub, n, &fi.locs)
                    }
                });
                let base = if req_gids.contains(&g) || g == 0 {
                    "requested glyph has no image"
                } else {
                    "component of a requested glyph has no image"
                };
                let class = if advance_only { format!("{base} with the same advance") } else { base.to_string() };
                viol!(class, "no glyph of the subset ({sub_n} glyphs) has the observations of original glyph {g}");
            }
        }
    }

    // ---- characters kept because their glyph was requested by id ----------------------------
    // such a character may be mapped; when it is, it must map to an image of its original glyph (judged
    // only when that glyph has an image at all — otherwise the missing image is already reported)
    for (c, n) in &sub_mappings {
        if req_chars.contains(c) {
            continue;
        }
        let Some(og) = fi.cmap.get(c).copied().filter(|g| *g < fi.num_glyphs && req_gids.contains(g)) else {
            continue;
        };
        let has_image = pairs.keys().any(|p| p.0 == og);
        if has_image && !pairs.contains_key(&(og, *n)) && (*n >= sub_n || !equal(og, obs_of(*n, &mut sub_obs))) {
            viol!("character kept for a glyph requested by id maps to another glyph", "U+{c:04X}: original glyph {og}, subset glyph {n} has other observations");
            break;
        }
    }

    // ---- observations of every derived pair -------------------------------------------------
    let mut images: BTreeMap<u32, u32> = BTreeMap::new();
    let mut compared_outlines = 0;
    let mut nonempty_compared = 0;
    let mut skipped_notdef = 0;
    let mut skipped_ref_err = 0;
    let mut h = Fnv::new();
    h.u64(sub_n as u64);
    let default_loc: Vec<F2Dot14> = vec![F2Dot14::ZERO; fi.axes];
    let raw_gm = sub.glyph_metrics(Size::unscaled(), LocationRef::new(&default_loc));
    for ((o, n), prov) in &pairs {
        let (o, n) = (*o, *n);
        let via = match char_of.get(&(o, n)) {
            Some(c) => format!(" (via U+{c:04X})"),
            None => String::new(),
        };
        images.entry(o).or_insert(n);
        h.u64(((o as u64) << 32) | n as u64);
        if retain && o != n {
            viol!(format!("{prov}: glyph id not retained"), "RETAIN_GIDS: original glyph {o}{via} is glyph {n} in the subset");
        }
        if n >= sub_n {
            viol!(format!("{prov}: image glyph id out of range"), "original glyph {o}{via} → {n}, subset has {sub_n} glyphs");
            continue;
        }
        let oo = fi.obs[o as usize];
        if !oo.ok {
            skipped_ref_err += 1;
            continue;
        }
        let so = obs_of(n, &mut sub_obs);
        h.u64(so.metrics);
        // independent of skrifa: the raw hmtx record (advance, side bearing) read from the bytes of both
        // fonts by the harness, and skrifa's default-location unscaled metrics of the subset against it
        {
            let ro = cmapref::raw_hmtx(&fi.bytes, fi.index, o);
            let rn = cmapref::raw_hmtx(out, 0, n);
            if ro.is_some() && ro != rn {
                viol!(format!("{prov}: raw hmtx record differs"), "original glyph {o}{via} (advance, lsb) = {ro:?}, subset glyph {n} = {rn:?}");
            }
            if let Some((a, l)) = rn {
                let g = GlyphId::new(n);
                let (sa, sl) = (raw_gm.advance_width(g), raw_gm.left_side_bearing(g));
                if sa != Some(a as f32) || sl != Some(l as f32) {
                    viol!("glyph_metrics disagrees with the raw hmtx record of the subset", "subset glyph {n}: raw (advance, lsb) = ({a}, {l}), glyph_metrics at the default location, unscaled: ({sa:?}, {sl:?})");
                }
            }
        }
        if oo.metrics != so.metrics {
            // an advance difference gets its own class; the older class name is kept for the case in
            // which only the side bearing differs (known findings are matched on it)
            let class = if oo.advance != so.advance {
                format!("{prov}: advance differs")
            } else {
                format!("{prov}: advance or side bearing differs")
            };
            let d = if first_time(&fi.name, &class) {
                describe_diff(&orig, o, &sub, n, &fi.locs, false)
            } else {
                "(details in the first report)".into()
            };
            viol!(class, "original glyph {o}{via} vs subset glyph {n}: {d}");
        }
        if exempt(o) {
            skipped_notdef += 1;
            continue;
        }
        compared_outlines += 1;
        if oo.nonempty {
            nonempty_compared += 1;
        }
        h.u64(so.outline);
        if oo.outline != so.outline {
            let class = format!("{prov}: outline differs");
            let d = if first_time(&fi.name, &class) {
                describe_diff(&orig, o, &sub, n, &fi.locs, true)
            } else {
                "(details in the first report)".into()
            };
            viol!(class, "original glyph {o}{via} vs subset glyph {n}: {d}");
        }
    }
    if !viols.is_empty() {
        return Err(viols);
    }
    Ok(Outcome {
        images,
        sub_glyphs: sub_n,
        pairs: pairs.len(),
        compared_outlines,
        nonempty_compared,
        skipped_notdef,
        skipped_ref_err,
        variants_checked,
        digest: h.finish(),
    })
}

// ---------------------------------------------------------------------------------------------
// one case = (font, request, flags): subset, verify, subset the subset, verify again
// ---------------------------------------------------------------------------------------------

#[derive(Default)]
struct Local {
    all: HashSet<u64>,
    nontrivial: HashSet<u64>,
    evals: u64,
    subset_calls: u64,
    pairs: u64,
    outlines: u64,
    skipped_notdef: u64,
    skipped_ref_err: u64,
    resubsets: u64,
    errs: u64,
    variants: u64,
    absent_checks: u64,
    font_ns: BTreeMap<usize, u64>,
}

fn case_json(fi: &FontInfo, req: &Request, flags: u16) -> Value {
    json!({"font": fi.name, "gids": req.gids, "unicodes": req.unicodes, "flags": flags, "flag_names": flag_names(flags)})
}

fn report(run: &Run, fi: &FontInfo, req: &Request, flags: u16, stage: &str, v: &Viol) {
    let mut short = fi.name.rsplit('/').next().unwrap_or(&fi.name);
    // A permuted-HVAR derived font stores exactly the corpus font's metrics. When the failing subset has
    // lost its HVAR table altogether, the failure is the corpus font's known finding (klippa drops HVAR when
    // no variation region survives) and carries the corpus font's label; every other failure of the
    // derived font keeps the derived label.
    if v.hvar_dropped {
        if let Some(base) = short.strip_prefix("derived:").and_then(|s| s.strip_suffix("+permuted-hvar").or(s.strip_suffix("+lsb-map"))) {
            short = base;
        }
    }
    let id = format!("{stage}{} [{}]", v.class, short);
    IDENTITIES.lock().unwrap().get_or_insert_with(BTreeMap::new).entry(id.clone()).and_modify(|n| *n += 1).or_insert(1u64);
    let what = format!(
        "{} gids={:?} unicodes={:04X?} flags={}: {}",
        fi.name,
        &req.gids[..req.gids.len().min(12)],
        &req.unicodes[..req.unicodes.len().min(12)],
        flag_names(flags),
        v.what
    );
    run.violation(&id, &what, case_json(fi, req, flags));
}

fn check_case(run: &Run, fi: &FontInfo, req: &Request, flags: u16, resubset: bool, l: &mut Local) {
    l.evals += 1;
    let orig = fi.font();
    l.subset_calls += 1;
    let out = match run_subset(&orig, &req.gids, &req.unicodes, flags) {
        Err(p) => {
            report(run, fi, req, flags, "", &Viol { class: format!("subset_font panic {} @{}", p.kind(), p.site()), what: p.message.clone(), hvar_dropped: false });
            l.errs += 1;
            return;
        }
        Ok(Err(e)) => {
            // "the subset opens as a font …": a request for existing glyphs/characters of a readable
            // corpus font that is answered with an error produced no font at all.
            report(run, fi, req, flags, "", &Viol { class: format!("subset_font Err({e})"), what: "no subset produced".into(), hvar_dropped: false });
            l.errs += 1;
            return;
        }
        Ok(Ok(o)) => o,
    };
    // ---- absent characters request nothing ------------------------------------------------------
    // A requested character that the original does not map (and that is not one of its variation
    // selectors) names no glyph: the subset must have the glyph count and the character map of the same
    // request without such characters (two routes into klippa that must agree; the glyph count is the
    // observer-independent symptom of a plan that resolved an absent character to some glyph).
    {
        let sel: BTreeSet<u32> = fi.refcmap.selectors().into_iter().collect();
        let (absent, rest): (Vec<u32>, Vec<u32>) = req.unicodes.iter().copied().partition(|c| !fi.cmap.contains_key(c) && !sel.contains(c));
        // (the resolution of characters does not depend on the flags: three flag sets are compared)
        if !absent.is_empty() && [0, F_RETAIN_GIDS, F_NO_HINTING | F_NOTDEF_OUTLINE].contains(&flags) {
            l.subset_calls += 1;
            l.absent_checks += 1;
            if let Ok(Ok(base)) = run_subset(&orig, &req.gids, &rest, flags) {
                let count = |b: &[u8]| FontRef::new(b).ok().and_then(|f| f.maxp().ok().map(|m| m.num_glyphs()));
                let maps = |b: &[u8]| RefCmap::new(b, 0).map(|r| r.mappings()).unwrap_or_default();
                if count(&out) != count(&base) {
                    report(run, fi, req, flags, "", &Viol { class: "requesting an unmapped character changes the glyph count".into(), what: format!("absent characters {absent:04X?}: {:?} glyphs with them, {:?} without", count(&out), count(&base)), hvar_dropped: false });
                    l.errs += 1;
                } else if maps(&out) != maps(&base) {
                    report(run, fi, req, flags, "", &Viol { class: "requesting an unmapped character changes the character map".into(), what: format!("absent characters {absent:04X?}"), hvar_dropped: false });
                    l.errs += 1;
                }
                if out != base {
                    let mut h = Fnv::new();
                    h.str("absent-character-request-changes-bytes");
                    l.all.insert(h.finish());
                }
            }
        }
    }
    let o1 = match guard(|| verify(fi, req, flags, &out)) {
        Err(p) => {
            report(run, fi, req, flags, "", &Viol { class: format!("reading the subset panics {} @{}", p.kind(), p.site()), what: p.message.clone(), hvar_dropped: false });
            l.errs += 1;
            return;
        }
        Ok(Err(vs)) => {
            for v in &vs {
                report(run, fi, req, flags, "", v);
            }
            l.errs += 1;
            return;
        }
        Ok(Ok(o)) => o,
    };
    l.pairs += o1.pairs as u64;
    l.outlines += o1.compared_outlines as u64;
    l.skipped_notdef += o1.skipped_notdef as u64;
    l.skipped_ref_err += o1.skipped_ref_err as u64;
    l.variants += o1.variants_checked as u64;
    let mut h = Fnv::new();
    h.str(&fi.name);
    h.u64(o1.digest);
    let d = h.finish();
    l.all.insert(d);
    // non-trivial: at least one kept glyph with a non-empty outline was compared and the subset is
    // a proper subset (or carries flags) — i.e. the oracle had something to disagree about
    if o1.nonempty_compared > 0 {
        l.nontrivial.insert(d);
    }

    // ---- subset the subset again with the same request ------------------------------------------
    if !resubset {
        return;
    }
    let sub = match FontRef::new(&out) {
        Ok(f) => f,
        Err(_) => return,
    };
    let gids2: Vec<u32> = if flags & F_RETAIN_GIDS != 0 {
        req.gids.clone()
    } else {
        let mut v: Vec<u32> = req
            .gids
            .iter()
            .filter_map(|g| o1.images.get(g).copied())
            .collect();
        v.sort();
        v.dedup();
        v
    };
    l.subset_calls += 1;
    l.resubsets += 1;
    let out2 = match run_subset(&sub, &gids2, &req.unicodes, flags) {
        Err(p) => {
            report(run, fi, req, flags, "resubset: ", &Viol { class: format!("subset_font panic {} @{}", p.kind(), p.site()), what: p.message.clone(), hvar_dropped: false });
            return;
        }
        Ok(Err(e)) => {
            report(run, fi, req, flags, "resubset: ", &Viol { class: format!("subset_font Err({e})"), what: "no subset produced from the subset".into(), hvar_dropped: false });
            return;
        }
        Ok(Ok(o)) => o,
    };
    match guard(|| verify(fi, req, flags, &out2)) {
        Err(p) => report(run, fi, req, flags, "resubset: ", &Viol { class: format!("reading the subset panics {} @{}", p.kind(), p.site()), what: p.message.clone(), hvar_dropped: false }),
        Ok(Err(vs)) => {
            for v in &vs {
                report(run, fi, req, flags, "resubset: ", v);
            }
        }
        Ok(Ok(o2)) => {
            // same observations as the first subset (both equal the original's); glyph count must not
            // grow or shrink either: the second pass sees exactly the glyphs the first one kept
            if o2.sub_glyphs != o1.sub_glyphs && flags & F_RETAIN_GIDS == 0 {
                // not part of the statement (only observations are); recorded as an outcome, not judged
                let mut h = Fnv::new();
                h.str("resubset-count-change");
                h.u64(o2.sub_glyphs as u64);
                l.all.insert(h.finish());
            }
            l.pairs += o2.pairs as u64;
            l.outlines += o2.compared_outlines as u64;
        }
    }
}

// ---------------------------------------------------------------------------------------------
// body
// ---------------------------------------------------------------------------------------------

/// Extra output for triage (`C17_DEBUG=1 ./check C17 --replay file`).
fn debug_dump(fi: &FontInfo, req: &Request, flags: u16) {
    let orig = fi.font();
    let dump_cmap = |f: &FontRef, label: &str| {
        if let Ok(cmap) = f.cmap() {
            for r in cmap.encoding_records() {
                let fmt = r.subtable(cmap.offset_data()).map(|s| format!("{}", s.format())).unwrap_or("?".into());
                println!("  {label} cmap record platform {:?} encoding {} format {fmt}", r.platform_id(), r.encoding_id());
            }
        } else {
            println!("  {label}: no cmap");
        }
    };
    dump_cmap(&orig, "original");
    let Ok(Ok(out)) = run_subset(&orig, &req.gids, &req.unicodes, flags) else {
        println!("  subset failed");
        return;
    };
    let sub = FontRef::new(&out).unwrap();
    dump_cmap(&sub, "subset");
    println!("  original glyphs {} subset glyphs {:?}", fi.num_glyphs, sub.maxp().map(|m| m.num_glyphs()));
    let tags = |f: &FontRef| f.table_directory.table_records().iter().map(|r| format!("{}:{}", r.tag(), r.length())).collect::<Vec<_>>().join(" ");
    println!("  original tables {}", tags(&orig));
    println!("  subset   tables {}", tags(&sub));
    let mut n = 0;
    for c in &req.unicodes {
        let o = fi.cmap.get(c).copied();
        let s = sub.charmap().map(*c).map(|g| g.to_u32());
        if o != s && n < 20 {
            println!("  U+{c:04X}: original {o:?} subset {s:?}");
            n += 1;
        }
    }
    // second level with the same characters (gids as given under RETAIN_GIDS only)
    if let Ok(Ok(out2)) = run_subset(&sub, &[], &req.unicodes, flags) {
        let sub2 = FontRef::new(&out2).unwrap();
        dump_cmap(&sub2, "subset2");
        println!("  subset2 glyphs {:?}", sub2.maxp().map(|m| m.num_glyphs()));
        for c in req.unicodes.iter().take(24) {
            println!(
                "  U+{c:04X}: original {:?} subset {:?} subset2 {:?}",
                fi.cmap.get(c),
                sub.charmap().map(*c).map(|g| g.to_u32()),
                sub2.charmap().map(*c).map(|g| g.to_u32())
            );
        }
        if let Ok(cmap) = sub.cmap() {
            println!("  subset cmap bytes: {}", hex(cmap.offset_data().as_bytes()));
        }
    }
}

/// Report the load-time disagreements between skrifa's Charmap of an original and the from-spec reader.
fn report_charmap_diffs(run: &Run, fi: &FontInfo) {
    if let Some(first) = fi.charmap_diffs.first() {
        let short = fi.name.rsplit('/').next().unwrap_or(&fi.name);
        let id = format!("Charmap disagrees with the from-spec reading of the original's cmap [{short}]");
        IDENTITIES.lock().unwrap().get_or_insert_with(BTreeMap::new).entry(id.clone()).and_modify(|n| *n += 1).or_insert(1u64);
        run.violation(&id, &format!("{}: {first} ({} shown)", fi.name, fi.charmap_diffs.len()), json!({"font": fi.name, "kind": "charmap-differential", "differences": fi.charmap_diffs}));
    }
}

fn load_corpus(tier: Tier) -> Vec<FontInfo> {
    let files = corpus_fonts();
    let mut jobs: Vec<(String, Vec<u8>, u32)> = vec![];
    for (name, bytes) in files {
        if name.ends_with(".ttc") {
            for i in 0..8u32 {
                if FontRef::from_index(&bytes, i).is_ok() {
                    jobs.push((format!("{name}#{i}"), bytes.clone(), i));
                }
            }
        } else {
            jobs.push((name, bytes, 0));
        }
    }
    // No glyf-flavoured corpus font carries a cmap format 14 subtable (the corpus fonts that do are CFF
    // or bitmap-only). One derived font adds such a subtable to Roboto-Regular.abc.ttf so that the
    // variation-sequence part of the oracle is exercised.
    if let Some((_, base, _)) = jobs.iter().find(|j| j.0.ends_with("Roboto-Regular.abc.ttf")) {
        if let Some(b) = with_cmap14(base) {
            jobs.push(("derived:Roboto-Regular.abc.ttf+cmap14".to_string(), b, 0));
        }
    }
    // No corpus font has more than 128 KiB of gvar data (the largest has 84 832 bytes), so the long/short
    // decision for gvar offsets is never exercised by the corpus. One derived font replaces the gvar of
    // hvar_with_truncated_adv_index_map.ttf (24 glyphs, 1 axis) by a built one in which glyphs 0..=11
    // carry no variation data and glyphs 12..=23 about 16 KiB each.
    if let Some((_, base, _)) = jobs
        .iter()
        .find(|j| j.0.ends_with("hvar_with_truncated_adv_index_map.ttf"))
    {
        if let Some(b) = with_big_gvar(base) {
            jobs.push(("derived:hvar_with_truncated_adv_index_map.ttf+big-gvar".to_string(), b, 0));
        }
    }
    // Every glyf corpus font stores .notdef in HVAR's ItemVariationData #0, so kept glyphs always meet the
    // subtables in ascending order. Derived fonts store the same deltas with the subtables permuted (two:
    // swapped; three or more: rotated) and the index maps re-pointed; a gate requires identical advances
    // and side bearings to the corpus font at {-1, -0.5, 0, 0.5, 1} for every glyph before they are used.
    for base_name in ["vazirmatn_var_trimmed.ttf", "Comfortaa-Regular-new.ttf"] {
        if let Some((_, base, _)) = jobs.iter().find(|j| j.0.ends_with(base_name)) {
            if let Some(b) = with_permuted_hvar(base) {
                jobs.push((format!("derived:{base_name}+permuted-hvar"), b, 0));
            }
        }
    }
    // No glyf corpus font has an HVAR left-side-bearing map, so klippa's handling of the second and third
    // index maps (plans built with bypass_empty, shared outer/inner maps, separate serialisation) is never
    // exercised and skrifa's side bearing never takes a delta from HVAR. Derived fonts gain an LSB map whose
    // entry for glyph g is the advance map's entry for glyph g + 1 (cyclically).
    for base_name in tier.pick(vec!["vazirmatn_var_trimmed.ttf"], vec!["vazirmatn_var_trimmed.ttf", "Comfortaa-Regular-new.ttf"]) {
        if let Some((_, base, _)) = jobs.iter().find(|j| j.0.ends_with(base_name)) {
            if let Some(b) = with_lsb_map(base) {
                jobs.push((format!("derived:{base_name}+lsb-map"), b, 0));
            }
        }
    }
    // No glyf corpus font reaches klippa's HVAR writer with an absent advance map and surviving deltas, and
    // none has a LONG_WORDS ItemVariationData (32-bit deltas). Three derived fonts (see `with_long_hvar`).
    if let Some(base) = jobs.iter().find(|j| j.0.ends_with("/hvar_with_truncated_adv_index_map.ttf")).map(|j| j.1.clone()) {
        let base = &base;
        for (suffix, variant) in [
            ("+no-adv-map", HvarVariant::Short),
            ("+no-adv-map-long-words", HvarVariant::LongSmall),
            ("+long-hvar", HvarVariant::LongBig),
        ] {
            if let Some(b) = with_long_hvar(base, variant) {
                jobs.push((format!("derived:hvar_with_truncated_adv_index_map.ttf{suffix}"), b, 0));
            }
        }
    }
    jobs.into_par_iter()
        .filter_map(|(n, b, i)| load_font(n, b, i, tier))
        .collect()
}

/// Copy of a one-axis variable font whose HVAR is rebuilt by write-fonts with ONE ItemVariationData, one
/// region (peak +1) and NO index maps (implicit glyph-id mapping — no glyf corpus font with surviving
/// deltas has that shape). Glyph g gets the advance delta at +1:
/// * `Short`: 100 + g in ordinary 16-bit words;
/// * `LongSmall`: 100 + g in 32-bit LONG_WORDS;
/// * `LongBig`: 40000 + g (even g) / 100 + g (odd g) in 32-bit LONG_WORDS (outside the i16 range).
#[derive(Clone, Copy, PartialEq)]
enum HvarVariant {
    Short,
    LongSmall,
    LongBig,
}
fn with_long_hvar(bytes: &[u8], variant: HvarVariant) -> Option<Vec<u8>> {
    use write_fonts::tables::hvar::Hvar;
    use write_fonts::tables::variations::{ItemVariationData, ItemVariationStore, RegionAxisCoordinates, VariationRegion, VariationRegionList};
    let font = FontRef::new(bytes).ok()?;
    if font.axes().len() != 1 {
        return None;
    }
    let n = font.maxp().ok()?.num_glyphs();
    let region = VariationRegion::new(vec![RegionAxisCoordinates::new(F2Dot14::ZERO, F2Dot14::from_f32(1.0), F2Dot14::from_f32(1.0))]);
    let mut deltas = vec![];
    let short = variant == HvarVariant::Short;
    for g in 0..n as i32 {
        let big = variant == HvarVariant::LongBig;
        let d: i32 = if g % 2 == 0 && big { 40000 + g } else { 100 + g };
        if short {
            deltas.extend_from_slice(&(d as i16).to_be_bytes());
        } else {
            deltas.extend_from_slice(&d.to_be_bytes());
        }
    }
    let data = ItemVariationData::new(n, if short { 1 } else { 0x8000 | 1 }, vec![0], deltas);
    let store = ItemVariationStore::new(VariationRegionList::new(1, vec![region]), vec![Some(data)]);
    let hvar = Hvar::new(store, None, None, None);
    let mut fb = write_fonts::FontBuilder::new();
    fb.add_table(&hvar).ok()?;
    fb.copy_missing_tables(font.clone());
    let out = fb.build();
    // gate: the table reads back without an advance map, with the intended word format, and glyph 1's
    // advance at +1 is its default advance + 101
    {
        let derived = FontRef::new(&out).ok()?;
        let h = derived.hvar().ok()?;
        if h.advance_width_mapping().is_some() {
            return None;
        }
        let wdc = h.item_variation_store().ok()?.item_variation_data().get(0)?.ok()?.word_delta_count();
        if (wdc & 0x8000 != 0) == short {
            return None;
        }
        let at = |c: f32| derived.glyph_metrics(Size::unscaled(), LocationRef::new(&[F2Dot14::from_f32(c)])).advance_width(GlyphId::new(1));
        if n < 2 || at(1.0)? != at(0.0)? + 101.0 {
            return None;
        }
    }
    Some(out)
}

/// Copy of a variable font whose HVAR gains a left-side-bearing DeltaSetIndexMap: the advance map's
/// entries rotated by one glyph, appended to the table. None when the font has no advance map, already
/// has an LSB map, or the gate fails (advances unchanged everywhere; the LSB map is read back and changes
/// the side bearing of at least one glyph at a non-default location).
fn with_lsb_map(bytes: &[u8]) -> Option<Vec<u8>> {
    let font = FontRef::new(bytes).ok()?;
    let tag = Tag::new(b"HVAR");
    let mut hvar = font.data_for_tag(tag)?.as_bytes().to_vec();
    let be16 = |b: &[u8], at: usize| -> Option<usize> { Some(u16::from_be_bytes([*b.get(at)?, *b.get(at + 1)?]) as usize) };
    let be32 = |b: &[u8], at: usize| -> Option<usize> {
        Some(u32::from_be_bytes([*b.get(at)?, *b.get(at + 1)?, *b.get(at + 2)?, *b.get(at + 3)?]) as usize)
    };
    let adv = be32(&hvar, 8)?;
    if adv == 0 || be32(&hvar, 12)? != 0 {
        return None;
    }
    let format = *hvar.get(adv)?;
    let entry_format = *hvar.get(adv + 1)?;
    let entry_size = (((entry_format & 0x30) >> 4) + 1) as usize;
    let (count, data, head) = if format == 0 { (be16(&hvar, adv + 2)?, adv + 4, 4) } else { (be32(&hvar, adv + 2)?, adv + 6, 6) };
    if count < 2 {
        return None;
    }
    while hvar.len() % 4 != 0 {
        hvar.push(0);
    }
    let at = hvar.len();
    let header = hvar.get(adv..adv + head)?.to_vec();
    hvar.extend(header);
    for g in 0..count {
        let src = data + ((g + 1) % count) * entry_size;
        let e = hvar.get(src..src + entry_size)?.to_vec();
        hvar.extend(e);
    }
    hvar[12..16].copy_from_slice(&(at as u32).to_be_bytes());
    let mut fb = write_fonts::FontBuilder::new();
    fb.add_raw(tag, hvar);
    fb.copy_missing_tables(font.clone());
    let out = fb.build();
    {
        let derived = FontRef::new(&out).ok()?;
        derived.hvar().ok()?.lsb_mapping()?.ok()?;
        let axes = font.axes().len();
        let glyphs = font.maxp().ok()?.num_glyphs() as u32;
        let mut lsb_changed = false;
        for v in [-1.0f32, 0.0, 1.0] {
            let loc = vec![F2Dot14::from_f32(v); axes];
            let a = font.glyph_metrics(Size::unscaled(), LocationRef::new(&loc));
            let b = derived.glyph_metrics(Size::unscaled(), LocationRef::new(&loc));
            for g in 0..glyphs {
                let g = GlyphId::new(g);
                if a.advance_width(g).map(f32::to_bits) != b.advance_width(g).map(f32::to_bits) {
                    return None;
                }
                if a.left_side_bearing(g).map(f32::to_bits) != b.left_side_bearing(g).map(f32::to_bits) {
                    lsb_changed = true;
                }
            }
        }
        if !lsb_changed {
            return None;
        }
    }
    Some(out)
}

/// Copy of a variable font whose HVAR ItemVariationData subtables are permuted (offset array permuted,
/// the outer index of every DeltaSetIndexMap entry re-pointed). Returns None when the font has fewer than
/// two subtables, no index map, or when the metric gate fails.
fn with_permuted_hvar(bytes: &[u8]) -> Option<Vec<u8>> {
    let font = FontRef::new(bytes).ok()?;
    let tag = Tag::new(b"HVAR");
    let mut hvar = font.data_for_tag(tag)?.as_bytes().to_vec();
    let be16 = |b: &[u8], at: usize| -> Option<usize> { Some(u16::from_be_bytes([*b.get(at)?, *b.get(at + 1)?]) as usize) };
    let be32 = |b: &[u8], at: usize| -> Option<usize> {
        Some(u32::from_be_bytes([*b.get(at)?, *b.get(at + 1)?, *b.get(at + 2)?, *b.get(at + 3)?]) as usize)
    };
    // ItemVariationStore: format(2) regionListOffset(4) count(2) offsets(4 * count)
    let ivs = be32(&hvar, 4)?;
    let n = be16(&hvar, ivs + 6)?;
    if n < 2 {
        return None;
    }
    // new position of old subtable i: swap for two, rotate by one for more
    let perm: Vec<usize> = (0..n).map(|i| (i + 1) % n).collect();
    let old_offsets: Vec<Vec<u8>> = (0..n).map(|i| hvar[ivs + 8 + 4 * i..ivs + 12 + 4 * i].to_vec()).collect();
    for i in 0..n {
        let at = ivs + 8 + 4 * perm[i];
        hvar[at..at + 4].copy_from_slice(&old_offsets[i]);
    }
    let mut patched = 0;
    for field in [8usize, 12, 16] {
        let map = be32(&hvar, field)?;
        if map == 0 {
            continue;
        }
        let format = *hvar.get(map)?;
        let entry_format = *hvar.get(map + 1)?;
        let entry_size = (((entry_format & 0x30) >> 4) + 1) as usize;
        let bit_count = ((entry_format & 0x0F) + 1) as u32;
        let (count, data) = if format == 0 { (be16(&hvar, map + 2)?, map + 4) } else { (be32(&hvar, map + 2)?, map + 6) };
        let outer_bits = entry_size as u32 * 8 - bit_count;
        if outer_bits == 0 || (n - 1) >> outer_bits != 0 {
            return None;
        }
        for i in 0..count {
            let at = data + i * entry_size;
            let mut v = 0u32;
            for k in 0..entry_size {
                v = (v << 8) | *hvar.get(at + k)? as u32;
            }
            let outer = (v >> bit_count) as usize;
            let inner = v & ((1 << bit_count) - 1);
            if outer < n {
                v = ((perm[outer] as u32) << bit_count) | inner;
            }
            for k in 0..entry_size {
                hvar[at + k] = (v >> (8 * (entry_size - 1 - k))) as u8;
            }
        }
        patched += 1;
    }
    if patched == 0 {
        return None;
    }
    let mut fb = write_fonts::FontBuilder::new();
    fb.add_raw(tag, hvar);
    fb.copy_missing_tables(font.clone());
    let out = fb.build();
    // gate: identical metrics everywhere we look
    {
        let derived = FontRef::new(&out).ok()?;
        let axes = font.axes().len();
        let glyphs = font.maxp().ok()?.num_glyphs() as u32;
        for v in [-1.0f32, -0.5, 0.0, 0.5, 1.0] {
            let loc = vec![F2Dot14::from_f32(v); axes];
            let a = font.glyph_metrics(Size::unscaled(), LocationRef::new(&loc));
            let b = derived.glyph_metrics(Size::unscaled(), LocationRef::new(&loc));
            for g in 0..glyphs {
                let g = GlyphId::new(g);
                if a.advance_width(g).map(f32::to_bits) != b.advance_width(g).map(f32::to_bits)
                    || a.left_side_bearing(g).map(f32::to_bits) != b.left_side_bearing(g).map(f32::to_bits)
                {
                    return None;
                }
            }
        }
    }
    Some(out)
}

/// Copy of a one-axis variable font whose gvar is rebuilt with write-fonts: the lower half of the glyph
/// ids has no variation data, every glyph of the upper half has as many tuples of word-sized deltas as make the table exceed 200 KiB.
fn with_big_gvar(bytes: &[u8]) -> Option<Vec<u8>> {
    use write_fonts::tables::gvar::{GlyphDelta, GlyphDeltas, GlyphVariations, Gvar, Tent};
    let font = FontRef::new(bytes).ok()?;
    let axis_count = font.fvar().ok()?.axis_count();
    if axis_count != 1 {
        return None;
    }
    let n = font.maxp().ok()?.num_glyphs() as u32;
    let loca = font.loca(None).ok()?;
    let glyf = font.glyf().ok()?;
    // the tuple count per glyph is doubled until the table exceeds 200 KiB (the packed size depends on
    // the run-length encoding write-fonts chooses)
    let mut mult = 1usize;
    let gvar = loop {
        let mut vars = vec![];
        for g in 0..n {
            let points = match loca.get_glyf(GlyphId::new(g), &glyf).ok()? {
                Some(Glyph::Simple(sg)) => sg.num_points(),
                Some(Glyph::Composite(c)) => c.components().count(),
                None => 0,
            };
            let mut tuples = vec![];
            if g >= n / 2 && points > 0 {
                let count = (32 * mult).min(4000);
                for t in 0..count {
                    let peak = F2Dot14::from_f32(if t % 2 == 0 { 1.0 } else { -1.0 });
                    let lo = F2Dot14::from_f32(if t % 2 == 0 { (t % 7) as f32 / 16.0 } else { -1.0 });
                    let hi = F2Dot14::from_f32(if t % 2 == 0 { 1.0 } else { -((t % 7) as f32) / 16.0 });
                    let tent = Tent::new(peak, Some((lo, hi)));
                    let sign: i16 = if t % 4 < 2 { 1 } else { -1 };
                    let mut deltas: Vec<GlyphDelta> = (0..points)
                        .map(|p| {
                            let v = sign * (200 + ((p * 7 + t) % 50) as i16);
                            GlyphDelta::required(v, -v)
                        })
                        .collect();
                    // phantom points: no delta (advance and side bearing stay with hmtx/HVAR)
                    deltas.extend((0..4).map(|_| GlyphDelta::required(0, 0)));
                    tuples.push(GlyphDeltas::new(vec![tent], deltas));
                }
            }
            vars.push(GlyphVariations::new(GlyphId::new(g), tuples));
        }
        let gvar = Gvar::new(vars, axis_count).ok()?;
        let size = write_fonts::dump_table(&gvar).ok()?.len();
        if size > 200 * 1024 || mult >= 128 {
            break gvar;
        }
        mult *= 2;
    };
    let mut fb = write_fonts::FontBuilder::new();
    fb.add_table(&gvar).ok()?;
    fb.copy_missing_tables(font);
    Some(fb.build())
}

/// Copy of a font whose cmap gains a (0,5) format 14 subtable: U+FE00: 'a' default, 'b' → glyph 3;
/// U+E0100: 'a' → glyph 2, 'c' → glyph 1. The existing Unicode subtable is kept byte for byte.
fn with_cmap14(bytes: &[u8]) -> Option<Vec<u8>> {
    let font = FontRef::new(bytes).ok()?;
    let cmap = font.cmap().ok()?;
    let data = cmap.offset_data().as_bytes();
    // first Unicode BMP subtable (format 4), copied verbatim
    let rec = cmap.encoding_records().iter().find(|r| {
        r.subtable(cmap.offset_data()).map(|s| s.format() == 4).unwrap_or(false)
    })?;
    let off = rec.subtable_offset().to_u32() as usize;
    let len = u16::from_be_bytes([*data.get(off + 2)?, *data.get(off + 3)?]) as usize;
    let fmt4 = data.get(off..off + len)?.to_vec();
    let u24 = |v: u32| [(v >> 16) as u8, (v >> 8) as u8, v as u8];
    // format 14 body
    let header_len = 10 + 2 * 11;
    let mut default_fe00 = vec![];
    default_fe00.extend_from_slice(&1u32.to_be_bytes());
    default_fe00.extend_from_slice(&u24(0x61));
    default_fe00.push(0);
    let mut nondef_fe00 = vec![];
    nondef_fe00.extend_from_slice(&1u32.to_be_bytes());
    nondef_fe00.extend_from_slice(&u24(0x62));
    nondef_fe00.extend_from_slice(&3u16.to_be_bytes());
    let mut nondef_e0100 = vec![];
    nondef_e0100.extend_from_slice(&2u32.to_be_bytes());
    nondef_e0100.extend_from_slice(&u24(0x61));
    nondef_e0100.extend_from_slice(&2u16.to_be_bytes());
    nondef_e0100.extend_from_slice(&u24(0x63));
    nondef_e0100.extend_from_slice(&1u16.to_be_bytes());
    let o1 = header_len;
    let o2 = o1 + default_fe00.len();
    let o3 = o2 + nondef_fe00.len();
    let total = o3 + nondef_e0100.len();
    let mut f14 = vec![];
    f14.extend_from_slice(&14u16.to_be_bytes());
    f14.extend_from_slice(&(total as u32).to_be_bytes());
    f14.extend_from_slice(&2u32.to_be_bytes());
    f14.extend_from_slice(&u24(0xFE00));
    f14.extend_from_slice(&(o1 as u32).to_be_bytes());
    f14.extend_from_slice(&(o2 as u32).to_be_bytes());
    f14.extend_from_slice(&u24(0xE0100));
    f14.extend_from_slice(&0u32.to_be_bytes());
    f14.extend_from_slice(&(o3 as u32).to_be_bytes());
    f14.extend(default_fe00);
    f14.extend(nondef_fe00);
    f14.extend(nondef_e0100);
    // cmap: (0,3) fmt4, (0,5) fmt14, (3,1) fmt4 (same subtable)
    let hdr = 4 + 3 * 8;
    let mut t = vec![];
    t.extend_from_slice(&0u16.to_be_bytes());
    t.extend_from_slice(&3u16.to_be_bytes());
    for (p, e, o) in [(0u16, 3u16, hdr), (0, 5, hdr + fmt4.len()), (3, 1, hdr)] {
        t.extend_from_slice(&p.to_be_bytes());
        t.extend_from_slice(&e.to_be_bytes());
        t.extend_from_slice(&(o as u32).to_be_bytes());
    }
    t.extend(fmt4);
    t.extend(f14);
    let mut fb = write_fonts::FontBuilder::new();
    fb.add_raw(Tag::new(b"cmap"), t);
    fb.copy_missing_tables(font);
    Some(fb.build())
}

fn body(run: &Run, replay: Option<&Value>) {
    run.rule("a case is (corpus glyf font, request = set of glyph ids and characters, flag set); the subset and the subset-of-the-subset are each verified against the original; the outcome digest is (font, subset glyph count, derived old→new pairs, their observation digests); a case is non-trivial when at least one kept glyph with a non-empty outline was compared with the original over the size × location grid");
    run.assume("skrifa (unhinted outline loader, glyph_metrics) is the observer of both the original and the subset; equal observations mean bit-equal f32 pen streams, advances and side bearings; character maps are judged by the harness' own from-spec cmap reader (formats 4, 12, 14; skrifa's documented subtable selection order), with which skrifa's Charmap must agree on both fonts; the raw hmtx record is read by the harness as well");
    run.assume("request defaults (dropped tables, name ids/languages, layout scripts/features) are those of the klippa command line tool");
    run.assume("characters whose original cmap target is ≥ numGlyphs are outside the property; the .notdef outline (and composites reaching glyph 0) is not compared unless NOTDEF_OUTLINE is set — dropping it is the documented default; advance and side bearing are still compared");
    let tier = if replay.is_some() { Tier::Thorough } else { run.tier };
    if let Some(case) = replay {
        let name = case["font"].as_str().unwrap_or("").to_string();
        let fonts = load_corpus(tier);
        let Some(fi) = fonts.iter().find(|f| f.name == name) else {
            run.machinery_error(&format!("replay: font {name} not in corpus"));
            return;
        };
        let arr = |k: &str| -> Vec<u32> {
            case[k]
                .as_array()
                .map(|a| a.iter().filter_map(|v| v.as_u64()).map(|v| v as u32).collect())
                .unwrap_or_default()
        };
        let req = Request {
            gids: arr("gids"),
            unicodes: arr("unicodes"),
        };
        if case["kind"].as_str() == Some("charmap-differential") {
            report_charmap_diffs(run, fi);
            return;
        }
        let flags = case["flags"].as_u64().unwrap_or(0) as u16;
        let mut l = Local::default();
        check_case(run, fi, &req, flags, true, &mut l);
        if std::env::var("C17_DEBUG").is_ok() {
            debug_dump(fi, &req, flags);
        }
        return;
    }

    let fonts = load_corpus(tier);
    // triage aid (never used by ./check): C17_SCAN=<font file name> subsets every single glyph id and
    // every single character of that font with default flags and prints the failures
    if let Ok(name) = std::env::var("C17_SCAN") {
        for fi in fonts.iter().filter(|f| f.name.ends_with(&name)) {
            for g in 0..fi.num_glyphs {
                match run_subset(&fi.font(), &[g], &[], 0) {
                    Ok(Ok(_)) => {}
                    Ok(Err(e)) => println!("scan {} gid {g}: Err({e})", fi.name),
                    Err(p) => println!("scan {} gid {g}: panic {}", fi.name, p.message),
                }
            }
            for (c, g) in fi.cmap.iter() {
                match run_subset(&fi.font(), &[], &[*c], 0) {
                    Ok(Ok(_)) => {}
                    Ok(Err(e)) => println!("scan {} U+{c:04X} (gid {g}): Err({e})", fi.name),
                    Err(p) => println!("scan {} U+{c:04X}: panic {}", fi.name, p.message),
                }
            }
        }
        std::process::exit(0);
    }
    // the load-time differential on every ORIGINAL: skrifa's Charmap against the from-spec cmap reader
    let mut probes_orig = 0u64;
    for fi in &fonts {
        report_charmap_diffs(run, fi);
        probes_orig += probe_set(&fi.refcmap, &[], &[]).len() as u64;
    }
    run.count("charmap_differential_probes_on_originals", probes_orig);
    run.count("alias_request_characters", fonts.iter().map(|f| f.aliases.len() as u64).sum());
    run.bound("cmap_probe_alphabet", json!(format!("per font (original and every subset): every code point named by any format 4/12 subtable; for mapped characters (all if ≤ {}, else the first and last {PROBE_EDGE}) and for requested characters: c±1, c + k·0x10000 (k = 1..=16) or c & 0xFFFF; 15 fixed boundary code points", 2 * PROBE_EDGE)));
    run.bound("alias_requests", json!("absent characters b + {1,2,16}·0x10000 for b in {first mapped BMP character, U+0041, last mapped BMP character} and s & 0xFFFF for the first mapped supplementary character s: alone, with the aliased character, with one glyph id, all together × {DEFAULT, RETAIN_GIDS, NO_HINTING|NOTDEF_OUTLINE}"));
    let flags = flag_sets();
    run.bound("flag_sets", json!(flags.iter().map(|f| flag_names(*f)).collect::<Vec<_>>()));
    run.bound("sizes", json!(["unscaled", 16]));
    run.bound("locations", json!("default; each axis at +1 and at -1; one mixed point (+0.5/-0.25 alternating)"));
    run.bound("subset_size_non_tiny", json!(tier.pick(2, 3)));
    run.bound("tiny_font_item_limit", json!(tier.pick(TINY_ITEMS_QUICK, TINY_ITEMS_THOROUGH)));
    run.bound("boundary_glyphs_max", json!(10));
    run.bound("boundary_chars_max", json!(10));
    run.bound("singles_layer", json!(tier.pick("every glyph id alone and every mapped character alone, default flags", "every glyph id alone and every mapped character alone × {DEFAULT, RETAIN_GIDS, all five flags}, each subset again")));
    run.bound("huge_cmap_rule", json!(format!("fonts with more than {HUGE_CMAP} mapped characters: subset size one smaller, a covering set of flag combinations, no singles layer")));

    // tasks in a fixed order: font (by path) → request → flag set
    let mut tasks: Vec<(usize, Request, u16, bool)> = vec![];
    let mut font_rows = vec![];
    for (i, fi) in fonts.iter().enumerate() {
        let reqs = requests_for(fi, tier);
        font_rows.push(json!({
            "font": fi.name, "glyphs": fi.num_glyphs, "chars": fi.cmap.len(), "axes": fi.axes, "colr": fi.colr,
            "long_metrics": fi.num_long_metrics, "composites": fi.comps.iter().filter(|c| !c.is_empty()).count(),
            "tiny_all_subsets": fi.tiny, "variation_sequences": fi.variants.len(), "cmap12_adjacent_group_seams_used": fi.seams.len(), "hvar_advance_delta_set_classes": fi.hvar_classes.len(), "boundary_gids": fi.bgl, "boundary_chars": fi.bch,
            "requests": reqs.len(), "cases": reqs.iter().map(|p| p.flags.len()).sum::<usize>(),
            "ref_draw_errors": fi.obs.iter().filter(|o| !o.ok).count(),
            "huge_cmap_reduced_space": fi.huge_cmap, "nonconforming_cmap_no_char_requests": fi.nonconforming_cmap,
        }));
        for p in reqs {
            for f in &p.flags {
                tasks.push((i, p.req.clone(), *f, p.resubset));
            }
        }
    }
    // the loca format boundary family (placement runs the real subsetter once per font and flag set)
    let placements: Vec<(usize, Placement)> = fonts
        .par_iter()
        .enumerate()
        .filter_map(|(i, fi)| loca_boundary_family(fi, tier).map(|p| (i, p)))
        .collect();
    let mut boundary_rows = vec![];
    let mut boundary_cases = 0u64;
    for (i, p) in placements {
        boundary_rows.push(p.row);
        for pl in p.planned {
            for f in &pl.flags {
                tasks.push((i, pl.req.clone(), *f, pl.resubset));
                boundary_cases += 1;
            }
        }
    }
    run.extra("loca_format_boundary_family", json!(boundary_rows));
    run.count("loca_boundary_cases", boundary_cases);
    run.bound("loca_format_boundary_family", json!(format!(
        "fonts with glyf data ≥ 0x10000 bytes: requests 'glyph ids 0..=j' for j within ±4 of the first prefix whose padded (and, above 128 KiB, unpadded) subset glyf total reaches 0x10000 / 0x1FFFF; flag sets {}; {}",
        tier.pick("{DEFAULT, RETAIN_GIDS, NO_HINTING}", "all 8 combinations' worth: {DEFAULT, RETAIN_GIDS, NO_HINTING, NOTDEF_OUTLINE, their pairs, all five}"),
        tier.pick("not subset again (cost)", "each subset again")
    )));
    run.extra("fonts", json!(font_rows));
    run.count("fonts", fonts.len() as u64);
    run.count("fonts_variable", fonts.iter().filter(|f| f.axes > 0).count() as u64);
    run.count("fonts_colr", fonts.iter().filter(|f| f.colr).count() as u64);
    run.count("fonts_all_subsets", fonts.iter().filter(|f| f.tiny).count() as u64);
    run.count("cases", tasks.len() as u64);

    // determinism self-test: first 8 cases twice
    for (i, r, f, _) in tasks.iter().take(8) {
        let a = run_subset(&fonts[*i].font(), &r.gids, &r.unicodes, *f).ok().and_then(|x| x.ok());
        let b = run_subset(&fonts[*i].font(), &r.gids, &r.unicodes, *f).ok().and_then(|x| x.ok());
        if a != b {
            run.machinery_error("subset_font is not deterministic on a repeated call");
        }
    }
    for (i, r, f, _) in tasks.iter().step_by((tasks.len() / 5).max(1)).take(6) {
        run.sample(case_json(&fonts[*i], r, *f));
    }

    let merged = tasks
        .par_iter()
        .fold(Local::default, |mut l, (i, r, f, rs)| {
            let t0 = std::time::Instant::now();
            check_case(run, &fonts[*i], r, *f, *rs, &mut l);
            *l.font_ns.entry(*i).or_default() += t0.elapsed().as_nanos() as u64;
            l
        })
        .reduce(Local::default, |mut a, b| {
            a.all.extend(b.all);
            a.nontrivial.extend(b.nontrivial);
            a.evals += b.evals;
            a.subset_calls += b.subset_calls;
            a.pairs += b.pairs;
            a.outlines += b.outlines;
            a.skipped_notdef += b.skipped_notdef;
            a.skipped_ref_err += b.skipped_ref_err;
            a.resubsets += b.resubsets;
            a.errs += b.errs;
            a.variants += b.variants;
            a.absent_checks += b.absent_checks;
            for (k, v) in b.font_ns {
                *a.font_ns.entry(k).or_default() += v;
            }
            a
        });
    let ids = IDENTITIES.lock().unwrap().clone().unwrap_or_default();
    run.extra("violation_identities", json!(ids));
    // cpu time per font (informational; not used for any decision)
    run.extra(
        "cpu_seconds_per_font",
        json!(merged
            .font_ns
            .iter()
            .map(|(i, ns)| (fonts[*i].name.clone(), json!((*ns as f64 / 1e7).round() / 100.0)))
            .collect::<serde_json::Map<String, Value>>()),
    );
    run.evals(merged.evals);
    run.trans(merged.subset_calls);
    run.observe_many(&merged.all, &merged.nontrivial);
    run.count("subset_font_calls", merged.subset_calls);
    run.count("resubset_runs", merged.resubsets);
    run.count("glyph_pairs_compared", merged.pairs);
    run.count("outline_comparisons", merged.outlines);
    run.count("outline_comparisons_skipped_notdef_rule", merged.skipped_notdef);
    run.count("pairs_skipped_reference_draw_error", merged.skipped_ref_err);
    run.count("cases_with_failure", merged.errs);
    run.count("variation_sequences_compared", merged.variants);
    run.count("absent_character_requests_compared_with_reduced_request", merged.absent_checks);
}
