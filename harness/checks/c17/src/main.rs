//! C17 — subsetting preserves everything about the glyphs and characters it keeps.
//!
//! Bounded exhaustive exploration of `klippa::subset_font` (DESIGN.md §3 C17):
//!
//! * fonts: every corpus font with `glyf`/`loca` outlines (static, variable, colour);
//! * requests: for *tiny* fonts (glyphs + mapped characters + one unmapped character ≤ TINY items) every
//!   subset of that item set; for the other fonts every subset of size ≤ k (k = 2 quick, 3 thorough) of a
//!   per-font boundary set of ≤ 10 glyph ids and ≤ 10 characters (so requests by gid only, by unicode
//!   only and mixed are all enumerated), plus the request "everything";
//! * flags: all 2^5 combinations of {NO_HINTING, RETAIN_GIDS, SET_OVERLAPS_FLAG, NOTDEF_OUTLINE,
//!   GLYPH_NAMES};
//! * for every case the subset is produced, verified against the original, then subset *again* with the
//!   same request (glyph ids translated through the derived old→new relation) and verified again.
//!
//! The oracle never looks at klippa's plan: the old→new glyph relation is derived from the two fonts
//! (cmap of requested characters, identity under RETAIN_GIDS, positional component ids of paired
//! composites, closed transitively; glyphs requested by id only are searched by equal observations).

use klippa::{subset_font, Plan, SubsetFlags, DEFAULT_LAYOUT_FEATURES};
use rayon::prelude::*;
use serde_json::{json, Value};
use skrifa::{
    instance::{LocationRef, Size},
    metrics::GlyphMetrics,
    outline::{DrawSettings, OutlineGlyphCollection, OutlinePen},
    raw::{
        collections::IntSet,
        tables::glyf::Glyph,
        types::{F2Dot14, NameId},
        FontRef, TableProvider,
    },
    GlyphId, MetadataProvider, Tag,
};
use std::collections::{BTreeMap, BTreeSet, HashSet};
use vcore::*;

fn main() {
    main_for("C17", body)
}

// ---------------------------------------------------------------------------------------------
// flags
// ---------------------------------------------------------------------------------------------

const F_NO_HINTING: u16 = 0x0001;
const F_RETAIN_GIDS: u16 = 0x0002;
const F_SET_OVERLAPS: u16 = 0x0010;
const F_NOTDEF_OUTLINE: u16 = 0x0040;
const F_GLYPH_NAMES: u16 = 0x0080;
const FLAG_BITS: [u16; 5] = [
    F_NO_HINTING,
    F_RETAIN_GIDS,
    F_SET_OVERLAPS,
    F_NOTDEF_OUTLINE,
    F_GLYPH_NAMES,
];

fn flag_sets() -> Vec<u16> {
    (0u16..32)
        .map(|m| {
            FLAG_BITS
                .iter()
                .enumerate()
                .filter(|(i, _)| m & (1 << i) != 0)
                .fold(0u16, |a, (_, b)| a | b)
        })
        .collect()
}

fn flag_names(f: u16) -> String {
    let mut v = vec![];
    for (b, n) in [
        (F_NO_HINTING, "NO_HINTING"),
        (F_RETAIN_GIDS, "RETAIN_GIDS"),
        (F_SET_OVERLAPS, "SET_OVERLAPS"),
        (F_NOTDEF_OUTLINE, "NOTDEF_OUTLINE"),
        (F_GLYPH_NAMES, "GLYPH_NAMES"),
    ] {
        if f & b != 0 {
            v.push(n);
        }
    }
    if v.is_empty() {
        "DEFAULT".into()
    } else {
        v.join("|")
    }
}

// ---------------------------------------------------------------------------------------------
// observations of one glyph (reference and subset are both read through skrifa)
// ---------------------------------------------------------------------------------------------

/// Pen that folds the exact command stream (verbs + f32 bit patterns) into a digest.
struct HashPen {
    h: Fnv,
    n: u32,
}
impl OutlinePen for HashPen {
    fn move_to(&mut self, x: f32, y: f32) {
        self.h.u64(0x10 | ((x.to_bits() as u64) << 32));
        self.h.u64(y.to_bits() as u64);
        self.n += 1;
    }
    fn line_to(&mut self, x: f32, y: f32) {
        self.h.u64(0x11 | ((x.to_bits() as u64) << 32));
        self.h.u64(y.to_bits() as u64);
        self.n += 1;
    }
    fn quad_to(&mut self, a: f32, b: f32, x: f32, y: f32) {
        self.h.u64(0x12 | ((a.to_bits() as u64) << 32));
        self.h.u64(b.to_bits() as u64 | ((x.to_bits() as u64) << 32));
        self.h.u64(y.to_bits() as u64);
        self.n += 1;
    }
    fn curve_to(&mut self, a: f32, b: f32, c: f32, d: f32, x: f32, y: f32) {
        self.h.u64(0x13 | ((a.to_bits() as u64) << 32));
        self.h.u64(b.to_bits() as u64 | ((c.to_bits() as u64) << 32));
        self.h.u64(d.to_bits() as u64 | ((x.to_bits() as u64) << 32));
        self.h.u64(y.to_bits() as u64);
        self.n += 1;
    }
    fn close(&mut self) {
        self.h.u64(0x14);
        self.n += 1;
    }
}

/// Pen that renders the stream as text (only used in failure messages).
#[derive(Default)]
struct TextPen(String);
impl OutlinePen for TextPen {
    fn move_to(&mut self, x: f32, y: f32) {
        self.0.push_str(&format!("M{x},{y} "));
    }
    fn line_to(&mut self, x: f32, y: f32) {
        self.0.push_str(&format!("L{x},{y} "));
    }
    fn quad_to(&mut self, a: f32, b: f32, x: f32, y: f32) {
        self.0.push_str(&format!("Q{a},{b} {x},{y} "));
    }
    fn curve_to(&mut self, a: f32, b: f32, c: f32, d: f32, x: f32, y: f32) {
        self.0.push_str(&format!("C{a},{b} {c},{d} {x},{y} "));
    }
    fn close(&mut self) {
        self.0.push_str("Z ");
    }
}

#[derive(Clone, Copy, PartialEq, Eq, Debug)]
struct Obs {
    /// unhinted pen stream + the advance the outline loader reports, over all sizes × locations
    outline: u64,
    /// glyph_metrics advance width + left side bearing over all sizes × locations
    metrics: u64,
    /// some draw produced at least one pen command
    nonempty: bool,
    /// every draw returned Ok (false ⇒ the reference itself cannot draw the glyph; not compared)
    ok: bool,
}

const SIZES: [Option<f32>; 2] = [None, Some(16.0)];

fn size_of(s: Option<f32>) -> Size {
    match s {
        None => Size::unscaled(),
        Some(p) => Size::new(p),
    }
}

/// Observer for one font: glyph metrics objects are built once per (size, location).
struct Observer<'a> {
    outlines: OutlineGlyphCollection<'a>,
    grid: Vec<(Option<f32>, &'a [F2Dot14], GlyphMetrics<'a>)>,
}

impl<'a> Observer<'a> {
    fn new(font: &FontRef<'a>, locs: &'a [Vec<F2Dot14>]) -> Self {
        let mut grid = vec![];
        for s in SIZES {
            for l in locs {
                let gm = font.glyph_metrics(size_of(s), LocationRef::new(l));
                grid.push((s, l.as_slice(), gm));
            }
        }
        Observer {
            outlines: font.outline_glyphs(),
            grid,
        }
    }

    fn observe(&self, gid: u32) -> Obs {
        let g = GlyphId::new(gid);
        let mut ho = Fnv::new();
        let mut hm = Fnv::new();
        let mut nonempty = false;
        let mut ok = true;
        let glyph = self.outlines.get(g);
        for (s, loc, gm) in &self.grid {
            match gm.advance_width(g) {
                Some(a) => hm.u64(a.to_bits() as u64),
                None => hm.u64(0xFFFF_FFFF_0000),
            }
            match gm.left_side_bearing(g) {
                Some(a) => hm.u64(a.to_bits() as u64),
                None => hm.u64(0xFFFF_FFFF_0001),
            }
            match &glyph {
                None => ho.u64(0xDEAD),
                Some(glyph) => {
                    let mut pen = HashPen {
                        h: Fnv::new(),
                        n: 0,
                    };
                    let settings = DrawSettings::unhinted(size_of(*s), LocationRef::new(loc));
                    match glyph.draw(settings, &mut pen) {
                        Ok(m) => {
                            ho.u64(pen.h.finish());
                            ho.u64(pen.n as u64);
                            match m.advance_width {
                                Some(a) => ho.u64(a.to_bits() as u64),
                                None => ho.u64(0xFFFF_FFFF_0002),
                            }
                            if pen.n > 0 {
                                nonempty = true;
                            }
                        }
                        Err(_) => {
                            ok = false;
                            ho.u64(0xE44);
                        }
                    }
                }
            }
        }
        Obs {
            outline: ho.finish(),
            metrics: hm.finish(),
            nonempty,
            ok,
        }
    }
}

/// Human readable first difference between original glyph `o` and subset glyph `n`.
fn describe_diff(
    orig: &FontRef,
    o: u32,
    sub: &FontRef,
    n: u32,
    locs: &[Vec<F2Dot14>],
    with_outline: bool,
) -> String {
    for s in SIZES {
        for l in locs {
            let lr = LocationRef::new(l);
            let a = orig.glyph_metrics(size_of(s), lr);
            let b = sub.glyph_metrics(size_of(s), lr);
            let (aa, ba) = (
                a.advance_width(GlyphId::new(o)),
                b.advance_width(GlyphId::new(n)),
            );
            let (al, bl) = (
                a.left_side_bearing(GlyphId::new(o)),
                b.left_side_bearing(GlyphId::new(n)),
            );
            let coords: Vec<f32> = l.iter().map(|c| c.to_f32()).collect();
            if aa.map(f32::to_bits) != ba.map(f32::to_bits) {
                return format!("advance at size {s:?} coords {coords:?}: original {aa:?}, subset {ba:?}");
            }
            if al.map(f32::to_bits) != bl.map(f32::to_bits) {
                return format!("lsb at size {s:?} coords {coords:?}: original {al:?}, subset {bl:?}");
            }
            if !with_outline {
                continue;
            }
            let mut pa = TextPen::default();
            let mut pb = TextPen::default();
            let ra = orig
                .outline_glyphs()
                .get(GlyphId::new(o))
                .map(|g| g.draw(DrawSettings::unhinted(size_of(s), lr), &mut pa).map(|m| m.advance_width.map(f32::to_bits)).map_err(|e| e.to_string()));
            let rb = sub
                .outline_glyphs()
                .get(GlyphId::new(n))
                .map(|g| g.draw(DrawSettings::unhinted(size_of(s), lr), &mut pb).map(|m| m.advance_width.map(f32::to_bits)).map_err(|e| e.to_string()));
            if pa.0 != pb.0 || ra != rb {
                let cut = |s: &str| s.chars().take(160).collect::<String>();
                return format!(
                    "outline at size {s:?} coords {coords:?}: original {:?} [{}] subset {:?} [{}]",
                    ra,
                    cut(&pa.0),
                    rb,
                    cut(&pb.0)
                );
            }
        }
    }
    "digests differ but no textual difference found".into()
}

// ---------------------------------------------------------------------------------------------
// per-font reference information
// ---------------------------------------------------------------------------------------------

struct FontInfo {
    name: String,
    bytes: Vec<u8>,
    index: u32,
    num_glyphs: u32,
    num_long_metrics: u32,
    /// every nominal mapping of the original (targets may be ≥ num_glyphs: outside the property)
    cmap: BTreeMap<u32, u32>,
    /// direct component ids per glyph (empty for simple/empty glyphs)
    comps: Vec<Vec<u32>>,
    /// component closure (incl. the glyph itself) contains glyph 0
    reach0: Vec<bool>,
    locs: Vec<Vec<F2Dot14>>,
    obs: Vec<Obs>,
    axes: usize,
    bgl: Vec<u32>,
    bch: Vec<u32>,
    tiny: bool,
    colr: bool,
}

impl FontInfo {
    fn font(&self) -> FontRef<'_> {
        FontRef::from_index(&self.bytes, self.index).unwrap()
    }
    fn valid_target(&self, cp: u32) -> Option<u32> {
        self.cmap.get(&cp).copied().filter(|g| *g < self.num_glyphs)
    }
    fn closure(&self, g: u32, out: &mut BTreeSet<u32>) {
        if g >= self.num_glyphs || !out.insert(g) {
            return;
        }
        for c in &self.comps[g as usize] {
            self.closure(*c, out);
        }
    }
}

fn direct_components(font: &FontRef, gid: u32) -> Option<Vec<u32>> {
    let loca = font.loca(None).ok()?;
    let glyf = font.glyf().ok()?;
    match loca.get_glyf(GlyphId::new(gid), &glyf) {
        Ok(Some(Glyph::Composite(c))) => Some(c.components().map(|c| c.glyph.to_u32()).collect()),
        Ok(_) => Some(vec![]),
        Err(_) => None,
    }
}

fn locations(axes: usize) -> Vec<Vec<F2Dot14>> {
    // default, each axis at ±1 (others 0), one mixed interior point
    let mut out = vec![vec![F2Dot14::ZERO; axes]];
    if axes == 0 {
        return out;
    }
    for a in 0..axes {
        for v in [1.0f32, -1.0] {
            let mut l = vec![F2Dot14::ZERO; axes];
            l[a] = F2Dot14::from_f32(v);
            out.push(l);
        }
    }
    let mixed: Vec<F2Dot14> = (0..axes)
        .map(|a| F2Dot14::from_f32(if a % 2 == 0 { 0.5 } else { -0.25 }))
        .collect();
    out.push(mixed);
    out
}

const TINY_ITEMS_QUICK: usize = 9;
const TINY_ITEMS_THOROUGH: usize = 12;

fn load_font(name: String, bytes: Vec<u8>, index: u32, tier: Tier) -> Option<FontInfo> {
    let font = FontRef::from_index(&bytes, index).ok()?;
    font.glyf().ok()?;
    font.loca(None).ok()?;
    font.cmap().ok()?;
    font.hmtx().ok()?;
    let num_glyphs = font.maxp().ok()?.num_glyphs() as u32;
    if num_glyphs == 0 {
        return None;
    }
    let num_long_metrics = font.hhea().ok()?.number_of_h_metrics() as u32;
    let cmap: BTreeMap<u32, u32> = font
        .charmap()
        .mappings()
        .map(|(c, g)| (c, g.to_u32()))
        .collect();
    let comps: Vec<Vec<u32>> = (0..num_glyphs)
        .map(|g| direct_components(&font, g).unwrap_or_default())
        .collect();
    let axes = font.axes().len();
    let locs = locations(axes);
    let mut fi = FontInfo {
        name,
        bytes: vec![],
        index,
        num_glyphs,
        num_long_metrics,
        cmap,
        comps,
        reach0: vec![],
        locs,
        obs: vec![],
        axes,
        bgl: vec![],
        bch: vec![],
        tiny: false,
        colr: font.colr().is_ok(),
    };
    fi.reach0 = (0..num_glyphs)
        .map(|g| {
            let mut s = BTreeSet::new();
            fi.closure(g, &mut s);
            s.contains(&0)
        })
        .collect();
    {
        let ob = Observer::new(&font, &fi.locs);
        fi.obs = (0..num_glyphs).map(|g| ob.observe(g)).collect();
    }
    boundary_sets(&font, &mut fi);
    let valid_chars = fi.cmap.iter().filter(|(_, g)| **g < num_glyphs).count();
    let items = num_glyphs as usize + valid_chars + 1;
    fi.tiny = items <= tier.pick(TINY_ITEMS_QUICK, TINY_ITEMS_THOROUGH);
    fi.bytes = bytes;
    Some(fi)
}

/// The per-font boundary sets (≤ 10 glyph ids, ≤ 10 characters), in a fixed priority order.
fn boundary_sets(font: &FontRef, fi: &mut FontInfo) {
    let n = fi.num_glyphs;
    let mut gl: Vec<u32> = vec![];
    let mut push = |v: &mut Vec<u32>, g: u32| {
        if g < n && !v.contains(&g) && v.len() < 10 {
            v.push(g);
        }
    };
    push(&mut gl, 0);
    // first composite with at least two components, and its first two components
    if let Some(g) = (0..n).find(|g| fi.comps[*g as usize].len() >= 2) {
        push(&mut gl, g);
        let c = fi.comps[g as usize].clone();
        push(&mut gl, c[0]);
        push(&mut gl, c[1]);
    }
    // both sides of the long-metric boundary
    if fi.num_long_metrics >= 1 {
        push(&mut gl, fi.num_long_metrics - 1);
    }
    push(&mut gl, fi.num_long_metrics);
    push(&mut gl, n - 1);
    // COLR base glyphs (v0, v1) and the first v0 layer glyph
    let mut colr_bases: Vec<u32> = vec![];
    if let Ok(colr) = font.colr() {
        if let Some(Ok(recs)) = colr.base_glyph_records() {
            if let Some(r) = recs.first() {
                colr_bases.push(r.glyph_id().to_u32());
            }
        }
        if let Some(Ok(list)) = colr.base_glyph_list() {
            if let Some(r) = list.base_glyph_paint_records().first() {
                colr_bases.push(r.glyph_id().to_u32());
            }
            if let Some(r) = list.base_glyph_paint_records().last() {
                colr_bases.push(r.glyph_id().to_u32());
            }
        }
    }
    for g in &colr_bases {
        push(&mut gl, *g);
    }
    // a composite one of whose components is itself a composite
    if let Some(g) = (0..n).find(|g| {
        fi.comps[*g as usize]
            .iter()
            .any(|c| (*c as usize) < fi.comps.len() && !fi.comps[*c as usize].is_empty())
    }) {
        push(&mut gl, g);
    }
    if let Some(g) = (0..n).find(|g| !fi.comps[*g as usize].is_empty()) {
        push(&mut gl, g);
    }
    push(&mut gl, 1);
    // first glyph after .notdef that draws nothing (space-like)
    if let Some(g) = (1..n).find(|g| !fi.obs[*g as usize].nonempty) {
        push(&mut gl, g);
    }
    if n >= 2 {
        push(&mut gl, n - 2);
    }
    push(&mut gl, n / 2);

    // characters
    let valid: Vec<(u32, u32)> = fi
        .cmap
        .iter()
        .filter(|(_, g)| **g < n)
        .map(|(c, g)| (*c, *g))
        .collect();
    let mut ch: Vec<u32> = vec![];
    let pushc = |v: &mut Vec<u32>, c: u32| {
        if !v.contains(&c) && v.len() < 10 {
            v.push(c);
        }
    };
    if let Some((c, _)) = valid.first() {
        pushc(&mut ch, *c);
    }
    if let Some((c, _)) = valid.last() {
        pushc(&mut ch, *c);
    }
    // two characters mapped to the same glyph
    {
        let mut first_by_gid: BTreeMap<u32, u32> = BTreeMap::new();
        for (c, g) in &valid {
            if let Some(c0) = first_by_gid.get(g) {
                pushc(&mut ch, *c0);
                pushc(&mut ch, *c);
                break;
            }
            first_by_gid.insert(*g, *c);
        }
    }
    // an unmapped character directly after the first mapped range
    if let Some((c0, _)) = valid.first() {
        let mut c = *c0;
        while fi.cmap.contains_key(&c) {
            c += 1;
        }
        pushc(&mut ch, c);
    } else {
        pushc(&mut ch, 0x41);
    }
    // character of a composite glyph
    if let Some((c, _)) = valid.iter().find(|(_, g)| !fi.comps[*g as usize].is_empty()) {
        pushc(&mut ch, *c);
    }
    // character of a glyph beyond the long metrics
    if let Some((c, _)) = valid.iter().find(|(_, g)| *g >= fi.num_long_metrics) {
        pushc(&mut ch, *c);
    }
    // character of a COLR base glyph
    if let Some((c, _)) = valid.iter().find(|(_, g)| colr_bases.contains(g)) {
        pushc(&mut ch, *c);
    }
    // first supplementary-plane character
    if let Some((c, _)) = valid.iter().find(|(c, _)| *c >= 0x10000) {
        pushc(&mut ch, *c);
    }
    // character of a glyph reaching .notdef through components
    if let Some((c, _)) = valid.iter().find(|(_, g)| *g != 0 && fi.reach0[*g as usize]) {
        pushc(&mut ch, *c);
    }
    for c in [0x41u32, 0x20] {
        if fi.valid_target(c).is_some() {
            pushc(&mut ch, c);
        }
    }
    if let Some((c, _)) = valid.get(valid.len() / 2) {
        pushc(&mut ch, *c);
    }
    fi.bgl = gl;
    fi.bch = ch;
}

// ---------------------------------------------------------------------------------------------
// requests
// ---------------------------------------------------------------------------------------------

#[derive(Clone, Debug, PartialEq, Eq, PartialOrd, Ord)]
struct Request {
    gids: Vec<u32>,
    unicodes: Vec<u32>,
}

/// all subsets of `items` with at most `k` members, in a fixed order (by size, then lexicographic)
fn subsets_up_to(n: usize, k: usize) -> Vec<Vec<usize>> {
    let mut out = vec![vec![]];
    let mut frontier: Vec<Vec<usize>> = vec![vec![]];
    for _ in 0..k {
        let mut next = vec![];
        for s in &frontier {
            let start = s.last().map(|l| l + 1).unwrap_or(0);
            for i in start..n {
                let mut t = s.clone();
                t.push(i);
                next.push(t);
            }
        }
        out.extend(next.iter().cloned());
        frontier = next;
    }
    out
}

fn requests_for(fi: &FontInfo, tier: Tier) -> Vec<Request> {
    // item = (is_char, value)
    let (items, k): (Vec<(bool, u32)>, usize) = if fi.tiny {
        let mut it: Vec<(bool, u32)> = (0..fi.num_glyphs).map(|g| (false, g)).collect();
        it.extend(
            fi.cmap
                .iter()
                .filter(|(_, g)| **g < fi.num_glyphs)
                .map(|(c, _)| (true, *c)),
        );
        // one unmapped character
        let mut c = fi.cmap.keys().next().copied().unwrap_or(0x41);
        while fi.cmap.contains_key(&c) {
            c += 1;
        }
        it.push((true, c));
        let k = it.len();
        (it, k)
    } else {
        let mut it: Vec<(bool, u32)> = fi.bgl.iter().map(|g| (false, *g)).collect();
        it.extend(fi.bch.iter().map(|c| (true, *c)));
        (it, tier.pick(2, 3))
    };
    let mut out: Vec<Request> = subsets_up_to(items.len(), k)
        .into_iter()
        .map(|s| {
            let mut r = Request {
                gids: vec![],
                unicodes: vec![],
            };
            for i in s {
                if items[i].0 {
                    r.unicodes.push(items[i].1)
                } else {
                    r.gids.push(items[i].1)
                }
            }
            r
        })
        .collect();
    // "everything": all glyph ids and all mapped characters
    let all = Request {
        gids: (0..fi.num_glyphs).collect(),
        unicodes: fi.cmap.keys().copied().collect(),
    };
    if !out.contains(&all) {
        out.push(all);
    }
    out
}

// ---------------------------------------------------------------------------------------------
// running the subsetter
// ---------------------------------------------------------------------------------------------

fn run_subset(font: &FontRef, gids: &[u32], unicodes: &[u32], flags: u16) -> Result<Result<Vec<u8>, String>, PanicInfo> {
    guard(|| {
        let mut g = IntSet::<GlyphId>::empty();
        for x in gids {
            g.insert(GlyphId::new(*x));
        }
        let mut u = IntSet::<u32>::empty();
        for x in unicodes {
            u.insert(*x);
        }
        // the defaults of the klippa command line tool (same as hb-subset's)
        let mut drop_tables = IntSet::<Tag>::empty();
        for t in [
            b"morx", b"mort", b"kerx", b"kern", b"JSTF", b"DSIG", b"EBDT", b"EBLC", b"EBSC", b"SVG ",
            b"PCLT", b"LTSH", b"Feat", b"Glat", b"Gloc", b"Silf", b"Sill",
        ] {
            drop_tables.insert(Tag::new(t));
        }
        let mut name_ids = IntSet::<NameId>::empty();
        name_ids.insert_range(NameId::from(0)..=NameId::from(6));
        let mut name_languages = IntSet::<u16>::empty();
        name_languages.insert(0x0409);
        let mut layout_scripts = IntSet::<Tag>::empty();
        layout_scripts.invert();
        let mut layout_features = IntSet::<Tag>::empty();
        layout_features.extend(DEFAULT_LAYOUT_FEATURES.iter().copied());
        let plan = Plan::new(
            &g,
            &u,
            font,
            SubsetFlags::from(flags),
            &drop_tables,
            &layout_scripts,
            &layout_features,
            &name_ids,
            &name_languages,
        );
        subset_font(font, &plan).map_err(|e| format!("{e:?}"))
    })
}

// ---------------------------------------------------------------------------------------------
// the oracle
// ---------------------------------------------------------------------------------------------

struct Viol {
    class: String,
    what: String,
}

struct Outcome {
    /// old gid → new gid (first image) for every glyph the request names or reaches
    images: BTreeMap<u32, u32>,
    sub_glyphs: u32,
    pairs: usize,
    compared_outlines: usize,
    nonempty_compared: usize,
    skipped_notdef: usize,
    skipped_ref_err: usize,
    digest: u64,
}

/// Verify `out` (a subset of the original described by `fi` for request `req`/`flags`).
fn verify(fi: &FontInfo, req: &Request, flags: u16, out: &[u8]) -> Result<Outcome, Vec<Viol>> {
    let mut viols: Vec<Viol> = vec![];
    macro_rules! viol {
        ($class:expr, $($arg:tt)*) => {
            viols.push(Viol { class: $class.to_string(), what: format!($($arg)*) })
        };
    }
    let orig = fi.font();
    let sub = match FontRef::new(out) {
        Ok(f) => f,
        Err(e) => {
            viol!("subset does not open", "FontRef::new: {e}");
            return Err(viols);
        }
    };
    // "opens as a font": the tables the observations need must parse
    let sub_n = match sub.maxp() {
        Ok(m) => m.num_glyphs() as u32,
        Err(e) => {
            viol!("subset does not open", "maxp: {e}");
            return Err(viols);
        }
    };
    for (tag, ok) in [
        ("head", sub.head().is_ok()),
        ("hhea", sub.hhea().is_ok()),
        ("hmtx", sub.hmtx().is_ok()),
        ("loca", sub.loca(None).is_ok()),
        ("glyf", sub.glyf().is_ok()),
        ("cmap", sub.cmap().is_ok()),
    ] {
        if !ok {
            viol!("subset does not open", "table {tag} missing or unreadable");
        }
    }
    if !viols.is_empty() {
        return Err(viols);
    }
    if (sub.loca(None).unwrap().len() as u32) < sub_n {
        viol!(
            "subset loca shorter than maxp.numGlyphs",
            "loca has {} glyphs, maxp says {}",
            sub.loca(None).unwrap().len(),
            sub_n
        );
    }
    let retain = flags & F_RETAIN_GIDS != 0;
    let notdef_outline = flags & F_NOTDEF_OUTLINE != 0;

    // ---- what the statement says must be present --------------------------------------------
    let req_gids: BTreeSet<u32> = req.gids.iter().copied().filter(|g| *g < fi.num_glyphs).collect();
    let req_chars: BTreeSet<u32> = req.unicodes.iter().copied().collect();
    let mut expected: BTreeSet<u32> = BTreeSet::new();
    fi.closure(0, &mut expected);
    for g in &req_gids {
        fi.closure(*g, &mut expected);
    }
    for c in &req_chars {
        if let Some(g) = fi.valid_target(*c) {
            fi.closure(g, &mut expected);
        }
    }
    if retain {
        let need = expected.iter().next_back().unwrap() + 1;
        if sub_n < need {
            viol!("glyph count below requested closure", "RETAIN_GIDS: {sub_n} glyphs, highest needed id {}", need - 1);
        }
    } else if (sub_n as usize) < expected.len() {
        viol!("glyph count below requested closure", "{sub_n} glyphs < |requested ∪ .notdef ∪ components| = {}", expected.len());
    }

    // ---- character map ----------------------------------------------------------------------
    let sub_cm = sub.charmap();
    let mut pairs: BTreeSet<(u32, u32)> = BTreeSet::new();
    for c in &req_chars {
        if let Some(g) = fi.valid_target(*c) {
            match sub_cm.map(*c) {
                Some(n) => {
                    pairs.insert((g, n.to_u32()));
                }
                None => viol!("requested character not mapped", "U+{c:04X} (original glyph {g}) has no mapping in the subset"),
            }
        }
    }
    for (c, n) in sub_cm.mappings() {
        let og = fi.cmap.get(&c).copied();
        let wanted = req_chars.contains(&c) || og.map_or(false, |g| req_gids.contains(&g));
        if !wanted {
            viol!("unrequested character mapped", "U+{c:04X} → new glyph {} although neither it nor its original glyph {og:?} was requested", n.to_u32());
            break;
        }
    }

    // ---- old → new relation -----------------------------------------------------------------
    if retain {
        for g in &expected {
            pairs.insert((*g, *g));
        }
    }
    let sub_ob = Observer::new(&sub, &fi.locs);
    let mut sub_obs: BTreeMap<u32, Obs> = BTreeMap::new();
    let mut obs_of = |n: u32, sub_obs: &mut BTreeMap<u32, Obs>| -> Obs {
        *sub_obs.entry(n).or_insert_with(|| sub_ob.observe(n))
    };
    let exempt = |o: u32| !notdef_outline && fi.reach0[o as usize];
    let equal = |o: u32, so: Obs| -> bool {
        let oo = fi.obs[o as usize];
        if !oo.ok {
            return true;
        }
        oo.metrics == so.metrics && (exempt(o) || oo.outline == so.outline)
    };
    // glyphs requested by id only (and .notdef): *some* new glyph must carry equal observations
    let have: BTreeSet<u32> = pairs.iter().map(|p| p.0).collect();
    let mut by_search: Vec<u32> = req_gids.iter().copied().filter(|g| !have.contains(g)).collect();
    if !have.contains(&0) && !by_search.contains(&0) {
        by_search.insert(0, 0);
    }
    for g in by_search {
        // try the conventional places first (cheap), then every glyph of the subset
        let mut found = None;
        if g == 0 && sub_n > 0 && equal(0, obs_of(0, &mut sub_obs)) {
            found = Some(0);
        }
        if found.is_none() {
            for n in 0..sub_n {
                if equal(g, obs_of(n, &mut sub_obs)) {
                    found = Some(n);
                    break;
                }
            }
        }
        match found {
            Some(n) => {
                pairs.insert((g, n));
            }
            None => viol!(
                "requested glyph has no image",
                "no glyph of the subset ({sub_n} glyphs) has the observations of original glyph {g}"
            ),
        }
    }
    // close over composite components (positional)
    let mut work: Vec<(u32, u32)> = pairs.iter().copied().collect();
    while let Some((o, n)) = work.pop() {
        if n >= sub_n {
            continue;
        }
        let oc = &fi.comps[o as usize];
        if oc.is_empty() {
            continue;
        }
        if !notdef_outline && o == 0 {
            continue; // .notdef is emptied by design: its components need not be kept
        }
        match direct_components(&sub, n) {
            Some(nc) if nc.len() == oc.len() => {
                for (a, b) in oc.iter().zip(nc.iter()) {
                    if pairs.insert((*a, *b)) {
                        work.push((*a, *b));
                    }
                }
            }
            Some(nc) => viol!(
                "composite structure changed",
                "original glyph {o} has components {oc:?}, subset glyph {n} has {nc:?}"
            ),
            None => viol!("composite structure changed", "subset glyph {n} unreadable"),
        }
    }

    // ---- observations of every derived pair -------------------------------------------------
    let mut images: BTreeMap<u32, u32> = BTreeMap::new();
    let mut compared_outlines = 0;
    let mut nonempty_compared = 0;
    let mut skipped_notdef = 0;
    let mut skipped_ref_err = 0;
    let mut h = Fnv::new();
    h.u64(sub_n as u64);
    for (o, n) in &pairs {
        let (o, n) = (*o, *n);
        images.entry(o).or_insert(n);
        h.u64(((o as u64) << 32) | n as u64);
        if retain && o != n {
            viol!("glyph id not retained", "RETAIN_GIDS: original glyph {o} is glyph {n} in the subset");
        }
        if n >= sub_n {
            viol!("image glyph id out of range", "original glyph {o} → {n}, subset has {sub_n} glyphs");
            continue;
        }
        let oo = fi.obs[o as usize];
        if !oo.ok {
            skipped_ref_err += 1;
            continue;
        }
        let so = obs_of(n, &mut sub_obs);
        h.u64(so.metrics);
        if oo.metrics != so.metrics {
            viol!(
                "advance or side bearing differs",
                "original glyph {o} vs subset glyph {n}: {}",
                describe_diff(&orig, o, &sub, n, &fi.locs, false)
            );
        }
        if exempt(o) {
            skipped_notdef += 1;
            continue;
        }
        compared_outlines += 1;
        if oo.nonempty {
            nonempty_compared += 1;
        }
        h.u64(so.outline);
        if oo.outline != so.outline {
            viol!(
                "outline differs",
                "original glyph {o} vs subset glyph {n}: {}",
                describe_diff(&orig, o, &sub, n, &fi.locs, true)
            );
        }
    }
    if !viols.is_empty() {
        return Err(viols);
    }
    Ok(Outcome {
        images,
        sub_glyphs: sub_n,
        pairs: pairs.len(),
        compared_outlines,
        nonempty_compared,
        skipped_notdef,
        skipped_ref_err,
        digest: h.finish(),
    })
}

// ---------------------------------------------------------------------------------------------
// one case = (font, request, flags): subset, verify, subset the subset, verify again
// ---------------------------------------------------------------------------------------------

#[derive(Default)]
struct Local {
    all: HashSet<u64>,
    nontrivial: HashSet<u64>,
    evals: u64,
    subset_calls: u64,
    pairs: u64,
    outlines: u64,
    skipped_notdef: u64,
    skipped_ref_err: u64,
    resubsets: u64,
    errs: u64,
}

fn case_json(fi: &FontInfo, req: &Request, flags: u16) -> Value {
    json!({"font": fi.name, "gids": req.gids, "unicodes": req.unicodes, "flags": flags, "flag_names": flag_names(flags)})
}

fn report(run: &Run, fi: &FontInfo, req: &Request, flags: u16, stage: &str, v: &Viol) {
    let short = fi.name.rsplit('/').next().unwrap_or(&fi.name);
    let id = format!("{stage}{} [{}]", v.class, short);
    let what = format!(
        "{} gids={:?} unicodes={:04X?} flags={}: {}",
        fi.name,
        &req.gids[..req.gids.len().min(12)],
        &req.unicodes[..req.unicodes.len().min(12)],
        flag_names(flags),
        v.what
    );
    run.violation(&id, &what, case_json(fi, req, flags));
}

fn check_case(run: &Run, fi: &FontInfo, req: &Request, flags: u16, l: &mut Local) {
    l.evals += 1;
    let orig = fi.font();
    l.subset_calls += 1;
    let out = match run_subset(&orig, &req.gids, &req.unicodes, flags) {
        Err(p) => {
            report(run, fi, req, flags, "", &Viol { class: format!("subset_font panic {} @{}", p.kind(), p.site()), what: p.message.clone() });
            l.errs += 1;
            return;
        }
        Ok(Err(e)) => {
            // "the subset opens as a font …": a request for existing glyphs/characters of a readable
            // corpus font that is answered with an error produced no font at all.
            report(run, fi, req, flags, "", &Viol { class: format!("subset_font Err({e})"), what: "no subset produced".into() });
            l.errs += 1;
            return;
        }
        Ok(Ok(o)) => o,
    };
    let o1 = match guard(|| verify(fi, req, flags, &out)) {
        Err(p) => {
            report(run, fi, req, flags, "", &Viol { class: format!("reading the subset panics {} @{}", p.kind(), p.site()), what: p.message.clone() });
            l.errs += 1;
            return;
        }
        Ok(Err(vs)) => {
            for v in &vs {
                report(run, fi, req, flags, "", v);
            }
            l.errs += 1;
            return;
        }
        Ok(Ok(o)) => o,
    };
    l.pairs += o1.pairs as u64;
    l.outlines += o1.compared_outlines as u64;
    l.skipped_notdef += o1.skipped_notdef as u64;
    l.skipped_ref_err += o1.skipped_ref_err as u64;
    let mut h = Fnv::new();
    h.str(&fi.name);
    h.u64(o1.digest);
    let d = h.finish();
    l.all.insert(d);
    // non-trivial: at least one kept glyph with a non-empty outline was compared and the subset is
    // a proper subset (or carries flags) — i.e. the oracle had something to disagree about
    if o1.nonempty_compared > 0 {
        l.nontrivial.insert(d);
    }

    // ---- subset the subset again with the same request ------------------------------------------
    let sub = match FontRef::new(&out) {
        Ok(f) => f,
        Err(_) => return,
    };
    let gids2: Vec<u32> = if flags & F_RETAIN_GIDS != 0 {
        req.gids.clone()
    } else {
        let mut v: Vec<u32> = req
            .gids
            .iter()
            .filter_map(|g| o1.images.get(g).copied())
            .collect();
        v.sort();
        v.dedup();
        v
    };
    l.subset_calls += 1;
    l.resubsets += 1;
    let out2 = match run_subset(&sub, &gids2, &req.unicodes, flags) {
        Err(p) => {
            report(run, fi, req, flags, "resubset: ", &Viol { class: format!("subset_font panic {} @{}", p.kind(), p.site()), what: p.message.clone() });
            return;
        }
        Ok(Err(e)) => {
            report(run, fi, req, flags, "resubset: ", &Viol { class: format!("subset_font Err({e})"), what: "no subset produced from the subset".into() });
            return;
        }
        Ok(Ok(o)) => o,
    };
    match guard(|| verify(fi, req, flags, &out2)) {
        Err(p) => report(run, fi, req, flags, "resubset: ", &Viol { class: format!("reading the subset panics {} @{}", p.kind(), p.site()), what: p.message.clone() }),
        Ok(Err(vs)) => {
            for v in &vs {
                report(run, fi, req, flags, "resubset: ", v);
            }
        }
        Ok(Ok(o2)) => {
            // same observations as the first subset (both equal the original's); glyph count must not
            // grow or shrink either: the second pass sees exactly the glyphs the first one kept
            if o2.sub_glyphs != o1.sub_glyphs && flags & F_RETAIN_GIDS == 0 {
                // not part of the statement (only observations are); recorded as an outcome, not judged
                let mut h = Fnv::new();
                h.str("resubset-count-change");
                h.u64(o2.sub_glyphs as u64);
                l.all.insert(h.finish());
            }
            l.pairs += o2.pairs as u64;
            l.outlines += o2.compared_outlines as u64;
        }
    }
}

// ---------------------------------------------------------------------------------------------
// body
// ---------------------------------------------------------------------------------------------

fn load_corpus(tier: Tier) -> Vec<FontInfo> {
    let files = corpus_fonts();
    let mut jobs: Vec<(String, Vec<u8>, u32)> = vec![];
    for (name, bytes) in files {
        if name.ends_with(".ttc") {
            for i in 0..8u32 {
                if FontRef::from_index(&bytes, i).is_ok() {
                    jobs.push((format!("{name}#{i}"), bytes.clone(), i));
                }
            }
        } else {
            jobs.push((name, bytes, 0));
        }
    }
    jobs.into_par_iter()
        .filter_map(|(n, b, i)| load_font(n, b, i, tier))
        .collect()
}

fn body(run: &Run, replay: Option<&Value>) {
    run.rule("a case is (corpus glyf font, request = set of glyph ids and characters, flag set); the subset and the subset-of-the-subset are each verified against the original; the outcome digest is (font, subset glyph count, derived old→new pairs, their observation digests); a case is non-trivial when at least one kept glyph with a non-empty outline was compared with the original over the size × location grid");
    run.assume("skrifa (charmap, unhinted outline loader, glyph_metrics) is the observer of both the original and the subset; equal observations mean bit-equal f32 pen streams, advances and side bearings");
    run.assume("request defaults (dropped tables, name ids/languages, layout scripts/features) are those of the klippa command line tool");
    run.assume("characters whose original cmap target is ≥ numGlyphs are outside the property; the .notdef outline (and composites reaching glyph 0) is not compared unless NOTDEF_OUTLINE is set — dropping it is the documented default; advance and side bearing are still compared");
    let tier = if replay.is_some() { Tier::Thorough } else { run.tier };
    if let Some(case) = replay {
        let name = case["font"].as_str().unwrap_or("").to_string();
        let fonts = load_corpus(tier);
        let Some(fi) = fonts.iter().find(|f| f.name == name) else {
            run.machinery_error(&format!("replay: font {name} not in corpus"));
            return;
        };
        let arr = |k: &str| -> Vec<u32> {
            case[k]
                .as_array()
                .map(|a| a.iter().filter_map(|v| v.as_u64()).map(|v| v as u32).collect())
                .unwrap_or_default()
        };
        let req = Request {
            gids: arr("gids"),
            unicodes: arr("unicodes"),
        };
        let flags = case["flags"].as_u64().unwrap_or(0) as u16;
        let mut l = Local::default();
        check_case(run, fi, &req, flags, &mut l);
        return;
    }

    let fonts = load_corpus(tier);
    let flags = flag_sets();
    run.bound("flag_sets", json!(flags.iter().map(|f| flag_names(*f)).collect::<Vec<_>>()));
    run.bound("sizes", json!(["unscaled", 16]));
    run.bound("locations", json!("default; each axis at +1 and at -1; one mixed point (+0.5/-0.25 alternating)"));
    run.bound("subset_size_non_tiny", json!(tier.pick(2, 3)));
    run.bound("tiny_font_item_limit", json!(tier.pick(TINY_ITEMS_QUICK, TINY_ITEMS_THOROUGH)));
    run.bound("boundary_glyphs_max", json!(10));
    run.bound("boundary_chars_max", json!(10));

    // tasks in a fixed order: font (by path) → request → flag set
    let mut tasks: Vec<(usize, Request, u16)> = vec![];
    let mut font_rows = vec![];
    for (i, fi) in fonts.iter().enumerate() {
        let reqs = requests_for(fi, tier);
        font_rows.push(json!({
            "font": fi.name, "glyphs": fi.num_glyphs, "chars": fi.cmap.len(), "axes": fi.axes, "colr": fi.colr,
            "long_metrics": fi.num_long_metrics, "composites": fi.comps.iter().filter(|c| !c.is_empty()).count(),
            "tiny_all_subsets": fi.tiny, "boundary_gids": fi.bgl, "boundary_chars": fi.bch,
            "requests": reqs.len(), "ref_draw_errors": fi.obs.iter().filter(|o| !o.ok).count(),
        }));
        for r in reqs {
            for f in &flags {
                tasks.push((i, r.clone(), *f));
            }
        }
    }
    run.extra("fonts", json!(font_rows));
    run.count("fonts", fonts.len() as u64);
    run.count("fonts_variable", fonts.iter().filter(|f| f.axes > 0).count() as u64);
    run.count("fonts_colr", fonts.iter().filter(|f| f.colr).count() as u64);
    run.count("fonts_all_subsets", fonts.iter().filter(|f| f.tiny).count() as u64);
    run.count("cases", tasks.len() as u64);

    // determinism self-test: first 8 cases twice
    for (i, r, f) in tasks.iter().take(8) {
        let a = run_subset(&fonts[*i].font(), &r.gids, &r.unicodes, *f).ok().and_then(|x| x.ok());
        let b = run_subset(&fonts[*i].font(), &r.gids, &r.unicodes, *f).ok().and_then(|x| x.ok());
        if a != b {
            run.machinery_error("subset_font is not deterministic on a repeated call");
        }
    }
    for (i, r, f) in tasks.iter().step_by((tasks.len() / 5).max(1)).take(6) {
        run.sample(case_json(&fonts[*i], r, *f));
    }

    let merged = tasks
        .par_iter()
        .fold(Local::default, |mut l, (i, r, f)| {
            check_case(run, &fonts[*i], r, *f, &mut l);
            l
        })
        .reduce(Local::default, |mut a, b| {
            a.all.extend(b.all);
            a.nontrivial.extend(b.nontrivial);
            a.evals += b.evals;
            a.subset_calls += b.subset_calls;
            a.pairs += b.pairs;
            a.outlines += b.outlines;
            a.skipped_notdef += b.skipped_notdef;
            a.skipped_ref_err += b.skipped_ref_err;
            a.resubsets += b.resubsets;
            a.errs += b.errs;
            a
        });
    run.evals(merged.evals);
    run.trans(merged.subset_calls);
    run.observe_many(&merged.all, &merged.nontrivial);
    run.count("subset_font_calls", merged.subset_calls);
    run.count("resubset_runs", merged.resubsets);
    run.count("glyph_pairs_compared", merged.pairs);
    run.count("outline_comparisons", merged.outlines);
    run.count("outline_comparisons_skipped_notdef_rule", merged.skipped_notdef);
    run.count("pairs_skipped_reference_draw_error", merged.skipped_ref_err);
    run.count("cases_with_failure", merged.errs);
}
