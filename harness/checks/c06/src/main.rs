//! C06 — built font files are well-formed sfnt containers that return the tables put in.
//!
//! Two exhaustively enumerated spaces, both executed on the real `write_fonts::FontBuilder`:
//!
//! (a) *maps*: every set of <= K tags from an 8-tag alphabet (incl. `head`, `CFF `, `DSIG`, `glyf`
//!     and tags outside every recommended order) x every per-tag length from a mod-4 straddling
//!     alphabet x every per-tag fill class (00 / FF / ramp), each built in *every* insertion order
//!     (all k! permutations; a stated subset of orders for the largest family).
//! (b) *histories*: every sequence of <= D operations from
//!     { add_raw(tag, blob A|B) for 3 tags, copy_missing_tables(S1), copy_missing_tables(S2) }
//!     followed by `build`.
//!
//! Oracle = a reference model (`BTreeMap<tag, bytes>`: last add_raw wins, copy only inserts) plus an
//! sfnt checker written from the OpenType spec (own directory parser, own checksum), see `check_sfnt`.

use rayon::prelude::*;
use serde_json::{json, Value};
use std::collections::{BTreeMap, HashMap, HashSet};
use vcore::*;
use write_fonts::read::{FileRef, FontRef};
use write_fonts::types::Tag;
use write_fonts::FontBuilder;

fn main() {
    main_for("C06", body)
}

const TAGS: [&[u8; 4]; 29] = [
    b"head", b"CFF ", b"DSIG", b"glyf", b"OS/2", b"aaaa", b"zzzz", b"cmap",
    // "any tags": bytes outside printable ASCII, in particular first bytes >= 0x80 (which a signed
    // comparison would sort before every ordinary tag), an all-zero and an all-ones tag
    b"\x80abc", b"\xE9xt ", b"\xFF\xFF\xFF\xFF", b"\0\0\0\0", b"a\x80bc",
    // 13..: the remaining tags of the two recommended physical orders (every tag that
    // `ordered_tags` treats specially is in the alphabet), plus `CFF2` (NOT special: a near miss)
    b"hhea", b"maxp", b"hmtx", b"LTSH", b"VDMX", b"hdmx", b"fpgm", b"prep", b"cvt ", b"loca",
    b"kern", b"name", b"post", b"gasp", b"PCLT", b"CFF2",
];
/// every tag with a special rule in `FontBuilder::ordered_tags` (19 TrueType-order tags, `CFF `,
/// `DSIG`) plus three ordinary ones (aaaa, zzzz, CFF2)
const REC_POOL: [usize; 24] = [0, 13, 14, 4, 15, 16, 17, 18, 7, 19, 20, 21, 22, 3, 23, 24, 25, 26, 27, 1, 2, 5, 6, 28];
/// tag pools (indices into TAGS) of the map families
const BASE_POOL: [usize; 8] = [0, 1, 2, 3, 4, 5, 6, 7];
const HIGH_POOL: [usize; 8] = [0, 5, 2, 8, 9, 10, 11, 12];
const LENS_FULL: [usize; 10] = [0, 1, 2, 3, 4, 5, 11, 12, 13, 16];
const LENS_RED: [usize; 6] = [0, 1, 3, 4, 12, 13];
// fill classes: 0 = all 00, 1 = all FF (forces 32-bit checksum wrap), 2 = ramp
const FILLS_FULL: [u8; 3] = [0, 1, 2];
const FILLS_RED: [u8; 2] = [0, 1];

fn blob(tag_ix: usize, len: usize, fill: u8) -> Vec<u8> {
    match fill {
        0 => vec![0u8; len],
        1 => vec![0xFFu8; len],
        _ => (0..len)
            .map(|i| (i as u8).wrapping_mul(37).wrapping_add(0x11 * (tag_ix as u8 + 1)))
            .collect(),
    }
}

// ---------------------------------------------------------------------------
// the independent sfnt checker (written from the OpenType spec "Font File" chapter)
// ---------------------------------------------------------------------------

fn be32(b: &[u8], at: usize) -> Option<u32> {
    b.get(at..at + 4)
        .map(|s| u32::from_be_bytes([s[0], s[1], s[2], s[3]]))
}
fn be16(b: &[u8], at: usize) -> Option<u16> {
    b.get(at..at + 2).map(|s| u16::from_be_bytes([s[0], s[1]]))
}

/// Spec checksum: sum of big-endian u32 words of the table, zero padded to a multiple of four,
/// modulo 2^32. Returns (sum mod 2^32, whether the 64-bit sum exceeded 32 bits).
fn spec_checksum(data: &[u8]) -> (u32, bool) {
    let mut sum: u64 = 0;
    let mut i = 0;
    while i < data.len() {
        let mut w = [0u8; 4];
        let n = (data.len() - i).min(4);
        w[..n].copy_from_slice(&data[i..i + n]);
        sum += u32::from_be_bytes(w) as u64;
        i += 4;
    }
    (sum as u32, sum > u32::MAX as u64)
}

struct Checked {
    wrapped: bool,
    slack: bool,
}

/// Returns Err((class, detail)) for the first broken clause of the property statement.
/// `class` is a short stable name of the clause (used in the violation identity).
fn check_sfnt(file: &[u8], model: &BTreeMap<[u8; 4], Vec<u8>>) -> Result<Checked, (String, String)> {
    let e = |c: &str, d: String| Err((c.to_string(), d));
    // --- "the assembled font opens successfully"
    let font = match guard(|| FontRef::new(file)) {
        Ok(Ok(f)) => f,
        Ok(Err(err)) => return e("does-not-open", format!("FontRef::new: {err}")),
        Err(p) => return e("open-panics", format!("FontRef::new panicked: {}", p.message)),
    };
    // --- own directory parse
    let Some(version) = be32(file, 0) else {
        return e("truncated-header", "no sfnt version".into());
    };
    if version != 0x0001_0000 && version != 0x4F54_544F && version != 0x7472_7565 {
        return e("bad-sfnt-version", format!("{version:#x}"));
    }
    let Some(n) = be16(file, 4) else {
        return e("truncated-header", "no numTables".into());
    };
    let n = n as usize;
    // binary-search helper fields, from the spec formula (OpenType "Table Directory"):
    // entrySelector = floor(log2 n), searchRange = 16 * 2^entrySelector, rangeShift = 16 n - searchRange.
    // Integer arithmetic only. log2(0) is undefined, so a font with no tables is not judged here.
    // (from 4096 tables on, 16 * 2^entrySelector no longer fits the 16-bit field: not judged)
    if n >= 1 && n < 4096 {
        let es = (usize::BITS - 1 - n.leading_zeros()) as usize;
        let want = ((16usize << es) as u16, es as u16, (16 * n - (16usize << es)) as u16);
        let got = (be16(file, 6).unwrap_or(0), be16(file, 8).unwrap_or(0), be16(file, 10).unwrap_or(0));
        if got != want {
            return e(
                "search-fields-differ-from-spec-formula",
                format!("numTables {n}: (searchRange, entrySelector, rangeShift) = {got:?}, spec formula gives {want:?}"),
            );
        }
    }
    let dir_end = 12 + 16 * n;
    if file.len() < dir_end {
        return e("truncated-directory", format!("{} < {}", file.len(), dir_end));
    }
    // --- "lists exactly those tags in ascending order"
    let mut recs: Vec<([u8; 4], u32, usize, usize)> = vec![];
    for i in 0..n {
        let at = 12 + 16 * i;
        let tag: [u8; 4] = file[at..at + 4].try_into().unwrap();
        recs.push((
            tag,
            be32(file, at + 4).unwrap(),
            be32(file, at + 8).unwrap() as usize,
            be32(file, at + 12).unwrap() as usize,
        ));
    }
    for w in recs.windows(2) {
        if w[0].0 >= w[1].0 {
            return e(
                "directory-not-ascending",
                format!("{:?} then {:?}", Tag::new(&w[0].0), Tag::new(&w[1].0)),
            );
        }
    }
    let listed: Vec<[u8; 4]> = recs.iter().map(|r| r.0).collect();
    let wanted: Vec<[u8; 4]> = model.keys().copied().collect();
    if listed != wanted {
        return e(
            "tag-set-differs",
            format!("listed {} tags, supplied {}", listed.len(), wanted.len()),
        );
    }
    // --- the reader's own listing ("lists exactly those tags in ascending order" is observed through
    // `table_directory`): every header field and every record field the reader reports must equal
    // the raw bytes the harness decoded itself
    {
        let td = &font.table_directory;
        let hdr = (td.sfnt_version(), td.num_tables(), td.search_range(), td.entry_selector(), td.range_shift());
        let raw = (version, n as u16, be16(file, 6).unwrap_or(0), be16(file, 8).unwrap_or(0), be16(file, 10).unwrap_or(0));
        if hdr != raw {
            return e("reader-header-fields-differ-from-raw-bytes", format!("reader {hdr:?}, raw {raw:?}"));
        }
        let rr = td.table_records();
        if rr.len() != n {
            return e("reader-lists-wrong-number-of-records", format!("reader {}, numTables {n}", rr.len()));
        }
        for (i, (r, raw)) in rr.iter().zip(recs.iter()).enumerate() {
            let got = (r.tag().to_be_bytes(), r.checksum(), r.offset() as usize, r.length() as usize);
            if got != *raw {
                return e("reader-record-differs-from-raw-bytes", format!("record {i}: reader {got:?}, raw {raw:?}"));
            }
        }
    }
    // --- per table: alignment, in file, zero padding, bytes, checksum
    let mut total_wrapped = false;
    let mut spans: Vec<(usize, usize)> = vec![];
    for (tag, checksum, offset, length) in &recs {
        let tname = Tag::new(tag);
        if offset % 4 != 0 {
            return e("offset-not-aligned", format!("{tname} at {offset}"));
        }
        if *offset < dir_end {
            return e("table-inside-directory", format!("{tname} at {offset}"));
        }
        let padded = (length + 3) / 4 * 4;
        if offset + padded > file.len() {
            return e(
                "table-or-padding-out-of-file",
                format!("{tname} {offset}+{padded} > {}", file.len()),
            );
        }
        if file[offset + length..offset + padded].iter().any(|b| *b != 0) {
            return e("padding-not-zero", format!("{tname} len {length}"));
        }
        spans.push((*offset, offset + padded));
        let got = &file[*offset..offset + length];
        let want = &model[tag];
        let is_head = tag == b"head";
        if got.len() != want.len() {
            return e("length-differs", format!("{tname} {} vs {}", got.len(), want.len()));
        }
        for (i, (g, w)) in got.iter().zip(want.iter()).enumerate() {
            if g != w && !(is_head && (8..12).contains(&i)) {
                return e("bytes-differ", format!("{tname} byte {i}: {g:#x} vs {w:#x}"));
            }
        }
        // the reader under test must return the same bytes
        match font.table_data(tname) {
            Some(d) if d.as_bytes() == got => {}
            Some(d) => {
                return e(
                    "table_data-differs",
                    format!("{tname}: reader returns {} bytes", d.as_bytes().len()),
                )
            }
            None => return e("table_data-missing", format!("{tname}")),
        }
        // "every directory checksum equals the checksum of its table (head with adjustment zeroed)"
        let mut t = file[*offset..offset + padded].to_vec();
        if is_head && *length >= 12 {
            t[8..12].fill(0);
        }
        let (sum, wrapped) = spec_checksum(&t);
        total_wrapped |= wrapped;
        if sum != *checksum {
            return e(
                "record-checksum-wrong",
                format!("{tname} len {length}: directory {checksum:#010x}, computed {sum:#010x}"),
            );
        }
    }
    spans.sort();
    for w in spans.windows(2) {
        if w[0].1 > w[1].0 {
            return e("tables-overlap", format!("{:?} {:?}", w[0], w[1]));
        }
    }
    // tags that were not supplied must not be answered
    for t in TAGS.iter().chain([b"OTTO", b"\0\0\0\0", b"\xff\xff\xff\xff"].iter()) {
        if !model.contains_key(*t) && font.table_data(Tag::new(t)).is_some() {
            return e("phantom-table", format!("{}", Tag::new(t)));
        }
    }
    // ... nor the immediate neighbours (tag value +-1) of a supplied tag: a lookup that lands on an
    // adjacent record must not answer
    for t in model.keys() {
        let v = u32::from_be_bytes(*t);
        for nb in [v.wrapping_sub(1), v.wrapping_add(1)] {
            let nbb = nb.to_be_bytes();
            if !model.contains_key(&nbb) && font.table_data(Tag::new(&nbb)).is_some() {
                return e("phantom-table", format!("neighbour {:02x?} of {}", nbb, Tag::new(t)));
            }
        }
    }
    // --- "opens successfully" through the other documented routes: `FontRef::from_index(.., 0)`
    // ("if a single font file is provided, the index parameter must be 0") and `FileRef::new`
    // (a single font, one entry in `fonts()`); both must return the same tables. Index 1 must be refused.
    match guard(|| FontRef::from_index(file, 0)) {
        Ok(Ok(f0)) => {
            for t in model.keys() {
                let tg = Tag::new(t);
                if f0.table_data(tg).map(|d| d.as_bytes()) != font.table_data(tg).map(|d| d.as_bytes()) {
                    return e("from_index-0-differs-from-new", format!("{tg}"));
                }
            }
        }
        Ok(Err(err)) => return e("from_index-0-does-not-open", format!("{err}")),
        Err(p) => return e("open-panics", format!("FontRef::from_index panicked: {}", p.message)),
    }
    if let Ok(Ok(_)) = guard(|| FontRef::from_index(file, 1)) {
        return e("from_index-1-opens-a-single-font", String::new());
    }
    match guard(|| FileRef::new(file)) {
        Ok(Ok(FileRef::Font(_))) => {}
        Ok(Ok(FileRef::Collection(_))) => return e("FileRef-takes-built-font-for-a-collection", String::new()),
        Ok(Err(err)) => return e("FileRef-does-not-open", format!("{err}")),
        Err(p) => return e("open-panics", format!("FileRef::new panicked: {}", p.message)),
    }
    if let Ok(fr) = FileRef::new(file) {
        let fonts: Vec<_> = fr.fonts().collect();
        if fonts.len() != 1 || fonts[0].is_err() {
            return e("FileRef-fonts-not-exactly-one", format!("{} entries", fonts.len()));
        }
        if let Ok(f1) = &fonts[0] {
            for t in model.keys() {
                let tg = Tag::new(t);
                if f1.table_data(tg).map(|d| d.as_bytes()) != font.table_data(tg).map(|d| d.as_bytes()) {
                    return e("FileRef-font-differs-from-new", format!("{tg}"));
                }
            }
        }
    }
    // --- "with a head table of at least 12 bytes the checksum of the whole file is 0xB1B0AFBA"
    if model.get(b"head").map(|h| h.len() >= 12).unwrap_or(false) {
        if file.len() % 4 != 0 {
            return e("file-length-not-multiple-of-4", format!("{}", file.len()));
        }
        let (sum, wrapped) = spec_checksum(file);
        total_wrapped |= wrapped;
        if sum != 0xB1B0_AFBA {
            return e("whole-file-checksum-wrong", format!("{sum:#010x}"));
        }
    }
    // informational: gaps / trailing bytes (not demanded by the statement)
    let expect_len = dir_end + model.values().map(|v| (v.len() + 3) / 4 * 4).sum::<usize>();
    Ok(Checked {
        wrapped: total_wrapped,
        slack: expect_len != file.len(),
    })
}

// ---------------------------------------------------------------------------
// family (a): maps in every insertion order
// ---------------------------------------------------------------------------

#[derive(Clone)]
struct MapCase {
    tags: Vec<usize>,  // indices into TAGS, ascending
    lens: Vec<usize>,  // per tag
    fills: Vec<u8>,    // per tag
    order: Vec<usize>, // insertion order (permutation of 0..k)
}

impl MapCase {
    fn to_json(&self) -> Value {
        json!({"family":"map","tags":self.tags,"lens":self.lens,"fills":self.fills,"order":self.order})
    }
    fn from_json(v: &Value) -> MapCase {
        let arr = |k: &str| -> Vec<usize> {
            v[k].as_array()
                .map(|a| a.iter().map(|x| x.as_u64().unwrap_or(0) as usize).collect())
                .unwrap_or_default()
        };
        MapCase {
            tags: arr("tags"),
            lens: arr("lens"),
            fills: arr("fills").into_iter().map(|x| x as u8).collect(),
            order: arr("order"),
        }
    }
    fn describe(&self) -> String {
        let t: Vec<String> = self
            .tags
            .iter()
            .zip(&self.lens)
            .zip(&self.fills)
            .map(|((t, l), f)| {
                format!("{}:len%4={}{}:fill{}", Tag::new(TAGS[*t]), l % 4, if *l >= 12 { "(>=12)" } else { "" }, f)
            })
            .collect();
        t.join(",")
    }
}

fn build_map(c: &MapCase) -> (Vec<u8>, BTreeMap<[u8; 4], Vec<u8>>) {
    let blobs: Vec<Vec<u8>> = (0..c.tags.len())
        .map(|i| blob(c.tags[i], c.lens[i], c.fills[i]))
        .collect();
    let mut model = BTreeMap::new();
    let mut b = FontBuilder::new();
    for &i in &c.order {
        b.add_raw(Tag::new(TAGS[c.tags[i]]), blobs[i].clone());
        model.insert(*TAGS[c.tags[i]], blobs[i].clone());
    }
    (b.build(), model)
}

fn permutations(k: usize) -> Vec<Vec<usize>> {
    fn rec(cur: &mut Vec<usize>, used: &mut Vec<bool>, k: usize, out: &mut Vec<Vec<usize>>) {
        if cur.len() == k {
            out.push(cur.clone());
            return;
        }
        for i in 0..k {
            if !used[i] {
                used[i] = true;
                cur.push(i);
                rec(cur, used, k, out);
                cur.pop();
                used[i] = false;
            }
        }
    }
    let mut out = vec![];
    rec(&mut vec![], &mut vec![false; k], k, &mut out);
    out
}

fn subsets(n: usize, k: usize) -> Vec<Vec<usize>> {
    fn rec(start: usize, n: usize, k: usize, cur: &mut Vec<usize>, out: &mut Vec<Vec<usize>>) {
        if cur.len() == k {
            out.push(cur.clone());
            return;
        }
        for i in start..n {
            cur.push(i);
            rec(i + 1, n, k, cur, out);
            cur.pop();
        }
    }
    let mut out = vec![];
    rec(0, n, k, &mut vec![], &mut out);
    out
}

/// all vectors of length k over 0..base
fn tuples(base: usize, k: usize) -> Vec<Vec<usize>> {
    let mut out = vec![vec![]];
    for _ in 0..k {
        let mut next = vec![];
        for t in &out {
            for v in 0..base {
                let mut t2: Vec<usize> = t.clone();
                t2.push(v);
                next.push(t2);
            }
        }
        out = next;
    }
    out
}

struct Local {
    all: HashSet<u64>,
    nontrivial: HashSet<u64>,
    maps: u64,
    builds: u64,
    wrapped: u64,
    slack: u64,
    /// histories only: digest of the final model -> (digest of the built file, the
    /// lexicographically smallest op sequence seen with it); `route_conflicts` collects pairs of
    /// histories with the same final model but different files
    routes: HashMap<u64, (u64, Vec<u32>)>,
    route_conflicts: Vec<(Vec<u32>, Vec<u32>)>,
}
impl Local {
    fn new() -> Self {
        Local { all: HashSet::new(), nontrivial: HashSet::new(), maps: 0, builds: 0, wrapped: 0, slack: 0, routes: HashMap::new(), route_conflicts: vec![] }
    }
    fn note_route(&mut self, model: u64, file: u64, ops: &[u32]) {
        match self.routes.get_mut(&model) {
            None => {
                self.routes.insert(model, (file, ops.to_vec()));
            }
            Some((f, o)) => {
                if *f != file {
                    self.route_conflicts.push((o.clone(), ops.to_vec()));
                } else if (ops.len(), ops) < (o.len(), o.as_slice()) {
                    *o = ops.to_vec();
                }
            }
        }
    }
}

/// Run one map in all the given orders. Full check on the first order; the others must be
/// byte-identical to it (order independence).
fn run_map(run: &Run, base: &MapCase, orders: &[Vec<usize>], l: &mut Local) {
    let mut first: Option<Vec<u8>> = None;
    for ord in orders {
        let mut c = base.clone();
        c.order = ord.clone();
        let built = guard(|| build_map(&c));
        l.builds += 1;
        let (file, model) = match built {
            Ok(x) => x,
            Err(p) => {
                run.violation(
                    &format!("FontBuilder::build panic {} [{}]", p.kind(), p.site()),
                    &format!("{}: {}", c.describe(), p.message),
                    c.to_json(),
                );
                return;
            }
        };
        match &first {
            None => {
                match check_sfnt(&file, &model) {
                    Ok(ch) => {
                        l.maps += 1;
                        let mut h = Fnv::new();
                        for (i, t) in c.tags.iter().enumerate() {
                            h.u64(*t as u64);
                            h.u64((c.lens[i] % 4) as u64);
                        }
                        h.u64(ch.wrapped as u64);
                        l.all.insert(h.finish());
                        if !c.tags.is_empty() {
                            l.nontrivial.insert(h.finish());
                        }
                        l.wrapped += ch.wrapped as u64;
                        l.slack += ch.slack as u64;
                    }
                    Err((class, detail)) => {
                        let has_head12 = model.get(b"head").map(|h| h.len() >= 12).unwrap_or(false);
                        run.violation(
                            &format!("FontBuilder map: {class} (head>=12: {has_head12}, tables: {})", c.tags.len()),
                            &format!("{}: {}", c.describe(), detail),
                            c.to_json(),
                        );
                    }
                }
                first = Some(file);
            }
            Some(f0) => {
                if *f0 != file {
                    run.violation(
                        &format!("FontBuilder map: output depends on insertion order (tables: {})", c.tags.len()),
                        &format!("{} order {:?} differs from order {:?}", c.describe(), ord, orders[0]),
                        c.to_json(),
                    );
                }
            }
        }
    }
    // Input route: `add_raw` takes `impl Into<Cow<[u8]>>`. Everything above hands over owned `Vec`s;
    // for maps of <= 2 tables the same map is also built from borrowed slices (`Cow::Borrowed`, the
    // route on which `build` must copy `head` before zeroing its adjustment). Same blobs => same file.
    if base.tags.len() <= 2 {
        if let (Some(f0), Some(ord)) = (&first, orders.first()) {
            let blobs: Vec<Vec<u8>> = (0..base.tags.len()).map(|i| blob(base.tags[i], base.lens[i], base.fills[i])).collect();
            let keep = blobs.clone();
            l.builds += 1;
            let built = guard(|| {
                let mut b = FontBuilder::new();
                for &i in ord {
                    b.add_raw(Tag::new(TAGS[base.tags[i]]), &blobs[i][..]);
                }
                b.build()
            });
            let mut c = base.clone();
            c.order = ord.clone();
            match built {
                Ok(f) if f == *f0 && blobs == keep => {}
                Ok(_) => run.violation(
                    &format!("FontBuilder map: borrowed-slice input builds a different file than owned input (tables: {})", c.tags.len()),
                    &c.describe(),
                    c.to_json(),
                ),
                Err(p) => run.violation(
                    &format!("FontBuilder::build panic on borrowed input {} [{}]", p.kind(), p.site()),
                    &format!("{}: {}", c.describe(), p.message),
                    c.to_json(),
                ),
            }
        }
    }
}

/// Length sweep: EVERY table length 0..=max (not only the mod-4 representatives of the map
/// alphabets), plus lengths around 2^16 and 2^24, in four shapes:
///   zzzz(len) alone | head(16) + zzzz(len) | head(len) alone | aaaa(len) + zzzz(5)
/// x fills {FF, ramp}, each in every insertion order and through the borrowed route; in addition
/// `read_fonts::tables::compute_checksum` is compared directly with the harness's spec checksum on
/// every blob (the unpadded route: remainder handling) and on its zero-padded form.
fn length_sweep(run: &Run) {
    let max = run.tier.pick(2051usize, 16500);
    let mut lens: Vec<usize> = (0..=max).collect();
    lens.extend(65_530..=65_541usize);
    let huge: [usize; 3] = [(1 << 24) - 1, 1 << 24, (1 << 24) + 1];
    run.bound("length_sweep", json!(format!("every length 0..={max} and 65530..=65541 x fills {{FF, ramp}} x shapes {{zzzz(len) | head(16)+zzzz(len) | head(len) | aaaa(len)+zzzz(5)}}, all insertion orders + borrowed-slice route; lengths {huge:?} (ramp) as head(16)+zzzz(len); compute_checksum(blob) and compute_checksum(padded blob) against the harness's spec checksum for every (len, fill)")));
    let mut items: Vec<(usize, u8)> = vec![];
    for &len in &lens {
        for fill in [1u8, 2] {
            items.push((len, fill));
        }
    }
    for &len in &huge {
        items.push((len, 2));
    }
    let locals: Vec<Local> = items
        .par_iter()
        .fold(Local::new, |mut l, &(len, fill)| {
            let shapes: Vec<MapCase> = if len >= (1 << 20) {
                vec![MapCase { tags: vec![0, 6], lens: vec![16, len], fills: vec![2, fill], order: vec![] }]
            } else {
                vec![
                    MapCase { tags: vec![6], lens: vec![len], fills: vec![fill], order: vec![] },
                    MapCase { tags: vec![0, 6], lens: vec![16, len], fills: vec![2, fill], order: vec![] },
                    MapCase { tags: vec![0], lens: vec![len], fills: vec![fill], order: vec![] },
                    MapCase { tags: vec![5, 6], lens: vec![len, 5], fills: vec![fill, 2], order: vec![] },
                ]
            };
            for c in &shapes {
                run_map(run, c, &permutations(c.tags.len()), &mut l);
            }
            // direct differential on the public checksum function
            let b = blob(6, len, fill);
            let mut padded = b.clone();
            padded.resize((len + 3) / 4 * 4, 0);
            let want = spec_checksum(&b).0;
            for (what, data) in [("unpadded", &b), ("zero-padded", &padded)] {
                l.builds += 1;
                match guard(|| read_fonts::tables::compute_checksum(data)) {
                    Ok(got) if got == want => {}
                    Ok(got) => run.violation(
                        &format!("compute_checksum differs from the spec sum ({what} input, len%4={}, {})", len % 4, if len < 4 { "shorter than one word" } else { "at least one word" }),
                        &format!("len {len} fill {fill}: {got:#010x} vs {want:#010x}"),
                        json!({"family":"checksum_direct","len":len,"fill":fill}),
                    ),
                    Err(p) => run.violation(&format!("compute_checksum panic {} [{}]", p.kind(), p.site()), &p.message, json!({"family":"checksum_direct","len":len,"fill":fill})),
                }
            }
            l
        })
        .collect();
    let mut maps = 0;
    for l in &locals {
        run.observe_many(&l.all, &l.nontrivial);
        run.evals(l.builds);
        run.trans(l.builds * 2);
        maps += l.maps;
    }
    run.count("length_sweep_lengths", (lens.len() + huge.len()) as u64);
    run.count("length_sweep_maps", maps);
}

/// The replayable part of `length_sweep`'s direct checksum differential.
fn checksum_direct_case(run: &Run, len: usize, fill: u8) {
    let b = blob(6, len, fill);
    let mut padded = b.clone();
    padded.resize((len + 3) / 4 * 4, 0);
    let want = spec_checksum(&b).0;
    for (what, data) in [("unpadded", &b), ("zero-padded", &padded)] {
        run.eval();
        let got = read_fonts::tables::compute_checksum(data);
        if got != want {
            run.violation(
                &format!("compute_checksum differs from the spec sum ({what} input, len%4={}, {})", len % 4, if len < 4 { "shorter than one word" } else { "at least one word" }),
                &format!("len {len} fill {fill}: {got:#010x} vs {want:#010x}"),
                json!({"family":"checksum_direct","len":len,"fill":fill}),
            );
        }
    }
}

/// Special-tag family: maps over REC_POOL (every tag `ordered_tags` knows + 3 it does not).
/// (i) all sets of <= 3 tags (via `maps_family`); (ii) the full 24-tag set and every leave-one-out
/// subset (with and without `CFF `, `DSIG`, `head`, ...), per-tag length (7 i + 1) mod 6 + 8 [i = 0]
/// (head 15 bytes => adjustment engaged), ramp/FF alternating, in 3 insertion orders.
fn special_tag_sets(run: &Run) {
    let mut l = Local::new();
    let n = REC_POOL.len();
    let mut sets = 0u64;
    for leave in 0..=n {
        let idx: Vec<usize> = (0..n).filter(|i| *i != leave).collect();
        let k = idx.len();
        let base = MapCase {
            tags: idx.iter().map(|i| REC_POOL[*i]).collect(),
            lens: idx.iter().map(|i| (7 * i + 1) % 6 + if *i == 0 { 14 } else { 0 }).collect(),
            fills: idx.iter().map(|i| 1 + (*i % 2) as u8).collect(),
            order: vec![],
        };
        let orders: Vec<Vec<usize>> = vec![(0..k).collect(), (0..k).rev().collect(), (0..k).map(|i| (i * 5 + 3) % k).collect()];
        // (i * 5 + 3) mod k is a permutation only if gcd(5, k) = 1: k is 23 or 24 here
        run_map(run, &base, &orders, &mut l);
        sets += 1;
    }
    run.observe_many(&l.all, &l.nontrivial);
    run.evals(l.builds);
    run.trans(l.builds * 24);
    run.count("special_tag_big_sets", sets);
}

fn maps_family(run: &Run, pool: &[usize], k: usize, lens: &[usize], fills: &[u8], orders: &[Vec<usize>], name: &str) {
    let subs: Vec<Vec<usize>> = subsets(pool.len(), k).into_iter().map(|s| s.into_iter().map(|i| pool[i]).collect()).collect();
    let lvs = tuples(lens.len(), k);
    let fvs = tuples(fills.len(), k);
    // work items: (subset, length vector); inner loop over fill vectors and orders
    let items: Vec<(usize, usize)> = (0..subs.len())
        .flat_map(|s| (0..lvs.len()).map(move |l| (s, l)))
        .collect();
    let locals: Vec<Local> = items
        .par_iter()
        .fold(Local::new, |mut l, (s, lv)| {
            for fv in &fvs {
                let base = MapCase {
                    tags: subs[*s].clone(),
                    lens: lvs[*lv].iter().map(|i| lens[*i]).collect(),
                    fills: fv.iter().map(|i| fills[*i]).collect(),
                    order: vec![],
                };
                run_map(run, &base, orders, &mut l);
            }
            l
        })
        .collect();
    let mut maps = 0;
    for l in &locals {
        run.observe_many(&l.all, &l.nontrivial);
        run.evals(l.builds);
        run.trans(l.builds * (k as u64 + 1));
        maps += l.maps;
        run.count("maps_with_32bit_sum_wrap", l.wrapped);
        run.count("maps_with_gaps_or_trailing_bytes(info)", l.slack);
    }
    run.count(&format!("maps_{name}"), maps);
    run.count(&format!("builds_{name}"), locals.iter().map(|l| l.builds).sum());
}

// ---------------------------------------------------------------------------
// family (b): histories
// ---------------------------------------------------------------------------

const HTAGS: [&[u8; 4]; 4] = [b"head", b"aaaa", b"CFF ", b"\xE9xt "];
/// tags asked of `FontBuilder::contains` at the end of every history
const HIST_PROBES: [&[u8; 4]; 9] = [b"head", b"aaaa", b"CFF ", b"\xE9xt ", b"maxp", b"zzzz", b"DSIG", b"heae", b"\0\0\0\0"];

fn hist_blob(tag: usize, variant: usize) -> Vec<u8> {
    // variant 0: 13-byte ramp; variant 1: 16 bytes of FF (head >= 12 in both: adjustment engaged);
    // variant 2: the empty blob
    match variant {
        0 => blob(tag + 3, 13, 2),
        1 => blob(tag + 3, 16, 1),
        // a table supplied with length 0 is still a supplied table: copying must not replace it
        _ => vec![],
    }
}

/// Source fonts for copy_missing_tables.
/// S1, S2: harness-built, non-empty tables overlapping HTAGS plus new tags (S2 has a `head` and a
/// `CFF `); S3: the three HTAGS as EMPTY tables.
/// S4, S5: the two members of the repository's TTC.ttc test collection, opened with
/// `FontRef::from_index` (real tables incl. `head`; table offsets are relative to the collection file).
/// tables of the hand-assembled "external" font: tags sorted by their UNSIGNED bytes (the spec
/// order), including tags whose first byte is >= 0x80, an all-zero and an all-ones tag
fn external_tables() -> Vec<([u8; 4], Vec<u8>)> {
    let mut t: Vec<([u8; 4], Vec<u8>)> = vec![
        (*b"\0\0\0\0", vec![0xD0; 5]),
        (*b"a\x80bc", vec![0xD1; 6]),
        (*b"aaaa", vec![0xD2; 7]),
        (*b"zzzz", vec![0xD3; 8]),
        (*b"\x80abc", vec![0xD4; 9]),
        (*b"\xE9xt ", vec![0xD5; 10]),
        (*b"\xFF\xFF\xFF\xFF", vec![0xD6; 11]),
    ];
    t.sort_by(|a, b| u32::from_be_bytes(a.0).cmp(&u32::from_be_bytes(b.0)));
    t
}

/// Variants of the hand-assembled font (all valid inputs for `FontRef`):
///   0 version 0x00010000, tables in directory order, each padded
///   1 version 'OTTO'            2 version 'true'
///   3 tables stored in REVERSE directory order, the physically last one NOT padded (the file ends
///     exactly where a table of length 5 ends)
///   4 a 4-byte gap of FF before every table and 8 trailing FF bytes after the last
const EXTERNAL_VARIANTS: u32 = 5;

/// sfnt assembled by the harness itself from the spec (no FontBuilder): header, directory sorted by
/// unsigned tag value, per-table checksums, 4-byte aligned tables
fn external_sfnt_variant(variant: u32) -> Vec<u8> {
    let tables = external_tables();
    let n = tables.len();
    let mut out = vec![];
    let version: u32 = match variant {
        1 => 0x4F54_544F,
        2 => 0x7472_7565,
        _ => 0x0001_0000,
    };
    out.extend_from_slice(&version.to_be_bytes());
    out.extend_from_slice(&(n as u16).to_be_bytes());
    // searchRange / entrySelector / rangeShift for n = 7: 64, 2, 48
    let sel = (n as f64).log2().floor() as u16;
    let sr = 16 * (1u16 << sel);
    out.extend_from_slice(&sr.to_be_bytes());
    out.extend_from_slice(&sel.to_be_bytes());
    out.extend_from_slice(&((n as u16) * 16 - sr).to_be_bytes());
    // physical placement
    let phys: Vec<usize> = if variant == 3 { (0..n).rev().collect() } else { (0..n).collect() };
    let gap = if variant == 4 { 4 } else { 0 };
    let mut offsets = vec![0usize; n];
    let mut body: Vec<u8> = vec![];
    let base = 12 + 16 * n;
    for (k, &i) in phys.iter().enumerate() {
        body.extend(std::iter::repeat(0xFFu8).take(gap));
        offsets[i] = base + body.len();
        body.extend_from_slice(&tables[i].1);
        let last = k + 1 == n;
        if !(variant == 3 && last) {
            body.resize((body.len() + 3) / 4 * 4, 0);
        }
    }
    if variant == 4 {
        body.extend_from_slice(&[0xFF; 8]);
    }
    for (i, (tag, data)) in tables.iter().enumerate() {
        out.extend_from_slice(tag);
        out.extend_from_slice(&spec_checksum(data).0.to_be_bytes());
        out.extend_from_slice(&(offsets[i] as u32).to_be_bytes());
        out.extend_from_slice(&(data.len() as u32).to_be_bytes());
    }
    out.extend_from_slice(&body);
    out
}

fn external_sfnt() -> Vec<u8> {
    external_sfnt_variant(0)
}

const EXTERNAL_NAMES: [&str; 5] = ["version 0x00010000, directory order, padded", "version OTTO", "version true", "reverse physical order, last table unpadded at end of file", "gaps before tables and trailing bytes"];

/// "External font" sub-check: each hand-assembled font must open and answer `table_data` for every
/// one of its tags with the right bytes (and nothing for absent tags), and `copy_missing_tables`
/// from it into a fresh builder / a builder holding its own `zzzz` must give a well-formed font with
/// exactly those tables. Variant 0 is also copy source S6 of the history family.
fn external_font_check(run: &Run, variant: u32) {
    let bytes = external_sfnt_variant(variant);
    let tables = external_tables();
    let vname = EXTERNAL_NAMES[variant as usize % 5];
    let case = json!({"family":"external","variant":variant});
    run.eval();
    run.count("external_font_checks", 1);
    let font = match guard(|| FontRef::new(&bytes)) {
        Ok(Ok(f)) => f,
        Ok(Err(e)) => {
            run.violation(&format!("FontRef::new: hand-assembled sfnt does not open ({vname})"), &format!("{e}"), case);
            return;
        }
        Err(p) => {
            run.violation(&format!("FontRef::new: panic {} [{}]", p.kind(), p.site()), &p.message, case);
            return;
        }
    };
    for (tag, data) in &tables {
        let got = font.table_data(Tag::new(tag)).map(|d| d.as_bytes().to_vec());
        if got.as_deref() != Some(data.as_slice()) {
            let class = if tag[0] >= 0x80 { "first byte >= 0x80" } else if tag.iter().any(|b| !(0x20..0x7F).contains(b)) { "non-ASCII byte" } else { "ASCII" };
            run.violation(
                &format!("FontRef::table_data: a table of a spec-sorted (unsigned tag order) sfnt is not found or differs (tag class: {class}; {vname})"),
                &format!("tag {:02x?}: got {:?}, directory has {} bytes", tag, got.map(|g| g.len()), data.len()),
                case.clone(),
            );
        }
    }
    for t in TAGS {
        if !tables.iter().any(|x| x.0 == *t) && font.table_data(Tag::new(t)).is_some() {
            run.violation("FontRef::table_data: answers for a tag that the external sfnt does not contain", &format!("{t:02x?}"), case.clone());
        }
    }
    // as a copy source
    for own in [false, true] {
        let mut want: BTreeMap<[u8; 4], Vec<u8>> = tables.iter().cloned().collect();
        if own {
            want.insert(*b"zzzz", vec![0xEE; 3]);
        }
        run.eval();
        let copied = guard(|| {
            let mut b = FontBuilder::new();
            if own {
                b.add_raw(Tag::new(b"zzzz"), vec![0xEEu8; 3]);
            }
            b.copy_missing_tables(font.clone());
            b.build()
        });
        match copied {
            Ok(f2) => {
                if let Err((class, detail)) = check_sfnt(&f2, &want) {
                    run.violation(&format!("copy_missing_tables from a hand-assembled sfnt: {class} ({vname})"), &format!("own zzzz: {own}: {detail}"), case.clone());
                }
            }
            Err(p) => run.violation(&format!("copy_missing_tables from a hand-assembled sfnt: panic {} [{}]", p.kind(), p.site()), &p.message, case.clone()),
        }
    }
    let mut h = Fnv::new();
    h.str("external");
    h.u64(variant as u64);
    run.observe(h.finish(), true);
}

// ---------------------------------------------------------------------------
// hand-assembled collections (TTC header versions 1.0 and 2.0)
// ---------------------------------------------------------------------------

/// member m of a synthetic collection holds external table j iff (j + m) % 3 != 0 (m = 0 holds
/// tables 1,2,4,5; shared table data, as in real collections); member sfnt version alternates
/// 0x00010000 / OTTO
fn ttc_member_model(m: usize) -> Vec<([u8; 4], Vec<u8>)> {
    external_tables().into_iter().enumerate().filter(|(j, _)| (j + m) % 3 != 0).map(|(_, t)| t).collect()
}

/// TTC from the spec: 'ttcf', version, numFonts, offsets[numFonts], (version 2.0: dsigTag,
/// dsigLength, dsigOffset = 0), member directories, then the shared table data.
fn synth_ttc(major: u16, members: usize) -> Vec<u8> {
    let tables = external_tables();
    let mut out = vec![];
    out.extend_from_slice(b"ttcf");
    out.extend_from_slice(&major.to_be_bytes());
    out.extend_from_slice(&0u16.to_be_bytes());
    out.extend_from_slice(&(members as u32).to_be_bytes());
    let header_len = 12 + 4 * members + if major >= 2 { 12 } else { 0 };
    let models: Vec<Vec<([u8; 4], Vec<u8>)>> = (0..members).map(ttc_member_model).collect();
    let mut dir_off = header_len;
    let mut dir_offs = vec![];
    for m in &models {
        dir_offs.push(dir_off);
        dir_off += 12 + 16 * m.len();
    }
    for d in &dir_offs {
        out.extend_from_slice(&(*d as u32).to_be_bytes());
    }
    if major >= 2 {
        out.extend_from_slice(&[0u8; 12]);
    }
    // table data placement (shared)
    let mut data_off = vec![];
    let mut at = dir_off;
    for (_, d) in &tables {
        data_off.push(at);
        at += (d.len() + 3) / 4 * 4;
    }
    for (mi, m) in models.iter().enumerate() {
        let n = m.len();
        out.extend_from_slice(&(if mi % 2 == 0 { 0x0001_0000u32 } else { 0x4F54_544F }).to_be_bytes());
        out.extend_from_slice(&(n as u16).to_be_bytes());
        let sel = (usize::BITS - 1 - n.leading_zeros()) as u16;
        out.extend_from_slice(&(16u16 << sel).to_be_bytes());
        out.extend_from_slice(&sel.to_be_bytes());
        out.extend_from_slice(&((16 * n as u16) - (16u16 << sel)).to_be_bytes());
        for (tag, d) in m {
            let j = tables.iter().position(|t| t.0 == *tag).unwrap();
            out.extend_from_slice(tag);
            out.extend_from_slice(&spec_checksum(d).0.to_be_bytes());
            out.extend_from_slice(&(data_off[j] as u32).to_be_bytes());
            out.extend_from_slice(&(d.len() as u32).to_be_bytes());
        }
    }
    for (_, d) in &tables {
        out.extend_from_slice(d);
        out.resize((out.len() + 3) / 4 * 4, 0);
    }
    out
}

/// One collection (header version `major`.0, `members` fonts): `FileRef::new` sees a collection of
/// that many fonts; `FontRef::from_index(i)` opens member i and returns exactly its tables; index
/// == members is refused; `FontRef::new` refuses the collection; each member works as a
/// `copy_missing_tables` source. `path` = Some(..) checks a collection file from the repository's
/// test data instead (members/tables from the harness's own parse).
fn ttc_case(run: &Run, major: u16, members: usize, repo_file: bool) {
    let case = json!({"family":"ttc","major":major,"members":members,"repo_file":repo_file});
    let (bytes, models): (Vec<u8>, Vec<Vec<([u8; 4], Vec<u8>)>>) = if repo_file {
        let ttc = std::fs::read(repo_root().join("font-test-data/test_data/ttc/TTC.ttc")).unwrap_or_default();
        let n = be32(&ttc, 8).unwrap_or(0) as usize;
        let m: Vec<_> = (0..n).filter_map(|i| ttc_member_tables(&ttc, i)).collect();
        if n == 0 || m.len() != n {
            run.machinery_error("TTC.ttc not found or not parseable by the harness");
            return;
        }
        (ttc, m)
    } else {
        (synth_ttc(major, members), (0..members).map(ttc_member_model).collect())
    };
    let members = models.len();
    let kind = if repo_file { "repository TTC.ttc".to_string() } else { format!("hand-assembled, header version {major}.0") };
    let viol = |class: &str, detail: String| run.violation(&format!("collection ({kind}): {class}"), &detail, case.clone());
    run.eval();
    match guard(|| FileRef::new(&bytes)) {
        Ok(Ok(FileRef::Collection(c))) => {
            if c.len() as usize != members || c.is_empty() != (members == 0) {
                viol("CollectionRef::len differs from numFonts", format!("{} vs {members}", c.len()));
            }
            let got: Vec<bool> = c.iter().map(|f| f.is_ok()).collect();
            if got != vec![true; members] {
                viol("CollectionRef::iter does not yield every member", format!("{got:?}"));
            }
            if c.get(members as u32).is_ok() {
                viol("CollectionRef::get accepts index == numFonts", String::new());
            }
        }
        Ok(Ok(FileRef::Font(_))) => viol("FileRef::new takes a collection for a single font", String::new()),
        Ok(Err(e)) => viol("FileRef::new does not open", format!("{e}")),
        Err(p) => viol(&format!("FileRef::new panic {} [{}]", p.kind(), p.site()), p.message.clone()),
    }
    if let Ok(fr) = FileRef::new(&bytes) {
        let n = fr.fonts().filter(|f| f.is_ok()).count();
        if n != members {
            viol("FileRef::fonts does not yield every member", format!("{n} of {members}"));
        }
    }
    if FontRef::new(&bytes).is_ok() {
        viol("FontRef::new opens a collection as a single font", String::new());
    }
    if FontRef::from_index(&bytes, members as u32).is_ok() {
        viol("FontRef::from_index accepts index == numFonts", String::new());
    }
    for (i, model) in models.iter().enumerate() {
        run.eval();
        let font = match guard(|| FontRef::from_index(&bytes, i as u32)) {
            Ok(Ok(f)) => f,
            Ok(Err(e)) => {
                viol("member does not open", format!("member {i}: {e}"));
                continue;
            }
            Err(p) => {
                viol(&format!("from_index panic {} [{}]", p.kind(), p.site()), p.message.clone());
                continue;
            }
        };
        let listed: Vec<[u8; 4]> = font.table_directory.table_records().iter().map(|r| r.tag().to_be_bytes()).collect();
        let wanted: Vec<[u8; 4]> = model.iter().map(|t| t.0).collect();
        if listed != wanted {
            viol("member lists other tags than its directory holds", format!("member {i}: {} vs {}", listed.len(), wanted.len()));
        }
        for (tag, data) in model {
            let got = font.table_data(Tag::new(tag)).map(|d| d.as_bytes().to_vec());
            if got.as_deref() != Some(data.as_slice()) {
                viol("member table not found or differs", format!("member {i} tag {:02x?}: got {:?} want {} bytes", tag, got.map(|g| g.len()), data.len()));
            }
        }
        for (tag, _) in external_tables() {
            if !model.iter().any(|t| t.0 == tag) && font.table_data(Tag::new(&tag)).is_some() {
                viol("member answers for a table of another member", format!("member {i} tag {tag:02x?}"));
            }
        }
        // copy source: fresh builder, and builder holding its own (empty) version of the member's first table
        for own in [false, true] {
            let mut want: BTreeMap<[u8; 4], Vec<u8>> = model.iter().cloned().collect();
            let first = model.first().map(|t| t.0);
            if let (true, Some(t)) = (own, first) {
                want.insert(t, vec![]);
            }
            run.eval();
            let copied = guard(|| {
                let mut b = FontBuilder::new();
                if let (true, Some(t)) = (own, first) {
                    b.add_raw(Tag::new(&t), Vec::<u8>::new());
                }
                b.copy_missing_tables(font.clone());
                b.build()
            });
            match copied {
                Ok(f2) => {
                    if let Err((class, detail)) = check_sfnt(&f2, &want) {
                        viol(&format!("copy_missing_tables from a member: {class}"), format!("member {i} own: {own}: {detail}"));
                    }
                }
                Err(p) => viol(&format!("copy_missing_tables from a member: panic {} [{}]", p.kind(), p.site()), p.message.clone()),
            }
        }
    }
    let mut h = Fnv::new();
    h.str("ttc");
    h.u64(major as u64);
    h.u64(members as u64);
    h.u64(repo_file as u64);
    run.observe(h.finish(), true);
    run.count("collection_checks", 1);
}

// ---------------------------------------------------------------------------
// offset-width family: table offsets on both sides of 2^16 and 2^24
// ---------------------------------------------------------------------------

/// One font: filler table `aaaa` sized so that the next table `bbbb` starts at 2^k + d (and `cccc`
/// 16 bytes later), all three with distinct content. Checked: the from-spec checker on the built
/// bytes (which also compares `FontRef::table_data` for every tag with the bytes at the offset the
/// harness parsed itself), and `copy_missing_tables` from that font into a fresh builder and into a
/// builder that already holds `bbbb`.
fn offset_width_case(run: &Run, k: u32, d: i64, l: &mut Local) {
    let case = json!({"family":"offset_width","k":k,"d":d});
    // physical order is alphabetical for these tags; directory = 12 + 3*16 bytes
    let filler_len = ((1i64 << k) + d - 60) as usize;
    let tables: Vec<([u8; 4], Vec<u8>)> = vec![
        (*b"aaaa", (0..filler_len).map(|i| (i % 251) as u8).collect()),
        (*b"bbbb", (0..13u8).map(|i| 0xB0 ^ i).collect()),
        (*b"cccc", vec![0xC1, 0xC2, 0xC3, 0xC4, 0xC5, 0xC6, 0xC7]),
    ];
    let model: BTreeMap<[u8; 4], Vec<u8>> = tables.iter().cloned().collect();
    let ident = |what: &str, class: &str| format!("FontBuilder offset-width: {what}: {class} (table offsets around 2^{k})");
    l.builds += 1;
    let file = match guard(|| {
        let mut b = FontBuilder::new();
        for (t, data) in &tables {
            b.add_raw(Tag::new(t), data.clone());
        }
        b.build()
    }) {
        Ok(f) => f,
        Err(p) => {
            run.violation(&ident("build", &format!("panic {} [{}]", p.kind(), p.site())), &p.message, case);
            return;
        }
    };
    // the family is only meaningful if `bbbb` really sits at 2^k + d
    let bbbb_off = be32(&file, 12 + 16 + 8).unwrap_or(0) as i64;
    if bbbb_off != (1i64 << k) + d {
        run.machinery_error(&format!("offset-width family: bbbb at {bbbb_off}, wanted 2^{k}{d:+}"));
        return;
    }
    if let Err((class, detail)) = check_sfnt(&file, &model) {
        run.violation(&ident("built font", &class), &format!("d={d}: {detail}"), case);
        return;
    }
    // copy into a fresh builder, and into one that already has its own bbbb (must be kept)
    for own_bbbb in [false, true] {
        let mut want = model.clone();
        if own_bbbb {
            want.insert(*b"bbbb", vec![0xEE; 5]);
        }
        l.builds += 1;
        let copied = guard(|| {
            let mut b = FontBuilder::new();
            if own_bbbb {
                b.add_raw(Tag::new(b"bbbb"), vec![0xEEu8; 5]);
            }
            let src = FontRef::new(&file).expect("built font opens");
            b.copy_missing_tables(src);
            b.build()
        });
        match copied {
            Ok(f2) => {
                if let Err((class, detail)) = check_sfnt(&f2, &want) {
                    run.violation(&ident("copy_missing_tables from it", &class), &format!("d={d} own_bbbb={own_bbbb}: {detail}"), case.clone());
                    return;
                }
            }
            Err(p) => {
                run.violation(&ident("copy_missing_tables from it", &format!("panic {} [{}]", p.kind(), p.site())), &p.message, case.clone());
                return;
            }
        }
    }
    let mut h = Fnv::new();
    h.str("offset_width");
    h.u64(k as u64);
    h.i64(d.signum());
    l.all.insert(h.finish());
    l.nontrivial.insert(h.finish());
}

fn offset_width_family(run: &Run) {
    let mut cases: Vec<(u32, i64)> = vec![];
    for d in [-16i64, -4, 0, 4] {
        cases.push((16, d));
        cases.push((24, d));
    }
    if run.tier == Tier::Thorough {
        for d in (-64i64..=64).step_by(4) {
            for k in [16u32, 24] {
                if !cases.contains(&(k, d)) {
                    cases.push((k, d));
                }
            }
        }
    }
    run.bound("offset_width", json!("3-table fonts whose second table starts at 2^k + d, k in {16, 24}, d in {-16,-4,0,4} (thorough: -64..=64 step 4): built font checked from spec + through FontRef::table_data, then used as a copy_missing_tables source (fresh builder / builder with its own bbbb)"));
    let locals: Vec<Local> = cases
        .par_iter()
        .map(|(k, d)| {
            let mut l = Local::new();
            offset_width_case(run, *k, *d, &mut l);
            l
        })
        .collect();
    for l in &locals {
        run.observe_many(&l.all, &l.nontrivial);
        run.evals(l.builds);
    }
    run.count("offset_width_fonts", cases.len() as u64);
}

/// Many tables: n distinct 4-hex-digit tags with one byte each. 4095 is the largest count whose
/// searchRange fits the 16-bit field; 4096 is the first that does not.
fn many_tables_case(run: &Run, n: usize, l: &mut Local) {
    let case = json!({"family":"many_tables","n":n});
    // n - 1 generated tags "0000".."fffe" plus a 16-byte `head` (so that the whole-file checksum clause
    // applies); with 65535 tables (the largest numTables) all tags are generated
    let with_head = n < 65535;
    let mut tables: Vec<([u8; 4], Vec<u8>)> = (0..n - with_head as usize).map(|i| (format!("{i:04x}").into_bytes().try_into().unwrap(), vec![(i % 251) as u8])).collect();
    if with_head {
        tables.push((*b"head", (0..16u8).map(|i| 0x80 | i).collect()));
    }
    let model: BTreeMap<[u8; 4], Vec<u8>> = tables.iter().cloned().collect();
    l.builds += 1;
    let file = match guard(|| {
        let mut b = FontBuilder::new();
        for (t, data) in &tables {
            b.add_raw(Tag::new(t), data.clone());
        }
        b.build()
    }) {
        Ok(f) => f,
        Err(p) => {
            run.violation(
                &format!("FontBuilder::build panic with many tables: {} [{}] ({} tables)", p.kind(), p.site(), if n >= 4096 { ">= 4096" } else { "< 4096" }),
                &format!("{n} one-byte tables: {} at {}:{}", p.message, p.file, p.line),
                case,
            );
            return;
        }
    };
    if let Err((class, detail)) = check_sfnt(&file, &model) {
        run.violation(&format!("FontBuilder many tables: {class} ({} tables)", if n >= 4096 { ">= 4096" } else { "< 4096" }), &format!("{n} tables: {detail}"), case);
        return;
    }
    let mut h = Fnv::new();
    h.str("many");
    h.u64(n as u64);
    l.all.insert(h.finish());
    l.nontrivial.insert(h.finish());
}

struct Sources {
    /// (file bytes, index within the file)
    files: Vec<(Vec<u8>, u32)>,
    /// what each source contains, established without read-fonts (harness knowledge for S1/S2, an own
    /// parse of the TTC header and member directory for S3/S4)
    models: Vec<Vec<([u8; 4], Vec<u8>)>>,
}

fn ttc_member_tables(file: &[u8], index: usize) -> Option<Vec<([u8; 4], Vec<u8>)>> {
    if file.get(0..4)? != b"ttcf" {
        return None;
    }
    let n = be32(file, 8)? as usize;
    if index >= n {
        return None;
    }
    let dir = be32(file, 12 + 4 * index)? as usize;
    let count = be16(file, dir + 4)? as usize;
    let mut out = vec![];
    for i in 0..count {
        let at = dir + 12 + 16 * i;
        let tag: [u8; 4] = file.get(at..at + 4)?.try_into().ok()?;
        let off = be32(file, at + 8)? as usize;
        let len = be32(file, at + 12)? as usize;
        out.push((tag, file.get(off..off + len)?.to_vec()));
    }
    Some(out)
}

fn sources() -> Sources {
    let mut a = FontBuilder::new();
    a.add_raw(Tag::new(b"aaaa"), vec![0xA1u8; 7]);
    a.add_raw(Tag::new(b"zzzz"), vec![0xA2u8; 5]);
    let mut b = FontBuilder::new();
    b.add_raw(Tag::new(b"head"), vec![0xB1u8; 14]);
    b.add_raw(Tag::new(b"DSIG"), vec![0xB2u8; 4]);
    b.add_raw(Tag::new(b"CFF "), vec![0xB3u8; 9]);
    // S3: the three history tags present but EMPTY (so that copy(S3) then copy(S1/S2/TTC) must keep
    // the empty tables, and add_raw(tag, empty) then copy(non-empty source) likewise)
    let mut e = FontBuilder::new();
    for t in HTAGS {
        e.add_raw(Tag::new(t), Vec::<u8>::new());
    }
    let mut files = vec![(a.build(), 0), (b.build(), 0), (e.build(), 0)];
    let mut models = vec![
        vec![(*b"aaaa", vec![0xA1u8; 7]), (*b"zzzz", vec![0xA2u8; 5])],
        // the source font's own head got its adjustment field rewritten when *it* was built:
        // bytes 8..12 are excepted by the statement, and check_sfnt skips them for `head`.
        vec![(*b"head", vec![0xB1u8; 14]), (*b"DSIG", vec![0xB2u8; 4]), (*b"CFF ", vec![0xB3u8; 9])],
        HTAGS.iter().map(|t| (**t, vec![])).collect(),
    ];
    let ttc = std::fs::read(repo_root().join("font-test-data/test_data/ttc/TTC.ttc")).unwrap_or_default();
    for i in 0..2 {
        if let Some(m) = ttc_member_tables(&ttc, i) {
            files.push((ttc.clone(), i as u32));
            models.push(m);
        }
    }
    // S6: the hand-assembled external font (high-byte tags), a valid copy source
    files.push((external_sfnt(), 0));
    models.push(external_tables());
    Sources { files, models }
}

/// add_raw ops: 4 tags (one with a first byte >= 0x80) x {blob A, blob B, EMPTY blob}
const N_ADD: u32 = 12;
const N_SRC: u32 = 6;
/// ops after the copies: add_table(&Head) [typed route, tag from `TopLevelTable::TAG`],
/// add_table(&Maxp), add_raw(maxp, borrowed static slice)
const N_EXTRA: u32 = 3;
const OP_ADD_TABLE_HEAD: u32 = N_ADD + N_SRC;
const OP_ADD_TABLE_MAXP: u32 = N_ADD + N_SRC + 1;
const OP_ADD_RAW_BORROWED_MAXP: u32 = N_ADD + N_SRC + 2;
static BORROWED_MAXP: [u8; 7] = [0x3A, 0x3B, 0x3C, 0x3D, 0x3E, 0x3F, 0x40];

fn typed_head() -> write_fonts::tables::head::Head {
    let mut h = write_fonts::tables::head::Head::default();
    h.checksum_adjustment = 0xDEAD_BEEF; // supplied adjustment bytes are non-zero: build must zero them for the checksum
    h.flags = 0x0003;
    h.units_per_em = 1000;
    h.lowest_rec_ppem = 9;
    h
}
/// what `typed_head()` is on the wire, assembled here from the `head` chapter of the spec
fn typed_head_bytes() -> Vec<u8> {
    let mut b = vec![];
    b.extend_from_slice(&[0, 1, 0, 0]); // majorVersion 1, minorVersion 0
    b.extend_from_slice(&[0; 4]); // fontRevision
    b.extend_from_slice(&0xDEAD_BEEFu32.to_be_bytes()); // checksumAdjustment
    b.extend_from_slice(&0x5F0F_3CF5u32.to_be_bytes()); // magicNumber
    b.extend_from_slice(&3u16.to_be_bytes()); // flags
    b.extend_from_slice(&1000u16.to_be_bytes()); // unitsPerEm
    b.extend_from_slice(&[0; 16]); // created, modified
    b.extend_from_slice(&[0; 8]); // xMin yMin xMax yMax
    b.extend_from_slice(&[0; 2]); // macStyle
    b.extend_from_slice(&9u16.to_be_bytes()); // lowestRecPPEM
    b.extend_from_slice(&2u16.to_be_bytes()); // fontDirectionHint
    b.extend_from_slice(&[0; 4]); // indexToLocFormat, glyphDataFormat
    b
}
/// `Maxp::new(7)` is a version 0.5 maxp: 0x00005000, numGlyphs
const TYPED_MAXP_BYTES: [u8; 6] = [0, 0, 0x50, 0, 0, 7];

fn op_name(op: u32) -> String {
    if op < N_ADD {
        format!("add_raw({},{})", Tag::new(HTAGS[(op / 3) as usize]), ["A", "B", "empty"][(op % 3) as usize])
    } else if op < N_ADD + N_SRC {
        let i = op - N_ADD;
        format!("copy_missing(S{}{})", i + 1, ["", "", ":empty tables", ":TTC member", ":TTC member", ":hand-assembled, high-byte tags"].get(i as usize).copied().unwrap_or(""))
    } else {
        ["add_table(&Head)", "add_table(&Maxp)", "add_raw(maxp, &'static [u8;7])"].get((op - N_ADD - N_SRC) as usize).copied().unwrap_or("?").to_string()
    }
}

fn op_kind(op: u32) -> &'static str {
    if op >= N_ADD + N_SRC {
        ["add_table", "add_table", "add-borrowed"][((op - N_ADD - N_SRC) as usize).min(2)]
    } else if op >= N_ADD {
        "copy"
    } else if op % 3 == 2 {
        "add-empty"
    } else {
        "add"
    }
}

fn run_history(run: &Run, ops: &[u32], srcs: &Sources, l: &mut Local) {
    let mut model: BTreeMap<[u8; 4], Vec<u8>> = BTreeMap::new();
    let case = json!({"family":"history","ops":ops});
    let names: Vec<String> = ops.iter().map(|o| op_name(*o)).collect();
    let built = guard(|| {
        let mut b = FontBuilder::new();
        for &op in ops {
            if op < N_ADD {
                b.add_raw(Tag::new(HTAGS[(op / 3) as usize]), hist_blob((op / 3) as usize, (op % 3) as usize));
            } else if op == OP_ADD_TABLE_HEAD {
                b.add_table(&typed_head()).expect("Head compiles");
            } else if op == OP_ADD_TABLE_MAXP {
                b.add_table(&write_fonts::tables::maxp::Maxp::new(7)).expect("Maxp compiles");
            } else if op == OP_ADD_RAW_BORROWED_MAXP {
                b.add_raw(Tag::new(b"maxp"), &BORROWED_MAXP[..]);
            } else {
                let (bytes, index) = &srcs.files[(op - N_ADD) as usize];
                let f = FontRef::from_index(bytes, *index).expect("source font opens");
                b.copy_missing_tables(f);
            }
        }
        // `contains` must agree with the model at the end of the history (checked below)
        let has: Vec<bool> = HIST_PROBES.iter().map(|t| b.contains(Tag::new(t))).collect();
        let mut listed: Vec<[u8; 4]> = b.ordered_tags().iter().map(|t| t.to_be_bytes()).collect();
        listed.sort();
        (b.build(), has, listed)
    });
    for &op in ops {
        if op < N_ADD {
            // last add_raw wins (an empty blob is a supplied table like any other)
            model.insert(*HTAGS[(op / 3) as usize], hist_blob((op / 3) as usize, (op % 3) as usize));
        } else if op == OP_ADD_TABLE_HEAD {
            // a typed table is "a tagged byte blob" too: its compiled bytes under its own tag, last add wins
            model.insert(*b"head", typed_head_bytes());
        } else if op == OP_ADD_TABLE_MAXP {
            model.insert(*b"maxp", TYPED_MAXP_BYTES.to_vec());
        } else if op == OP_ADD_RAW_BORROWED_MAXP {
            model.insert(*b"maxp", BORROWED_MAXP.to_vec());
        } else {
            // copying never overrides
            for (t, bytes) in &srcs.models[(op - N_ADD) as usize] {
                model.entry(*t).or_insert_with(|| bytes.clone());
            }
        }
    }
    l.builds += 1;
    let kinds: Vec<&str> = ops.iter().map(|o| op_kind(*o)).collect();
    let (file, has, listed) = match built {
        Ok(f) => f,
        Err(p) => {
            run.violation(
                &format!("FontBuilder history panic {} [{}]", p.kind(), p.site()),
                &format!("{:?}: {}", names, p.message),
                case,
            );
            return;
        }
    };
    // `FontBuilder::contains` / `ordered_tags` just before build: exactly the model's tags
    let want_has: Vec<bool> = HIST_PROBES.iter().map(|t| model.contains_key(*t)).collect();
    if has != want_has {
        // identity: the direction of the first disagreement and whether the table concerned is empty
        let i = (0..has.len()).find(|i| has[*i] != want_has[*i]).unwrap_or(0);
        let class = if want_has[i] {
            if model.get(HIST_PROBES[i]).map(|v| v.is_empty()).unwrap_or(false) { "says absent for a supplied EMPTY table" } else { "says absent for a supplied non-empty table" }
        } else {
            "says present for a tag never supplied"
        };
        run.violation(
            &format!("FontBuilder::contains disagrees with the tables supplied: {class}"),
            &format!("{:?}: probes {:?}: got {:?} want {:?}", names, HIST_PROBES.iter().map(|t| Tag::new(t).to_string()).collect::<Vec<_>>(), has, want_has),
            case.clone(),
        );
    }
    if listed != model.keys().copied().collect::<Vec<_>>() {
        run.violation(
            &format!("FontBuilder::ordered_tags is not a permutation of the tables supplied ({})", if listed.len() < model.len() { "too few" } else if listed.len() > model.len() { "too many" } else { "other tags" }),
            &format!("{:?}: {} tags listed, {} supplied", names, listed.len(), model.len()),
            case.clone(),
        );
    }
    match check_sfnt(&file, &model) {
        Ok(ch) => {
            let mut h = Fnv::new();
            h.str("hist");
            for (t, v) in &model {
                h.bytes(t);
                h.u64(v.len() as u64);
                h.bytes(v);
            }
            // the same final table set must give the same file whatever the route (the file is a
            // function of the tag -> bytes map; `head` bytes 8..12 are overwritten by build)
            let mut hm = Fnv::new();
            for (t, v) in &model {
                hm.bytes(t);
                hm.u64(v.len() as u64);
                if t == b"head" && v.len() >= 12 {
                    hm.bytes(&v[..8]);
                    hm.bytes(&v[12..]);
                } else {
                    hm.bytes(v);
                }
            }
            let mut hf = Fnv::new();
            hf.bytes(&file);
            l.note_route(hm.finish(), hf.finish(), ops);
            h.u64(ch.wrapped as u64);
            l.all.insert(h.finish());
            // non-trivial: a copy happened after at least one add, or a tag was added twice
            let has_copy = ops.iter().any(|o| *o >= N_ADD);
            let has_add = ops.iter().any(|o| *o < N_ADD);
            if has_copy && has_add {
                l.nontrivial.insert(h.finish());
            }
        }
        Err((class, detail)) => {
            // identity: failing clause + the shape of the history (op kinds only)
            run.violation(
                &format!("FontBuilder history: {class} after [{}]", kinds.join(",")),
                &format!("{:?}: {}", names, detail),
                case,
            );
        }
    }
}

fn histories(run: &Run, depth: usize) {
    let srcs = sources();
    let n_ops = N_ADD + N_SRC + N_EXTRA;
    run.count("copy_sources", srcs.files.len() as u64);
    if srcs.files.len() != N_SRC as usize {
        run.machinery_error("TTC.ttc test collection not found or not parseable: TTC-member sources missing");
        return;
    }
    // gate of the typed-route model: the harness's from-spec bytes are what the typed tables compile to
    if write_fonts::dump_table(&typed_head()).ok() != Some(typed_head_bytes()) || write_fonts::dump_table(&write_fonts::tables::maxp::Maxp::new(7)).ok() != Some(TYPED_MAXP_BYTES.to_vec()) {
        run.machinery_error("typed Head/Maxp do not compile to the bytes the harness assembled from the spec (model of add_table ops unusable)");
        return;
    }
    // all op sequences of length 0..=depth, in fixed (length, lexicographic) order
    let mut seqs: Vec<Vec<u32>> = vec![vec![]];
    let mut layer: Vec<Vec<u32>> = vec![vec![]];
    for _ in 0..depth {
        let mut next = vec![];
        for s in &layer {
            for op in 0..n_ops {
                let mut s2 = s.clone();
                s2.push(op);
                next.push(s2);
            }
        }
        seqs.extend(next.iter().cloned());
        layer = next;
    }
    let locals: Vec<Local> = seqs
        .par_iter()
        .fold(Local::new, |mut l, s| {
            run_history(run, s, &srcs, &mut l);
            l
        })
        .collect();
    let mut merged = Local::new();
    for l in &locals {
        run.observe_many(&l.all, &l.nontrivial);
        run.evals(l.builds);
        for (m, (f, o)) in &l.routes {
            merged.note_route(*m, *f, o);
        }
        merged.route_conflicts.extend(l.route_conflicts.iter().cloned());
    }
    merged.route_conflicts.sort();
    for (a, b) in merged.route_conflicts.iter().take(5) {
        run.violation(
            "FontBuilder history: two routes to the same final table set build different files",
            &format!("{:?} vs {:?}", a.iter().map(|o| op_name(*o)).collect::<Vec<_>>(), b.iter().map(|o| op_name(*o)).collect::<Vec<_>>()),
            json!({"family":"history_pair","ops":a,"other_ops":b}),
        );
    }
    run.count("history_distinct_final_table_sets", merged.routes.len() as u64);
    run.trans(seqs.iter().map(|s| s.len() as u64 + 1).sum());
    run.count("histories", seqs.len() as u64);
    // determinism self-test: first 32 histories twice
    for s in seqs.iter().take(32) {
        let mut a = Local::new();
        let mut b = Local::new();
        run_history(run, s, &srcs, &mut a);
        run_history(run, s, &srcs, &mut b);
        if a.all != b.all {
            run.machinery_error("history replay produced a different digest");
        }
    }
}

// ---------------------------------------------------------------------------
// thorough only: a few large tables (> 64 KiB) so that lengths are not only tiny
// ---------------------------------------------------------------------------
fn large_tables(run: &Run) {
    let big = [65_533usize, 65_536, 70_000, 70_001, 70_002, 70_003];
    let mut l = Local::new();
    for &len in &big {
        for tag in 0..TAGS.len() {
            for fill in FILLS_FULL {
                for other in 0..TAGS.len() {
                    if other == tag {
                        continue;
                    }
                    let (a, b) = if tag < other { (tag, other) } else { (other, tag) };
                    let (la, lb) = if tag < other { (len, 13) } else { (13, len) };
                    let base = MapCase { tags: vec![a, b], lens: vec![la, lb], fills: vec![fill, 2], order: vec![] };
                    run_map(run, &base, &permutations(2), &mut l);
                }
            }
        }
    }
    run.observe_many(&l.all, &l.nontrivial);
    run.evals(l.builds);
    run.count("maps_large_table", l.maps);
}

fn body(run: &Run, replay: Option<&Value>) {
    run.rule("a case is one FontBuilder usage (tag->bytes map in one insertion order, or one add_raw/copy_missing_tables history) built by the real FontBuilder::build; distinct = distinct (tag set, per-tag length mod 4, whether a 32-bit checksum sum wrapped) for maps, distinct final models for histories; non-trivial = at least one table (maps) / at least one add_raw and one copy (histories)");
    run.assume("the checker's reading of the OpenType spec: checksum = wrapping sum of big-endian u32 words of the zero-padded table; whole-file checksum over all words of the file");
    run.assume("the sfnt version value and the physical order/gaps of tables are not part of the statement and are not judged; searchRange/entrySelector/rangeShift are compared with the spec formula for every font with at least one table (undefined, hence not judged, for zero tables)");
    run.assume("`build` is only used as the terminal operation of a history (it drains the builder; the statement says nothing about re-use after build)");
    if let Some(case) = replay {
        let mut l = Local::new();
        if case["family"] == "external" {
            external_font_check(run, case["variant"].as_u64().unwrap_or(0) as u32 % EXTERNAL_VARIANTS);
        } else if case["family"] == "ttc" {
            ttc_case(run, case["major"].as_u64().unwrap_or(1) as u16, case["members"].as_u64().unwrap_or(1) as usize, case["repo_file"].as_bool().unwrap_or(false));
        } else if case["family"] == "checksum_direct" {
            checksum_direct_case(run, case["len"].as_u64().unwrap_or(0) as usize, case["fill"].as_u64().unwrap_or(2) as u8);
        } else if case["family"] == "history_pair" {
            let get = |k: &str| -> Vec<u32> { case[k].as_array().map(|a| a.iter().map(|x| x.as_u64().unwrap_or(0) as u32).collect()).unwrap_or_default() };
            let srcs = sources();
            run_history(run, &get("ops"), &srcs, &mut l);
            run_history(run, &get("other_ops"), &srcs, &mut l);
            for (a, b) in &l.route_conflicts {
                run.violation("FontBuilder history: two routes to the same final table set build different files", &format!("{a:?} vs {b:?}"), case.clone());
            }
        } else if case["family"] == "offset_width" {
            offset_width_case(run, case["k"].as_u64().unwrap_or(16) as u32, case["d"].as_i64().unwrap_or(0), &mut l);
        } else if case["family"] == "many_tables" {
            many_tables_case(run, case["n"].as_u64().unwrap_or(0) as usize, &mut l);
        } else if case["family"] == "history" {
            let ops: Vec<u32> = case["ops"].as_array().map(|a| a.iter().map(|x| x.as_u64().unwrap_or(0) as u32).collect()).unwrap_or_default();
            run_history(run, &ops, &sources(), &mut l);
        } else {
            let c = MapCase::from_json(case);
            let k = c.tags.len();
            // re-run the recorded order against the canonical first order
            let mut orders = vec![(0..k).collect::<Vec<_>>()];
            if c.order != orders[0] && c.order.len() == k {
                orders.push(c.order.clone());
            }
            run_map(run, &c, &orders, &mut l);
        }
        return;
    }
    run.bound("tags", json!(TAGS.iter().map(|t| Tag::new(t).to_string()).collect::<Vec<_>>()));
    run.bound("lengths_full", json!(LENS_FULL));
    run.bound("lengths_reduced", json!(LENS_RED));
    run.bound("fill_classes", json!(["00", "FF", "ramp"]));
    // (a) maps
    for k in 0..=3 {
        maps_family(run, &BASE_POOL, k, &LENS_FULL, &FILLS_FULL, &permutations(k), &format!("{k}tags_full_alphabet_all_orders"));
    }
    // tags with bytes outside printable ASCII (pool: head, aaaa, DSIG + 5 high/zero-byte tags)
    for k in 1..=3 {
        maps_family(run, &HIGH_POOL, k, &[0, 1, 4, 13], &[1, 2], &permutations(k), &format!("{k}tags_high_byte_pool_all_orders"));
    }
    if run.tier == Tier::Thorough {
        maps_family(run, &HIGH_POOL, 4, &[0, 1, 4, 13], &[1, 2], &permutations(4), "4tags_high_byte_pool_all_orders");
        maps_family(run, &HIGH_POOL, 8, &[0, 3, 13], &[1, 2], &[(0..8).collect(), (0..8).rev().collect()], "8tags_high_byte_pool_2_orders");
    }
    // every table length (not only mod-4 representatives); every special tag of ordered_tags
    length_sweep(run);
    for k in 1..=2 {
        maps_family(run, &REC_POOL, k, &[0, 1, 13], &[2], &permutations(k), &format!("{k}tags_special_tag_pool_all_orders"));
    }
    maps_family(run, &REC_POOL, 3, &[0, 13], &[2], &permutations(3), "3tags_special_tag_pool_all_orders");
    special_tag_sets(run);
    run.bound("special_tag_pool", json!(REC_POOL.iter().map(|i| Tag::new(TAGS[*i]).to_string()).collect::<Vec<_>>()));
    for v in 0..EXTERNAL_VARIANTS {
        external_font_check(run, v);
    }
    run.bound("external_fonts", json!(EXTERNAL_NAMES));
    // collections: the repository's TTC.ttc and hand-assembled ones with header version 1.0 / 2.0, 1..=3 members
    ttc_case(run, 1, 0, true);
    for major in [1u16, 2] {
        for members in 1..=3usize {
            ttc_case(run, major, members, false);
        }
    }
    run.bound("collections", json!("repository TTC.ttc + hand-assembled collections: header version {1.0, 2.0 (with the three DSIG fields)} x {1,2,3} members (member m holds external table j iff (j+m)%3 != 0, shared table data, member sfnt version alternating 0x00010000/OTTO)"));
    offset_width_family(run);
    {
        // table-count sweep: EVERY count 1..=max (search fields vs the spec formula for every n, every
        // table read back, i.e. every binary-search position of every directory size)
        let max = run.tier.pick(1100usize, 4200);
        let locals: Vec<Local> = (1..=max)
            .into_par_iter()
            .fold(Local::new, |mut l, n| {
                many_tables_case(run, n, &mut l);
                l
            })
            .collect();
        for l in &locals {
            run.observe_many(&l.all, &l.nontrivial);
            run.evals(l.builds);
        }
        run.count("table_count_sweep_fonts", max as u64);
        run.bound("table_count_sweep", json!(format!("every table count 1..={max} (n-1 one-byte tables with generated tags + a 16-byte head)")));
    }
    {
        let mut l = Local::new();
        let counts: Vec<usize> = if run.tier == Tier::Quick { vec![2047, 2048, 2049, 3071, 3072, 3073, 4094, 4095, 4096, 4097, 32767, 32768, 40000, 65535] } else { vec![255, 256, 4095, 4096, 4097, 8191, 8192, 16383, 16384, 32767, 32768, 32769, 40000, 49152, 65534, 65535] };
        for n in counts.iter().copied() {
            many_tables_case(run, n, &mut l);
        }
        run.observe_many(&l.all, &l.nontrivial);
        run.evals(l.builds);
        run.count("many_table_fonts", counts.len() as u64);
        run.bound("many_tables", json!(format!("fonts of {counts:?} tables (one byte each, generated tags, plus a 16-byte head unless 65535): 4096 = first count whose searchRange does not fit 16 bits (search fields judged for 1..4095 only), 32768 = first count with the top bit of numTables set, 65535 = largest numTables")));
    }
    match run.tier {
        Tier::Quick => {
            // 8 of the 24 orders: every tag appears in every position at least once
            let orders4 = vec![
                vec![0, 1, 2, 3], vec![3, 2, 1, 0], vec![1, 3, 0, 2], vec![2, 0, 3, 1],
                vec![1, 0, 3, 2], vec![2, 3, 0, 1], vec![3, 0, 1, 2], vec![0, 2, 1, 3],
            ];
            maps_family(run, &BASE_POOL, 4, &LENS_RED, &FILLS_RED, &orders4, "4tags_reduced_alphabet_8_orders");
            run.bound("maps", json!("<=3 tags: full alphabets, all k! insertion orders; 4 tags: lengths_reduced x {00,FF}, 8 of the 24 orders (all 24 in thorough)"));
        }
        Tier::Thorough => {
            maps_family(run, &BASE_POOL, 4, &LENS_RED, &FILLS_FULL, &permutations(4), "4tags_reduced_lengths_3fills_all_orders");
            // 4 tags over the full alphabets: 56.7 M maps; insertion orders limited to 4 (stated)
            let orders4 = vec![vec![0, 1, 2, 3], vec![3, 2, 1, 0], vec![1, 3, 0, 2], vec![2, 0, 3, 1]];
            maps_family(run, &BASE_POOL, 4, &LENS_FULL, &FILLS_FULL, &orders4, "4tags_full_alphabet_4_orders");
            maps_family(run, &BASE_POOL, 5, &[0, 3, 4, 13], &[1, 2], &[vec![0, 1, 2, 3, 4], vec![4, 3, 2, 1, 0], vec![2, 4, 1, 3, 0]], "5tags_small_alphabet_3_orders");
            // 6, 7 and all 8 tags over the 3-length alphabet {0, 3, 13} x {FF, ramp} in 3 orders
            let big_orders = |k: usize| -> Vec<Vec<usize>> { vec![(0..k).collect(), (0..k).rev().collect(), (0..k).map(|i| (i * 5 + 1) % k.max(1)).collect()] };
            maps_family(run, &BASE_POOL, 6, &[0, 3, 13], &[1, 2], &big_orders(6), "6tags_3lengths_3_orders");
            maps_family(run, &BASE_POOL, 7, &[0, 3, 13], &[1, 2], &big_orders(7), "7tags_3lengths_3_orders");
            maps_family(run, &BASE_POOL, 8, &[0, 3, 13], &[1, 2], &big_orders(8), "8tags_3lengths_3_orders");
            large_tables(run);
            run.bound("maps", json!("<=3 tags: full alphabets, all orders; 4 tags: reduced lengths x 3 fills in all 24 orders and full alphabets in 4 orders (identity, reverse, two derangements); 5 tags: lengths {0,3,4,13} x {FF,ramp} in 3 orders; 6, 7 and 8 tags: lengths {0,3,13} x {FF,ramp} in 3 orders; two-table fonts with one table of 65533..70003 bytes"));
        }
    }
    // (b) histories
    let depth = run.tier.pick(4, 5);
    run.bound("history_depth", json!(depth));
    run.bound("history_ops", json!((0..N_ADD + N_SRC + N_EXTRA).map(op_name).collect::<Vec<_>>()));
    histories(run, depth);
    // samples
    let s = MapCase { tags: vec![0, 2, 5], lens: vec![13, 3, 16], fills: vec![1, 2, 1], order: vec![2, 0, 1] };
    let (file, _) = build_map(&s);
    run.sample(json!({"case": s.to_json(), "file_len": file.len(), "file_hex_prefix": hex(&file[..64.min(file.len())])}));
    run.sample(json!({"family":"history","ops":[op_name(0), op_name(6), op_name(1), op_name(7)]}));
}
