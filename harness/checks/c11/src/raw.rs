//! Byte-level ItemVariationStore / DeltaSetIndexMap codec written from the OpenType text
//! ("OpenType Font Variations Common Table Formats"), independent of read-fonts and write-fonts.
//! Used (1) to decode what the builder under test compiled without going through the reader under
//! test, and (2) to encode stores the builder never produces (non-canonical wordDeltaCount, permuted
//! region indexes, three axes) for the reader under test.

/// (start, peak, end) in F2Dot14 bits, one per axis
pub type RawRegion = Vec<(i16, i16, i16)>;

#[derive(Clone, Debug, PartialEq)]
pub struct RawData {
    /// the packed field: bit 15 = LONG_WORDS, low 15 bits = word count
    pub word_delta_count: u16,
    pub region_indexes: Vec<u16>,
    /// item_count rows of region_indexes.len() deltas
    pub rows: Vec<Vec<i32>>,
}

#[derive(Clone, Debug, PartialEq)]
pub struct RawStore {
    pub axis_count: u16,
    pub regions: Vec<RawRegion>,
    /// None = NULL offset
    pub subtables: Vec<Option<RawData>>,
}

fn u16_at(b: &[u8], o: usize) -> Result<u16, String> {
    b.get(o..o + 2).map(|s| u16::from_be_bytes([s[0], s[1]])).ok_or_else(|| format!("u16 at {o} past the end ({})", b.len()))
}
fn u32_at(b: &[u8], o: usize) -> Result<u32, String> {
    b.get(o..o + 4).map(|s| u32::from_be_bytes([s[0], s[1], s[2], s[3]])).ok_or_else(|| format!("u32 at {o} past the end ({})", b.len()))
}

pub fn decode_store(b: &[u8]) -> Result<RawStore, String> {
    if u16_at(b, 0)? != 1 {
        return Err("format is not 1".into());
    }
    let rl = u32_at(b, 2)? as usize;
    let n = u16_at(b, 6)? as usize;
    let axis_count = u16_at(b, rl)?;
    let region_count = u16_at(b, rl + 2)? as usize;
    let mut regions = vec![];
    let mut o = rl + 4;
    for _ in 0..region_count {
        let mut r = vec![];
        for _ in 0..axis_count {
            r.push((u16_at(b, o)? as i16, u16_at(b, o + 2)? as i16, u16_at(b, o + 4)? as i16));
            o += 6;
        }
        regions.push(r);
    }
    let mut subtables = vec![];
    for i in 0..n {
        let off = u32_at(b, 8 + 4 * i)? as usize;
        if off == 0 {
            subtables.push(None);
            continue;
        }
        let item_count = u16_at(b, off)? as usize;
        let wdc = u16_at(b, off + 2)?;
        let ric = u16_at(b, off + 4)? as usize;
        let mut region_indexes = vec![];
        for k in 0..ric {
            region_indexes.push(u16_at(b, off + 6 + 2 * k)?);
        }
        let long = wdc & 0x8000 != 0;
        let words = (wdc & 0x7FFF) as usize;
        if words > ric {
            return Err(format!("sub-table {i}: word count {words} > region index count {ric}"));
        }
        let mut p = off + 6 + 2 * ric;
        let mut rows = vec![];
        for _ in 0..item_count {
            let mut row = vec![];
            for col in 0..ric {
                let wide = col < words;
                let v = match (wide, long) {
                    (true, true) => {
                        let v = u32_at(b, p)? as i32;
                        p += 4;
                        v
                    }
                    (true, false) | (false, true) => {
                        let v = u16_at(b, p)? as i16 as i32;
                        p += 2;
                        v
                    }
                    (false, false) => {
                        let v = *b.get(p).ok_or("delta byte past the end")? as i8 as i32;
                        p += 1;
                        v
                    }
                };
                row.push(v);
            }
            rows.push(row);
        }
        subtables.push(Some(RawData { word_delta_count: wdc, region_indexes, rows }));
    }
    Ok(RawStore { axis_count, regions, subtables })
}

/// Encode; values must fit their column type (the caller chooses them so).
pub fn encode_store(s: &RawStore) -> Vec<u8> {
    let n = s.subtables.len();
    let header = 8 + 4 * n;
    let mut rl: Vec<u8> = vec![];
    rl.extend(s.axis_count.to_be_bytes());
    rl.extend((s.regions.len() as u16).to_be_bytes());
    for r in &s.regions {
        for (a, p, e) in r {
            rl.extend(a.to_be_bytes());
            rl.extend(p.to_be_bytes());
            rl.extend(e.to_be_bytes());
        }
    }
    let mut body: Vec<u8> = vec![];
    let mut offsets = vec![];
    for st in &s.subtables {
        let Some(d) = st else {
            offsets.push(0u32);
            continue;
        };
        offsets.push((header + rl.len() + body.len()) as u32);
        body.extend((d.rows.len() as u16).to_be_bytes());
        body.extend(d.word_delta_count.to_be_bytes());
        body.extend((d.region_indexes.len() as u16).to_be_bytes());
        for i in &d.region_indexes {
            body.extend(i.to_be_bytes());
        }
        let long = d.word_delta_count & 0x8000 != 0;
        let words = (d.word_delta_count & 0x7FFF) as usize;
        for row in &d.rows {
            for (col, v) in row.iter().enumerate() {
                match (col < words, long) {
                    (true, true) => body.extend(v.to_be_bytes()),
                    (true, false) | (false, true) => body.extend((*v as i16).to_be_bytes()),
                    (false, false) => body.extend((*v as i8).to_be_bytes()),
                }
            }
        }
    }
    let mut out = vec![];
    out.extend(1u16.to_be_bytes());
    out.extend((header as u32).to_be_bytes());
    out.extend((n as u16).to_be_bytes());
    for o in offsets {
        out.extend(o.to_be_bytes());
    }
    out.extend(rl);
    out.extend(body);
    out
}

/// decoded DeltaSetIndexMap: (format, entry format byte, entries as (outer, inner))
pub fn decode_index_map(b: &[u8]) -> Result<(u8, u8, Vec<(u32, u32)>), String> {
    let format = *b.first().ok_or("empty")?;
    let ef = *b.get(1).ok_or("no entry format")?;
    let (count, mut p) = match format {
        0 => (u16_at(b, 2)? as usize, 4usize),
        1 => (u32_at(b, 2)? as usize, 6usize),
        f => return Err(format!("format {f}")),
    };
    let size = (((ef & 0x30) >> 4) + 1) as usize;
    let bits = ((ef & 0x0F) + 1) as u32;
    let mut out = Vec::with_capacity(count);
    for _ in 0..count {
        let s = b.get(p..p + size).ok_or("entry past the end")?;
        let mut e = 0u32;
        for x in s {
            e = (e << 8) | *x as u32;
        }
        p += size;
        out.push((e >> bits, e & ((1u32 << bits) - 1)));
    }
    Ok((format, ef, out))
}

/// specification tent of one region at `loc` (F2Dot14 bits; missing coordinates are 0), as a reduced
/// fraction (num, den), den > 0
pub fn tent_n(region: &[(i16, i16, i16)], loc: &[i16]) -> (i128, i128) {
    fn gcd(a: i128, b: i128) -> i128 {
        if b == 0 {
            a.abs().max(1)
        } else {
            gcd(b, a % b)
        }
    }
    let (mut num, mut den) = (1i128, 1i128);
    for (axis, (s, p, e)) in region.iter().enumerate() {
        let (s, p, e, c) = (*s as i128, *p as i128, *e as i128, loc.get(axis).copied().unwrap_or(0) as i128);
        if s > p || p > e || (s < 0 && e > 0 && p != 0) || p == 0 {
            continue;
        }
        if c < s || c > e {
            return (0, 1);
        }
        if c == p {
            continue;
        }
        if c < p {
            num *= c - s;
            den *= p - s;
        } else {
            num *= e - c;
            den *= e - p;
        }
        let g = gcd(num, den);
        num /= g;
        den /= g;
    }
    (num, den)
}

/// floor(sum_i delta_i * tent_i + 1/2); None when outside i32
pub fn exact_delta_n(terms: &[(&[(i16, i16, i16)], i32)], loc: &[i16]) -> Option<i32> {
    let (mut n, mut d) = (0i128, 1i128);
    for (r, delta) in terms {
        let (tn, td) = tent_n(r, loc);
        n = n * td + (*delta as i128) * tn * d;
        d *= td;
    }
    i32::try_from((2 * n + d).div_euclid(2 * d)).ok()
}
