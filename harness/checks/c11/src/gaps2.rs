//! Round-11 audit families, part 2.
//! (c10) an axis (-1, 0, 1): normalisation is the identity, so the whole pipeline reduces to the final
//!       16.16 -> 2.14 rounding; every 16.16 value in [-1 - 8 ulp, 1 + 8 ulp] through read-fonts (with and
//!       without an identity avar), skrifa `location` and skrifa `Axis::normalize`.
//! (c11) five-point segment maps (the three required points plus two) over a finer alphabet.
//! (d4)  gvar phantom-point fallback with intermediate (start, peak, end) tuples.

use font_types::{F2Dot14, FWord, Fixed, GlyphId, NameId, Tag, UfWord};
use rayon::prelude::*;
use read_fonts::{FontRef, TableProvider};
use serde_json::{json, Value};
use skrifa::MetadataProvider;
use std::collections::HashSet;
use std::sync::Mutex;
use vcore::*;

const ONE: i16 = 0x4000;
const TAG: Tag = Tag::new(b"wght");

fn f214(b: i16) -> F2Dot14 {
    F2Dot14::from_bits(b)
}

fn identity_font(with_avar: bool) -> Vec<u8> {
    use write_fonts::tables::avar::{Avar, AxisValueMap, SegmentMaps};
    use write_fonts::tables::fvar::{AxisInstanceArrays, Fvar, VariationAxisRecord};
    let fvar = Fvar::new(AxisInstanceArrays::new(vec![VariationAxisRecord::new(TAG, Fixed::from_bits(-65536), Fixed::from_bits(0), Fixed::from_bits(65536), 0, NameId::new(256))], vec![]));
    let mut b = write_fonts::FontBuilder::new();
    b.add_table(&fvar).unwrap();
    if with_avar {
        let avar = Avar::new(vec![SegmentMaps::new([(-ONE, -ONE), (0, 0), (ONE, ONE)].iter().map(|(f, t)| AxisValueMap::new(f214(*f), f214(*t))).collect())]);
        b.add_table(&avar).unwrap();
    }
    b.build()
}

pub fn identity_axis(run: &Run) {
    let (lo, hi) = (-65536i32 - 8, 65536i32 + 8);
    run.bound("c10.identity_axis", json!({"axis": [-1.0, 0.0, 1.0], "user_values_16_16_bits": [lo, hi], "fonts": ["no avar", "identity avar"], "routes": ["Fvar::user_to_normalized", "skrifa AxisCollection::location", "skrifa Axis::normalize", "VariationAxisRecord::normalize"],
        "reference": "normalize(v) = clamp(v, -1, 1) exactly; F2Dot14 = (bits + 2) >> 2"}));
    let all: Mutex<HashSet<u64>> = Mutex::new(HashSet::new());
    let non: Mutex<HashSet<u64>> = Mutex::new(HashSet::new());
    for with_avar in [false, true] {
        let bytes = identity_font(with_avar);
        let vals: Vec<i32> = (lo..=hi).collect();
        vals.par_chunks(4096).for_each(|chunk| {
            let font = FontRef::new(&bytes).expect("identity font");
            let fvar = font.fvar().expect("fvar");
            let avar = font.avar().ok();
            let rec = fvar.axes().expect("axes")[0];
            let axes = font.axes();
            let axis = axes.get(0).expect("axis");
            let (mut la, mut ln) = (HashSet::new(), HashSet::new());
            for v in chunk {
                let cl = (*v).clamp(-65536, 65536);
                let want = ((cl + 2) >> 2) as i16;
                let case = json!({"kind":"identity_axis","avar":with_avar,"user_bits":v});
                let cfg = if with_avar { "identity avar" } else { "no avar" };
                let n = rec.normalize(Fixed::from_bits(*v)).to_bits();
                if n != cl {
                    run.violation("VariationAxisRecord::normalize is not the identity (clamped) on the axis (-1, 0, 1)", &format!("normalize({v} / 65536) = {n} / 65536"), case.clone());
                }
                let mut out = [f214(0x0777)];
                fvar.user_to_normalized(avar.as_ref(), [(TAG, Fixed::from_bits(*v))], &mut out);
                if out[0].to_bits() != want {
                    run.violation(&format!("Fvar::user_to_normalized does not round the 16.16 coordinate to F2Dot14 as specified ({cfg})"), &format!("user {v} / 65536 on the axis (-1, 0, 1): got {} expected {want}", out[0].to_bits()), case.clone());
                }
                // |v| < 2^24: exact in f32
                let f = *v as f32 / 65536.0;
                let l = axes.location([(TAG, f)]).coords().first().map(|c| c.to_bits());
                if l != Some(want) {
                    run.violation(&format!("skrifa AxisCollection::location does not round the 16.16 coordinate to F2Dot14 as specified ({cfg})"), &format!("user {v} / 65536 on the axis (-1, 0, 1): got {l:?} expected {want}"), case.clone());
                }
                let a = axis.normalize(f).to_bits();
                if a != want {
                    run.violation("skrifa Axis::normalize does not round the 16.16 coordinate to F2Dot14 as specified", &format!("user {v} / 65536 on the axis (-1, 0, 1): got {a} expected {want}"), case);
                }
                let d = digest_of(&("ident", with_avar, v, out[0].to_bits()));
                la.insert(d);
                if want != 0 {
                    ln.insert(d);
                }
            }
            all.lock().unwrap().extend(la);
            non.lock().unwrap().extend(ln);
        });
    }
    let n = 2 * (hi - lo + 1) as u64;
    run.evals(n);
    run.trans(4 * n);
    run.count("c10.user_values", n);
    run.observe_many(&all.into_inner().unwrap(), &non.into_inner().unwrap());
}

// ---------------------------------------------------------------------------
// (c11) five-point segment maps
// ---------------------------------------------------------------------------

pub fn segment_maps5(run: &Run) {
    let froms: [i16; 6] = [-3 * (ONE / 4), -ONE / 2, -ONE / 3, ONE / 4, ONE / 2, 5 * (ONE / 8) + 1];
    let tos: [i16; 9] = [-ONE, -3 * (ONE / 4), -ONE / 2, -ONE / 5, 0, ONE / 7, ONE / 2, 3 * (ONE / 4), ONE];
    let mut maps: Vec<Vec<(i16, i16)>> = vec![];
    for i in 0..froms.len() {
        for j in i + 1..froms.len() {
            for t1 in tos {
                for t2 in tos {
                    let mut m = vec![(-ONE, -ONE), (0, 0), (ONE, ONE), (froms[i], t1), (froms[j], t2)];
                    m.sort();
                    if m.windows(2).all(|w| w[0].1 <= w[1].1) {
                        maps.push(m);
                    }
                }
            }
        }
    }
    run.bound("c11.segment_maps_5_points", json!({"required_points": [[-1, -1], [0, 0], [1, 1]], "extra_from_f2dot14_bits": froms, "extra_to_f2dot14_bits": tos, "maps": maps.len(), "inputs": "as family c: each from-point -1ulp/+0/+1ulp (16.16), midpoints, quarter and third points"}));
    let all: Mutex<HashSet<u64>> = Mutex::new(HashSet::new());
    maps.par_iter().for_each(|m| match guard(|| super::norm::check_segment_map(m)) {
        Ok(Ok(d)) => {
            all.lock().unwrap().insert(d);
        }
        Ok(Err((id, details))) => {
            if id.starts_with("harness") {
                run.machinery_error(&format!("{id}: {details}"));
            } else {
                run.violation(&id, &details, json!({"kind":"segment_map","points":m}))
            }
        }
        Err(p) => run.violation(&format!("SegmentMaps::apply panic: {}", p.kind()), &p.message, json!({"kind":"segment_map","points":m})),
    });
    run.evals(maps.len() as u64);
    run.trans(maps.len() as u64 * 30);
    run.count("c11.segment_maps", maps.len() as u64);
    let a = all.into_inner().unwrap();
    run.observe_many(&a, &a);
}

// ---------------------------------------------------------------------------
// (d4) gvar phantom points with intermediate tuples
// ---------------------------------------------------------------------------

/// (start, peak, end, pp1 dx, pp2 dx)
const TUPLES: [(i16, i16, i16, i16, i16); 4] = [
    (ONE / 4, ONE / 2, ONE, 0, 80),
    (ONE / 2, ONE, ONE, 8, -40),
    (-ONE, -ONE, 0, 0, 12),
    (-ONE, -ONE / 2, -ONE / 4, -6, 30),
];

fn gvar_font() -> Vec<u8> {
    use write_fonts::tables::glyf::{GlyfLocaBuilder, SimpleGlyph};
    use write_fonts::tables::gvar::{GlyphDelta, GlyphDeltas, GlyphVariations, Gvar, Tent};
    use write_fonts::tables::{hhea::Hhea, hmtx::Hmtx, hmtx::LongMetric, maxp::Maxp};
    let mut gl = GlyfLocaBuilder::new();
    let mut p = kurbo::BezPath::new();
    p.move_to((10.0, 0.0));
    p.line_to((110.0, 0.0));
    p.line_to((60.0, 100.0));
    p.close_path();
    gl.add_glyph(&SimpleGlyph::from_bezpath(&p).unwrap()).unwrap();
    let (glyf, loca, fmt) = gl.build();
    let head = write_fonts::tables::head::Head { units_per_em: 1000, index_to_loc_format: fmt as i16, ..Default::default() };
    let hhea = Hhea::new(FWord::new(800), FWord::new(-200), FWord::new(0), UfWord::new(700), FWord::new(0), FWord::new(0), FWord::new(0), 1, 0, 0, 1);
    let hmtx = Hmtx::new(vec![LongMetric::new(600, 10)], vec![]);
    let deltas: Vec<GlyphDeltas> = TUPLES
        .iter()
        .map(|(s, pk, e, d1, d2)| {
            let mut d: Vec<GlyphDelta> = (0..3).map(|i| GlyphDelta::required(i as i16 + 1, 0)).collect();
            d.push(GlyphDelta::required(*d1, 0));
            d.push(GlyphDelta::required(*d2, 0));
            d.push(GlyphDelta::required(0, 0));
            d.push(GlyphDelta::required(0, 0));
            GlyphDeltas::new(vec![Tent::new(f214(*pk), Some((f214(*s), f214(*e))))], d)
        })
        .collect();
    let gvar = Gvar::new(vec![GlyphVariations::new(GlyphId::new(0), deltas)], 1).expect("gvar builds");
    let mut fb = write_fonts::FontBuilder::new();
    fb.add_table(&head).unwrap();
    fb.add_table(&Maxp::new(1)).unwrap();
    fb.add_table(&hhea).unwrap();
    fb.add_table(&hmtx).unwrap();
    fb.add_table(&glyf).unwrap();
    fb.add_table(&loca).unwrap();
    fb.add_table(&gvar).unwrap();
    fb.build()
}

pub fn gvar_intermediate(run: &Run) {
    let mut cs: Vec<i32> = (-8..=8).map(|k| k * (ONE as i32 / 8)).collect();
    for c in [ONE as i32 / 4, ONE as i32 / 2, ONE as i32, -(ONE as i32) / 4, -(ONE as i32) / 2, -(ONE as i32)] {
        cs.extend([c - 1, c + 1]);
    }
    let mut cs: Vec<i16> = cs.into_iter().filter(|c| *c >= -(ONE as i32) && *c <= ONE as i32).map(|c| c as i16).collect();
    cs.sort();
    cs.dedup();
    run.bound("d4.gvar_intermediate_tuples", json!({"tuples_start_peak_end_pp1dx_pp2dx": TUPLES, "coords_f2dot14_bits": cs, "reference": "hmtx advance + sum tent * (pp2dx - pp1dx), lsb + sum tent * pp1dx (either sign, as family d2), each within one unit of the exact real value"}));
    let bytes = gvar_font();
    let font = match FontRef::new(&bytes) {
        Ok(f) => f,
        Err(e) => {
            run.machinery_error(&format!("gvar font (intermediate tuples) does not parse: {e}"));
            return;
        }
    };
    let mut all = HashSet::new();
    let mut non = HashSet::new();
    let mut n = 0u64;
    for c in &cs {
        let coords = [f214(*c)];
        let gm = skrifa::metrics::GlyphMetrics::new(&font, skrifa::instance::Size::unscaled(), skrifa::instance::LocationRef::new(&coords));
        n += 2;
        let case = json!({"kind":"metrics_gvar_intermediate","coord":c});
        // exact sums as fractions
        let (mut a_n, mut a_d, mut l_n, mut l_d) = (0i128, 1i128, 0i128, 1i128);
        for (s, pk, e, d1, d2) in TUPLES {
            let (tn, td) = super::raw::tent_n(&[(s, pk, e)], &[*c]);
            a_n = a_n * td + (d2 as i128 - d1 as i128) * tn * a_d;
            a_d *= td;
            l_n = l_n * td + (d1 as i128) * tn * l_d;
            l_d *= td;
        }
        let adv_exact = 600.0 + a_n as f64 / a_d as f64;
        let lsb_shift = l_n as f64 / l_d as f64;
        let (adv, lsb) = match guard(|| (gm.advance_width(GlyphId::new(0)), gm.left_side_bearing(GlyphId::new(0)))) {
            Ok(v) => v,
            Err(p) => {
                run.violation(&format!("GlyphMetrics panic: {} in {} (gvar fallback, intermediate tuples)", p.kind(), p.site()), &p.message, case);
                continue;
            }
        };
        if !adv.map(|a| (a as f64 - adv_exact).abs() <= 1.0).unwrap_or(false) {
            run.violation("GlyphMetrics::advance_width wrong (gvar phantom-point fallback, intermediate tuples)", &format!("coordinate {} / 16384: got {adv:?}, exact {adv_exact:.4}", c), case.clone());
        }
        if !lsb.map(|l| (l as f64 - (10.0 + lsb_shift)).abs() <= 1.0 || (l as f64 - (10.0 - lsb_shift)).abs() <= 1.0).unwrap_or(false) {
            run.violation("GlyphMetrics::left_side_bearing wrong (gvar phantom-point fallback, intermediate tuples)", &format!("coordinate {} / 16384: got {lsb:?}, exact {:.4} (or {:.4})", c, 10.0 + lsb_shift, 10.0 - lsb_shift), case);
        }
        let d = digest_of(&("gvari", c, adv.map(|f| f.to_bits()), lsb.map(|f| f.to_bits())));
        all.insert(d);
        if a_n != 0 {
            non.insert(d);
        }
    }
    run.evals(n);
    run.trans(n);
    run.count("d4.metric_queries", n);
    run.observe_many(&all, &non);
}

pub fn replay(run: &Run, case: &Value) {
    match case["kind"].as_str().unwrap_or("") {
        "identity_axis" => identity_axis(run),
        "metrics_gvar_intermediate" => gvar_intermediate(run),
        k => println!("replay: unknown kind {k}"),
    }
}
