//! C11 — variation stores, metric deltas and axis normalisation compute specified values.
//! See DESIGN.md §3 C11.
//!
//! (a) VariationStoreBuilder (de-duplicating and implicit-index modes): every ordered sequence of
//!     <= m delta sets over three regions and a boundary delta alphabet; each TemporaryDeltaSetId is
//!     resolved through the VariationIndexRemapping, the store is compiled (`dump_table`), re-read with
//!     read-fonts, and the addressed row, expanded through the pruned/renumbered region list, must be
//!     exactly the input delta set. Plus row-count families that force sub-table splitting.
//! (b) `ItemVariationStore::compute_delta` against the specification's tent function in exact integer
//!     rationals (i128) on dyadic locations where every scalar is exactly representable.
//! (c) `VariationAxisRecord::normalize`, `SegmentMaps::apply`, `Fvar::user_to_normalized` and skrifa's
//!     `AxisCollection::location` against exact rationals.
//! (d) skrifa `GlyphMetrics::advance_width/left_side_bearing` on synthesised fonts with HVAR.

mod gaps;
mod gaps2;
mod norm;
mod norm2;
mod raw;

use font_types::{F2Dot14, GlyphId};
use rayon::prelude::*;
use read_fonts::{FontData, FontRead};
use serde_json::{json, Value};
use std::collections::{BTreeMap, HashSet};
use std::sync::atomic::{AtomicU64, Ordering};
use std::sync::Mutex;
use vcore::*;
use write_fonts::dump_table;
use write_fonts::tables::variations::ivs_builder::VariationStoreBuilder;
use write_fonts::tables::variations::{RegionAxisCoordinates, VariationRegion};

fn main() {
    main_for("C11", body)
}

// ---------------------------------------------------------------------------
// regions (two axes, F2Dot14 raw units)
// ---------------------------------------------------------------------------

/// (start, peak, end) per axis, in F2Dot14 bits
pub type RegionSpec = [(i16, i16, i16); 2];
const ONE: i16 = 0x4000;
pub const REGIONS: [RegionSpec; 5] = [
    [(0, ONE, ONE), (0, 0, 0)],
    [(-ONE, -ONE, 0), (0, 0, 0)],
    [(0, 0, 0), (ONE / 4, ONE / 2, ONE)],
    // a corner region on both axes, and a region with a non-dyadic intermediate tent on axis 0
    [(0, ONE, ONE), (0, ONE, ONE)],
    [(ONE / 8, 3 * (ONE / 8) + 1, ONE - 3), (-ONE, -ONE, 0)],
];
/// number of regions
pub const NR: usize = 5;

fn wregion(r: &RegionSpec) -> VariationRegion {
    VariationRegion::new(
        r.iter()
            .map(|(s, p, e)| RegionAxisCoordinates::new(F2Dot14::from_bits(*s), F2Dot14::from_bits(*p), F2Dot14::from_bits(*e)))
            .collect(),
    )
}

/// the specification's scalar for one region at a location, as an exact fraction (num, den), den > 0
fn tent(r: &RegionSpec, loc: &[i16; 2]) -> (i128, i128) {
    let (mut num, mut den) = (1i128, 1i128);
    for (axis, (start, peak, end)) in r.iter().enumerate() {
        let (s, p, e, c) = (*start as i128, *peak as i128, *end as i128, loc[axis] as i128);
        if s > p || p > e {
            continue;
        }
        if s < 0 && e > 0 && p != 0 {
            continue;
        }
        if p == 0 {
            continue;
        }
        if c < s || c > e {
            return (0, 1);
        }
        if c == p {
            continue;
        }
        if c < p {
            num *= c - s;
            den *= p - s;
        } else {
            num *= e - c;
            den *= e - p;
        }
    }
    (num, den)
}

/// floor(x + 1/2) of sum_i delta_i * tent_i, None if not representable in i32
fn exact_delta(row: &BTreeMap<usize, i32>, loc: &[i16; 2]) -> Option<i32> {
    // sum as a fraction over the product of denominators
    let (mut n, mut d) = (0i128, 1i128);
    for (ri, delta) in row {
        let (tn, td) = tent(&REGIONS[*ri], loc);
        n = n * td + (*delta as i128) * tn * d;
        d *= td;
    }
    // floor((2n + d) / (2d))
    let v = (2 * n + d).div_euclid(2 * d);
    i32::try_from(v).ok()
}

// ---------------------------------------------------------------------------
// (a) builder
// ---------------------------------------------------------------------------

/// one delta set: per region None (region not mentioned) or Some(delta)
type DeltaSet = [Option<i32>; NR];

fn nonzero(ds: &DeltaSet) -> BTreeMap<usize, i32> {
    ds.iter().enumerate().filter_map(|(i, d)| d.filter(|d| *d != 0).map(|d| (i, d))).collect()
}

struct ReadStore {
    bytes: Vec<u8>,
    /// the same bytes decoded by the harness' own codec (raw.rs), independent of read-fonts
    raw: Result<raw::RawStore, String>,
}

impl ReadStore {
    fn new(bytes: Vec<u8>) -> Self {
        let raw = raw::decode_store(&bytes);
        ReadStore { bytes, raw }
    }

    /// expand row (outer, inner): region id (index into REGIONS) -> delta, zeros dropped
    fn row(&self, outer: u16, inner: u16) -> Result<BTreeMap<usize, i32>, String> {
        let by_spec = self.row_by_spec(outer, inner)?;
        let mut out = BTreeMap::new();
        for (spec, delta) in by_spec {
            let id = REGIONS.iter().position(|r| r[..] == spec[..]).ok_or_else(|| format!("region list holds an unknown region {spec:?}"))?;
            out.insert(id, delta);
        }
        Ok(out)
    }

    /// expand row (outer, inner): region coordinates -> delta, zeros dropped
    fn row_by_spec(&self, outer: u16, inner: u16) -> Result<BTreeMap<Vec<(i16, i16, i16)>, i32>, String> {
        let ivs = read_fonts::tables::variations::ItemVariationStore::read(FontData::new(&self.bytes)).map_err(|e| format!("store does not parse: {e}"))?;
        let data = ivs
            .item_variation_data()
            .get(outer as usize)
            .ok_or_else(|| format!("outer index {outer} past the sub-table list (or null)"))?
            .map_err(|e| format!("sub-table {outer}: {e}"))?;
        if inner >= data.item_count() {
            return Err(format!("inner index {inner} >= item count {}", data.item_count()));
        }
        let regions = ivs.variation_region_list().map_err(|e| format!("region list: {e}"))?.variation_regions();
        let mut out = BTreeMap::new();
        let idx = data.region_indexes();
        let deltas: Vec<i32> = data.delta_set(inner).collect();
        if deltas.len() != idx.len() {
            return Err(format!("row has {} deltas for {} columns", deltas.len(), idx.len()));
        }
        // the same row in the harness' own decoding of the bytes (raw.rs), compared column by column
        let raw = self.raw.as_ref().map_err(|e| format!("raw: store bytes do not decode per the specification: {e}"))?;
        let rd = raw.subtables.get(outer as usize).and_then(|s| s.as_ref()).ok_or_else(|| format!("raw: sub-table {outer} is NULL or past the list in the bytes decoded per the specification"))?;
        let rrow = rd.rows.get(inner as usize).ok_or_else(|| format!("raw: inner index {inner} >= item count {} in the bytes decoded per the specification", rd.rows.len()))?;
        if rrow.len() != deltas.len() || rd.region_indexes.len() != idx.len() {
            return Err(format!("raw: read-fonts sees {} columns, the bytes decoded per the specification have {}", deltas.len(), rrow.len()));
        }
        for (col, delta) in deltas.iter().enumerate() {
            let ri = idx[col].get() as usize;
            let reg = regions.get(ri).map_err(|e| format!("region {ri}: {e}"))?;
            let spec: Vec<(i16, i16, i16)> = reg.region_axes().iter().map(|a| (a.start_coord().to_bits(), a.peak_coord().to_bits(), a.end_coord().to_bits())).collect();
            if rd.region_indexes[col] as usize != ri || raw.regions.get(ri) != Some(&spec) || rrow[col] != *delta {
                return Err(format!(
                    "raw: ({outer}, {inner}) column {col}: read-fonts gives region #{ri} {spec:?} delta {delta}; the bytes decoded per the specification give region #{} {:?} delta {}",
                    rd.region_indexes[col],
                    raw.regions.get(rd.region_indexes[col] as usize),
                    rrow[col]
                ));
            }
            if *delta != 0 {
                if out.insert(spec.clone(), *delta).is_some() {
                    return Err(format!("region {spec:?} appears in two columns of sub-table {outer}"));
                }
            }
        }
        Ok(out)
    }
}

/// build a store from the sequence, resolve every id, compare. Err = (identity, details)
fn check_store(seq: &[DeltaSet], implicit: bool) -> Result<(u64, bool), (String, String)> {
    check_store_o(seq, implicit, false)
}

fn check_store_o(seq: &[DeltaSet], implicit: bool, rev_all: bool) -> Result<(u64, bool), (String, String)> {
    let mode = if implicit { "implicit indices" } else { "de-duplicating" };
    let mut b = if implicit { VariationStoreBuilder::new_with_implicit_indices(2) } else { VariationStoreBuilder::new(2) };
    let mut ids = vec![];
    for (k, ds) in seq.iter().enumerate() {
        let mut v: Vec<(VariationRegion, i32)> = ds.iter().enumerate().filter_map(|(i, d)| d.map(|d| (wregion(&REGIONS[i]), d))).collect();
        // the order of the (region, delta) pairs inside one call carries no meaning: every second set
        // (or every set, `rev_all`) is handed over in descending region order
        if k % 2 == 1 || rev_all {
            v.reverse();
        }
        ids.push(b.add_deltas(v));
    }
    let (store, remap) = b.build();
    let bytes = dump_table(&store).map_err(|e| (format!("VariationStoreBuilder ({mode}): built store does not compile"), format!("{e:?}")))?;
    let rs = ReadStore::new(bytes);
    let mut any_nonzero = false;
    for (i, ds) in seq.iter().enumerate() {
        let expect = nonzero(ds);
        any_nonzero |= !expect.is_empty();
        let Some(vi) = remap.get(ids[i]) else {
            return Err((format!("VariationStoreBuilder ({mode}): temporary id has no final index"), format!("input #{i} id {}", ids[i])));
        };
        match rs.row(vi.delta_set_outer_index, vi.delta_set_inner_index) {
            Ok(got) => {
                if got != expect {
                    return Err((
                        format!("VariationStoreBuilder ({mode}): row addressed by the returned index differs from the input delta set"),
                        format!("input #{i} {:?} -> ({}, {}) expands to {:?}", ds, vi.delta_set_outer_index, vi.delta_set_inner_index, got),
                    ));
                }
            }
            Err(e) if e.starts_with("raw:") => {
                return Err((
                    format!("VariationStoreBuilder ({mode}): the compiled bytes decoded per the specification disagree with read-fonts or do not hold the row"),
                    format!("input #{i} {:?} -> ({}, {}): {e}", ds, vi.delta_set_outer_index, vi.delta_set_inner_index),
                ))
            }
            Err(e) => {
                return Err((
                    format!("VariationStoreBuilder ({mode}): returned index does not address a row"),
                    format!("input #{i} {:?} -> ({}, {}): {e}", ds, vi.delta_set_outer_index, vi.delta_set_inner_index),
                ))
            }
        }
    }
    Ok((digest_of(&rs.bytes), any_nonzero))
}

/// every assignment of an alphabet value to each of the first `n` regions (the others absent)
fn delta_sets_n(alpha: &[Option<i32>], n: usize) -> Vec<DeltaSet> {
    let k = alpha.len();
    let mut out = vec![];
    for c in 0..k.pow(n as u32) {
        let mut ds: DeltaSet = [None; NR];
        let mut x = c;
        for slot in ds.iter_mut().take(n) {
            *slot = alpha[x % k];
            x /= k;
        }
        out.push(ds);
    }
    out
}
fn delta_sets(alpha: &[Option<i32>]) -> Vec<DeltaSet> {
    delta_sets_n(alpha, 3)
}

fn ds_json(seq: &[DeltaSet]) -> Value {
    json!(seq.iter().map(|ds| ds.iter().map(|d| json!(d)).collect::<Vec<_>>()).collect::<Vec<_>>())
}
fn ds_from_json(v: &Value) -> Vec<DeltaSet> {
    v.as_array()
        .map(|a| {
            a.iter()
                .map(|ds| {
                    let mut o = [None; NR];
                    for i in 0..NR {
                        o[i] = ds[i].as_i64().map(|x| x as i32);
                    }
                    o
                })
                .collect()
        })
        .unwrap_or_default()
}

fn builder_sequences(run: &Run) {
    let full: Vec<Option<i32>> = vec![None, Some(0), Some(1), Some(-1), Some(127), Some(128), Some(-129), Some(32767), Some(32768), Some(-32769), Some(0x7FFF_FFFF)];
    let mid: Vec<Option<i32>> = vec![None, Some(0), Some(1), Some(128), Some(-129), Some(-32769)];
    let small: Vec<Option<i32>> = vec![None, Some(1), Some(128), Some(32768)];
    // (length, alphabet) per tier
    let plan: Vec<(usize, &Vec<Option<i32>>)> = if run.tier == Tier::Quick {
        vec![(1, &full), (2, &full), (3, &small)]
    } else {
        vec![(1, &full), (2, &full), (3, &mid), (4, &small)]
    };
    run.bound(
        "a.builder_sequences",
        json!(plan.iter().map(|(l, a)| json!({"sequence_length": l, "per_region_delta_alphabet": a, "delta_sets": a.len().pow(3)})).collect::<Vec<_>>()),
    );
    run.bound("a.regions", json!(REGIONS.iter().map(|r| r.iter().map(|(s, p, e)| [*s as f64 / 16384.0, *p as f64 / 16384.0, *e as f64 / 16384.0]).collect::<Vec<_>>()).collect::<Vec<_>>()));
    for (len, alpha) in plan {
        let sets = delta_sets(alpha);
        let n = sets.len();
        let total = (n as u64).pow(len as u32);
        let all: Mutex<HashSet<u64>> = Mutex::new(HashSet::new());
        let non: Mutex<HashSet<u64>> = Mutex::new(HashSet::new());
        // parallel over the first element
        (0..n).into_par_iter().for_each(|first| {
            let (mut la, mut ln) = (HashSet::new(), HashSet::new());
            let rest = (n as u64).pow(len as u32 - 1);
            let mut seq: Vec<DeltaSet> = vec![sets[first]; len];
            for c in 0..rest {
                let mut x = c;
                for i in (1..len).rev() {
                    seq[i] = sets[(x % n as u64) as usize];
                    x /= n as u64;
                }
                for implicit in [false, true] {
                    match guard(|| check_store(&seq, implicit)) {
                        Ok(Ok((d, nz))) => {
                            la.insert(d);
                            if nz {
                                ln.insert(d);
                            }
                        }
                        Ok(Err((id, details))) => run.violation(&id, &details, json!({"kind":"builder","implicit":implicit,"seq":ds_json(&seq)})),
                        Err(p) => run.violation(
                            &format!("VariationStoreBuilder panic: {} in {}", p.kind(), p.site()),
                            &format!("{} at {}:{} for {:?}", p.message, p.file, p.line, seq),
                            json!({"kind":"builder","implicit":implicit,"seq":ds_json(&seq)}),
                        ),
                    }
                }
            }
            all.lock().unwrap().extend(la);
            non.lock().unwrap().extend(ln);
        });
        run.evals(total * 2);
        run.trans(total * 2 * (len as u64 + 2));
        run.count(&format!("a.stores_len{len}"), total * 2);
        let (a, nn) = (all.into_inner().unwrap(), non.into_inner().unwrap());
        run.count(&format!("a.distinct_compiled_stores_len{len}"), a.len() as u64);
        run.observe_many(&a, &nn);
        eprintln!("[c11] builder sequences of length {len}: {} stores at {:.1}s", total * 2, run.elapsed());
    }
    run.sample(json!({"family":"a","example_sequence": ds_json(&[[Some(128), None, Some(-32769), None, None], [None, Some(1), Some(0), None, None]])}));
}

/// row-count families: many distinct rows of cycling shapes
fn family_row(i: u32) -> DeltaSet {
    let cyc = [None, Some(1), Some(200), Some(40000)][(i % 4) as usize];
    let big = if i % 7 == 0 { Some(-(i as i32) - 70000) } else { Some(i as i32 + 1) };
    [big, cyc, if i % 3 == 0 { None } else { Some((i % 251) as i32 - 125) }, None, None]
}

fn builder_families(run: &Run) {
    let counts: Vec<u32> = if run.tier == Tier::Quick { vec![255, 256, 65535, 65536] } else { vec![255, 256, 65535, 65536, 70000, 131073] };
    run.bound("a.row_count_families", json!({"row_counts": counts, "implicit_mode_only_up_to": 65535}));
    let jobs: Vec<(u32, bool)> = counts.iter().flat_map(|c| [(*c, false), (*c, true)]).filter(|(c, imp)| !*imp || *c <= 65535).collect();
    jobs.par_iter().for_each(|(count, implicit)| {
        let seq: Vec<DeltaSet> = (0..*count).map(family_row).collect();
        run.eval();
        run.trans(*count as u64);
        match guard(|| check_store(&seq, *implicit)) {
            Ok(Ok((d, _))) => run.observe(d, true),
            Ok(Err((id, details))) => run.violation(&format!("{id} [row-count family]"), &format!("{count} rows: {details}"), json!({"kind":"builder_family","count":count,"implicit":implicit})),
            Err(p) => run.violation(
                &format!("VariationStoreBuilder panic: {} in {}", p.kind(), p.site()),
                &format!("{count} rows, implicit={implicit}: {} at {}:{}", p.message, p.file, p.line),
                json!({"kind":"builder_family","count":count,"implicit":implicit}),
            ),
        }
    });
    run.count("a.row_count_family_stores", jobs.len() as u64);
}

// ---------------------------------------------------------------------------
// (b) compute_delta
// ---------------------------------------------------------------------------

const AXIS0_LOCS: [i16; 7] = [-ONE, -ONE / 2, -ONE / 4, 0, ONE / 4, ONE / 2, ONE];
const AXIS1_LOCS: [i16; 8] = [-ONE, 0, ONE / 4, ONE / 4 + ONE / 8, ONE / 2, ONE / 2 + ONE / 4, ONE - ONE / 8, ONE];

fn compute_delta_family(run: &Run) {
    let alpha: Vec<Option<i32>> = vec![Some(0), Some(1), Some(-1), Some(127), Some(128), Some(-129), Some(32767), Some(32768), Some(-32769), Some(0x7FFF_FFFF), Some(i32::MIN + 1)];
    let rows = delta_sets(&alpha);
    run.bound(
        "b.compute_delta",
        json!({"rows": rows.len(), "per_region_delta_alphabet": alpha, "axis0_locations": AXIS0_LOCS.iter().map(|c| *c as f64 / 16384.0).collect::<Vec<_>>(),
               "axis1_locations": AXIS1_LOCS.iter().map(|c| *c as f64 / 16384.0).collect::<Vec<_>>(), "modes": ["de-duplicating","implicit indices"]}),
    );
    for implicit in [false, true] {
        let mut b = if implicit { VariationStoreBuilder::new_with_implicit_indices(2) } else { VariationStoreBuilder::new(2) };
        let ids: Vec<u32> = rows
            .iter()
            .map(|ds| b.add_deltas(ds.iter().enumerate().filter_map(|(i, d)| d.map(|d| (wregion(&REGIONS[i]), d))).collect::<Vec<_>>()))
            .collect();
        let (store, remap) = b.build();
        let bytes = match dump_table(&store) {
            Ok(b) => b,
            Err(e) => {
                run.machinery_error(&format!("compute_delta family store does not compile: {e:?}"));
                return;
            }
        };
        let skipped = AtomicU64::new(0);
        let all: Mutex<HashSet<u64>> = Mutex::new(HashSet::new());
        let non: Mutex<HashSet<u64>> = Mutex::new(HashSet::new());
        (0..rows.len()).into_par_iter().for_each(|ri| {
            let ivs = read_fonts::tables::variations::ItemVariationStore::read(FontData::new(&bytes)).expect("store parses");
            let vi = remap.get(ids[ri]).expect("id resolves");
            let row = nonzero(&rows[ri]);
            let (mut la, mut ln) = (HashSet::new(), HashSet::new());
            for c0 in AXIS0_LOCS {
                for c1 in AXIS1_LOCS {
                    let loc = [c0, c1];
                    let Some(expect) = exact_delta(&row, &loc) else {
                        skipped.fetch_add(1, Ordering::Relaxed);
                        continue;
                    };
                    let coords = [F2Dot14::from_bits(c0), F2Dot14::from_bits(c1)];
                    let ix = read_fonts::tables::variations::DeltaSetIndex { outer: vi.delta_set_outer_index, inner: vi.delta_set_inner_index };
                    let case = json!({"kind":"compute_delta","row":ds_json(&[rows[ri]]),"loc":loc,"implicit":implicit});
                    match guard(|| ivs.compute_delta(ix, &coords)) {
                        Ok(Ok(got)) => {
                            if got != expect {
                                run.violation(
                                    "ItemVariationStore::compute_delta differs from the exact tent sum",
                                    &format!("row {:?} at ({}, {}): compute_delta = {got}, floor(sum tent*delta + 1/2) = {expect}", rows[ri], c0 as f64 / 16384.0, c1 as f64 / 16384.0),
                                    case,
                                );
                            }
                            let d = digest_of(&(ri, loc, got));
                            la.insert(d);
                            if got != 0 {
                                ln.insert(d);
                            }
                        }
                        Ok(Err(e)) => run.violation("ItemVariationStore::compute_delta fails on a built store", &format!("{e}"), case),
                        Err(p) => run.violation(&format!("ItemVariationStore::compute_delta panic: {}", p.kind()), &p.message, case),
                    }
                }
            }
            all.lock().unwrap().extend(la);
            non.lock().unwrap().extend(ln);
        });
        let n = (rows.len() * AXIS0_LOCS.len() * AXIS1_LOCS.len()) as u64;
        run.evals(n);
        run.trans(n);
        run.count("b.compute_delta_evaluations", n);
        run.count("b.skipped_exact_result_outside_i32", skipped.load(Ordering::Relaxed));
        let (a, nn) = (all.into_inner().unwrap(), non.into_inner().unwrap());
        run.count("b.distinct_nonzero_results", nn.len() as u64);
        run.observe_many(&a, &nn);
    }
}


// ---------------------------------------------------------------------------
// (a2) four and five regions; (a3) very wide rows and more rows than an inner index can address
// ---------------------------------------------------------------------------

fn builder_more_regions(run: &Run) {
    let a4: Vec<Option<i32>> = vec![None, Some(1), Some(128), Some(-32769)];
    let a3: Vec<Option<i32>> = vec![None, Some(1), Some(-129)];
    let a3b: Vec<Option<i32>> = vec![None, Some(1), Some(128)];
    // (regions used, sequence length, alphabet)
    let plan: Vec<(usize, usize, &Vec<Option<i32>>)> = if run.tier == Tier::Quick {
        vec![(5, 1, &a4), (5, 2, &a3), (4, 2, &a4)]
    } else {
        vec![(5, 1, &a4), (5, 2, &a4), (4, 3, &a3b)]
    };
    run.bound("a2.more_regions", json!(plan.iter().map(|(r, l, a)| json!({"regions": r, "sequence_length": l, "per_region_delta_alphabet": a})).collect::<Vec<_>>()));
    for (nr, len, alpha) in plan {
        let sets = delta_sets_n(alpha, nr);
        let n = sets.len();
        let total = (n as u64).pow(len as u32);
        let all: Mutex<HashSet<u64>> = Mutex::new(HashSet::new());
        let non: Mutex<HashSet<u64>> = Mutex::new(HashSet::new());
        (0..n).into_par_iter().for_each(|first| {
            let (mut la, mut ln) = (HashSet::new(), HashSet::new());
            let rest = (n as u64).pow(len as u32 - 1);
            let mut seq: Vec<DeltaSet> = vec![sets[first]; len];
            for c in 0..rest {
                let mut x = c;
                for i in (1..len).rev() {
                    seq[i] = sets[(x % n as u64) as usize];
                    x /= n as u64;
                }
                for implicit in [false, true] {
                    match guard(|| check_store(&seq, implicit)) {
                        Ok(Ok((d, nz))) => {
                            la.insert(d);
                            if nz {
                                ln.insert(d);
                            }
                        }
                        Ok(Err((id, details))) => run.violation(&id, &details, json!({"kind":"builder","implicit":implicit,"seq":ds_json(&seq)})),
                        Err(p) => run.violation(&format!("VariationStoreBuilder panic: {} in {}", p.kind(), p.site()), &format!("{} for {:?}", p.message, seq), json!({"kind":"builder","implicit":implicit,"seq":ds_json(&seq)})),
                    }
                }
            }
            all.lock().unwrap().extend(la);
            non.lock().unwrap().extend(ln);
        });
        run.evals(total * 2);
        run.trans(total * 2 * (len as u64 + 2));
        run.count(&format!("a2.stores_{nr}regions_len{len}"), total * 2);
        let (a, nn) = (all.into_inner().unwrap(), non.into_inner().unwrap());
        run.observe_many(&a, &nn);
    }
}

/// region k of the wide family: axis 0 tent (0, peak_k, 1)
fn wide_region(k: usize) -> Vec<(i16, i16, i16)> {
    vec![(0, 40 * (k as i16 + 1), ONE), (0, 0, 0)]
}

/// rows that mention `width` distinct regions each; returns Err((identity, details)) like check_store.
/// `Ok(None)` = the builder or the compiler refused the input (an error, not wrong rows).
fn check_wide(width: usize, rows: usize, implicit: bool) -> Result<Option<u64>, (String, String)> {
    let mode = if implicit { "implicit indices" } else { "de-duplicating" };
    let mut b = if implicit { VariationStoreBuilder::new_with_implicit_indices(2) } else { VariationStoreBuilder::new(2) };
    let delta_of = |r: usize, k: usize| -> i32 { [1, -1, 127, -129, 300, 40000][(r + k) % 6] * (1 + (k % 3) as i32) };
    let mut ids = vec![];
    for r in 0..rows {
        let v: Vec<(VariationRegion, i32)> = (0..width)
            .map(|k| {
                let spec = wide_region(k);
                (
                    VariationRegion::new(spec.iter().map(|(s, p, e)| RegionAxisCoordinates::new(F2Dot14::from_bits(*s), F2Dot14::from_bits(*p), F2Dot14::from_bits(*e))).collect()),
                    delta_of(r, k),
                )
            })
            .collect();
        ids.push(b.add_deltas(v));
    }
    let (store, remap) = b.build();
    let bytes = match dump_table(&store) {
        Ok(b) => b,
        Err(_) => return Ok(None),
    };
    let rs = ReadStore::new(bytes);
    for r in 0..rows {
        let expect: BTreeMap<Vec<(i16, i16, i16)>, i32> = (0..width).map(|k| (wide_region(k), delta_of(r, k))).collect();
        let Some(vi) = remap.get(ids[r]) else {
            return Err((format!("VariationStoreBuilder ({mode}): temporary id has no final index [wide rows]"), format!("row {r} of {rows}, {width} regions")));
        };
        match rs.row_by_spec(vi.delta_set_outer_index, vi.delta_set_inner_index) {
            Ok(got) if got == expect => {}
            Ok(got) => {
                return Err((
                    format!("VariationStoreBuilder ({mode}): row addressed by the returned index differs from the input delta set [wide rows]"),
                    format!("{width} regions, row {r}: {} columns differ", got.iter().filter(|(k, v)| expect.get(*k) != Some(v)).count() + expect.len().saturating_sub(got.len())),
                ))
            }
            Err(e) => return Err((format!("VariationStoreBuilder ({mode}): returned index does not address a row [wide rows]"), format!("{width} regions, row {r}: {e}"))),
        }
    }
    Ok(Some(digest_of(&rs.bytes)))
}

fn builder_limits(run: &Run) {
    // wide rows: around 255/256 columns and beyond
    let widths = [254usize, 255, 256, 257, 300];
    run.bound("a3.limits", json!({"wide_rows": {"regions_per_row": widths, "rows": 3}, "implicit_mode_row_counts_past_u16": [65536, 70000], "expectation": "an error from the builder/compiler or correct rows; never a returned index that addresses other data"}));
    let jobs: Vec<(usize, bool)> = widths.iter().flat_map(|w| [(*w, false), (*w, true)]).collect();
    jobs.par_iter().for_each(|(w, implicit)| {
        run.eval();
        let case = json!({"kind":"builder_wide","width":w,"implicit":implicit});
        match guard(|| check_wide(*w, 3, *implicit)) {
            Ok(Ok(Some(d))) => run.observe(d, true),
            Ok(Ok(None)) => run.count("a3.wide_rows_refused_with_error", 1),
            Ok(Err((id, details))) => run.violation(&id, &details, case),
            Err(p) => {
                // a panic is a refusal only if it is the documented precondition; report it otherwise
                run.violation(&format!("VariationStoreBuilder panic: {} in {} [wide rows]", p.kind(), p.site()), &format!("{w} regions per row: {} at {}:{}", p.message, p.file, p.line), case)
            }
        }
    });
    run.count("a3.wide_row_stores", jobs.len() as u64);
    // more rows than a 16-bit inner index can address, implicit-index mode (one sub-table only)
    for count in [65536u32, 70000] {
        run.eval();
        let seq: Vec<DeltaSet> = (0..count).map(family_row).collect();
        let case = json!({"kind":"builder_family","count":count,"implicit":true});
        match guard(|| check_store(&seq, true)) {
            Ok(Ok((d, _))) => run.observe(d, true),
            Ok(Err((id, details))) => {
                if id.contains("does not compile") {
                    run.count("a3.too_many_rows_refused_with_error", 1);
                } else {
                    run.violation(&format!("{id} [more than 65535 rows]"), &format!("{count} rows in implicit-index mode: {details}"), case)
                }
            }
            // the implicit-index mode can address at most 65535 rows (one sub-table, inner index = item
            // number); `build` has no error channel and refuses with an assertion. A loud refusal is not
            // a wrong row, so it is counted, not reported.
            Err(p) if p.message.contains("split_off_back") || p.message.contains("at most u16::MAX") => {
                run.count("a3.too_many_rows_refused_by_assertion", 1);
                run.extra("a3.too_many_rows_refusal", json!(format!("{} at {}", p.message, p.site())));
            }
            Err(p) => run.violation(&format!("VariationStoreBuilder panic: {} in {} [more than 65535 rows]", p.kind(), p.site()), &format!("{count} rows: {} at {}:{}", p.message, p.file, p.line), case),
        }
    }
}

// ---------------------------------------------------------------------------
// (b2) compute_delta at arbitrary (non-dyadic) locations with an error bound
// ---------------------------------------------------------------------------

fn axis_points(axis: usize) -> Vec<i16> {
    let mut v: Vec<i32> = vec![-(ONE as i32), 0, ONE as i32, ONE as i32 / 3, -(ONE as i32) / 3, 2 * ONE as i32 / 3, 5461, 12345];
    for r in REGIONS.iter() {
        let (s, p, e) = r[axis];
        for c in [s, p, e] {
            v.extend([c as i32 - 1, c as i32, c as i32 + 1]);
        }
    }
    let mut out: Vec<i16> = v.into_iter().filter(|c| *c >= -(ONE as i32) && *c <= ONE as i32).map(|c| c as i16).collect();
    out.sort();
    out.dedup();
    out
}

/// |compute_delta - sum| <= sum_i |delta_i| * 2 axes * 2^-16 + 1/2.
/// Justification: the implementation rounds each region scalar to 16.16 after every axis (mul_div), i.e.
/// at most 2^-17 per axis and certainly less than 2^-16; the delta is multiplied by that scalar and the sum
/// is rounded once (1/2). Everything is compared in 2^40 fixed point (truncation error < 2^-37 in total).
fn check_bounded(row: &BTreeMap<usize, i32>, loc: &[i16; 2], got: i32) -> Result<(), String> {
    const SH: u32 = 40;
    let mut sum: i128 = 0; // exact sum * 2^40 (each term floored)
    let mut abs: i128 = 0;
    for (ri, delta) in row {
        let (n, d) = tent(&REGIONS[*ri], loc);
        sum += ((*delta as i128) * n << SH).div_euclid(d);
        abs += (*delta as i128).abs();
    }
    // bound * 2^40 = abs * 2 * 2^24 + 2^39, plus 8 units for the flooring above
    let bound = abs * 2 * (1i128 << (SH - 16)) + (1i128 << (SH - 1)) + 8;
    let diff = ((got as i128) << SH) - sum;
    if diff.abs() > bound {
        return Err(format!("compute_delta = {got}, exact sum = {:.6}, allowed error {:.6}", sum as f64 / (1u64 << SH) as f64, bound as f64 / (1u64 << SH) as f64));
    }
    Ok(())
}


// ---------------------------------------------------------------------------
// (b3) degenerate region axes: the specification says such an axis is ignored (contributes 1):
//   start < 0 < end with a non-zero peak; peak = 0; start > peak or peak > end.
// Plus start = peak = end. Evaluated everywhere, including outside [start, end], alone and mixed with
// an ordinary axis / an ordinary region; compute_delta against the exact reference and against
// compute_float_delta (two implementations of the same function).
// ---------------------------------------------------------------------------

fn degenerate_axes() -> Vec<(i16, i16, i16)> {
    let (h, q) = (ONE / 2, ONE / 4);
    vec![
        (-h, q, ONE),       // crosses zero, positive peak: ignored
        (-ONE, h, ONE),     // crosses zero: ignored
        (-h, -q, h),        // crosses zero, negative peak: ignored
        (-ONE, -ONE, ONE),  // crosses zero, peak at start: ignored
        (-q, ONE, ONE),     // crosses zero, peak at end: ignored
        (-ONE, 0, ONE),     // peak 0: ignored
        (0, 0, 0),          // peak 0: ignored
        (h, q, ONE),        // start > peak: ignored
        (0, ONE, h),        // peak > end: ignored
        (h, h, h),          // a single point
        (-h, -h, -h),       // a single point
        (ONE, ONE, ONE),    // a single point at the end of the axis
        (q, h, ONE),        // ordinary intermediate tent (control)
        (0, h, h),          // ordinary (control)
    ]
}

fn bounded_terms(terms: &[(RegionSpec, i32)], loc: &[i16; 2], got: i32) -> Result<f64, String> {
    const SH: u32 = 40;
    let mut sum: i128 = 0;
    let mut abs: i128 = 0;
    for (r, delta) in terms {
        let (n, d) = tent(r, loc);
        sum += ((*delta as i128) * n << SH).div_euclid(d);
        abs += (*delta as i128).abs();
    }
    let bound = abs * 2 * (1i128 << (SH - 16)) + (1i128 << (SH - 1)) + 8;
    let diff = ((got as i128) << SH) - sum;
    let exact = sum as f64 / (1u64 << SH) as f64;
    if diff.abs() > bound {
        return Err(format!("compute_delta = {got}, exact sum = {exact:.6}, allowed error {:.6}", bound as f64 / (1u64 << SH) as f64));
    }
    Ok(exact)
}

fn compute_delta_degenerate(run: &Run) {
    use read_fonts::tables::variations::FloatItemDeltaTarget;
    let axes0 = degenerate_axes();
    let axes1: Vec<(i16, i16, i16)> = vec![(0, 0, 0), (0, ONE, ONE), (-ONE / 2, ONE / 4, ONE), (ONE / 2, ONE / 2, ONE / 2)];
    let deltas = [1i32, -129, 32767, 100_000];
    let ordinary: RegionSpec = REGIONS[0];
    // rows: one degenerate region alone, and the same plus the ordinary region R0 with delta 1000
    let mut rows: Vec<Vec<(RegionSpec, i32)>> = vec![];
    for a0 in &axes0 {
        for a1 in &axes1 {
            for d in deltas {
                rows.push(vec![([*a0, *a1], d)]);
                if [*a0, *a1] != ordinary {
                    rows.push(vec![([*a0, *a1], d), (ordinary, 1000)]);
                }
                // the degenerate axis second
                rows.push(vec![([*a1, *a0], d)]);
            }
        }
    }
    rows.sort();
    rows.dedup();
    let mut pts: Vec<i32> = vec![];
    for c in [-(ONE as i32), -3 * (ONE as i32) / 4, -(ONE as i32) / 2, -(ONE as i32) / 4, 0, ONE as i32 / 8, ONE as i32 / 4, ONE as i32 / 2, 3 * (ONE as i32) / 4, ONE as i32] {
        pts.extend([c - 1, c, c + 1]);
    }
    let pts: Vec<i16> = pts.into_iter().filter(|c| *c >= -(ONE as i32) && *c <= ONE as i32).map(|c| c as i16).collect();
    run.bound(
        "b3.degenerate_region_axes",
        json!({"axis_specs_f2dot14_bits": axes0, "other_axis_specs": axes1, "deltas": deltas, "rows": rows.len(), "locations_per_axis_f2dot14_bits": pts,
               "oracles": ["compute_delta within sum|delta|*2*2^-16 + 1/2 of the exact specification value", "compute_delta within the same bound (+ f32 precision) of compute_float_delta"]}),
    );
    let mut b = VariationStoreBuilder::new(2);
    let ids: Vec<u32> = rows.iter().map(|row| b.add_deltas(row.iter().map(|(r, d)| (wregion(r), *d)).collect::<Vec<_>>())).collect();
    let (store, remap) = b.build();
    let bytes = match dump_table(&store) {
        Ok(b) => b,
        Err(e) => {
            run.machinery_error(&format!("degenerate-region store does not compile: {e:?}"));
            return;
        }
    };
    let all: Mutex<HashSet<u64>> = Mutex::new(HashSet::new());
    let non: Mutex<HashSet<u64>> = Mutex::new(HashSet::new());
    let ignored_outside = AtomicU64::new(0);
    (0..rows.len()).into_par_iter().for_each(|ri| {
        let ivs = read_fonts::tables::variations::ItemVariationStore::read(FontData::new(&bytes)).expect("store parses");
        let vi = remap.get(ids[ri]).expect("id resolves");
        let ix = read_fonts::tables::variations::DeltaSetIndex { outer: vi.delta_set_outer_index, inner: vi.delta_set_inner_index };
        let (mut la, mut ln) = (HashSet::new(), HashSet::new());
        for c0 in &pts {
            for c1 in &pts {
                let loc = [*c0, *c1];
                let coords = [F2Dot14::from_bits(*c0), F2Dot14::from_bits(*c1)];
                let case = json!({"kind":"compute_delta_degenerate","row":rows[ri].iter().map(|(r, d)| json!({"region": r, "delta": d})).collect::<Vec<_>>(),"loc":loc});
                let got = match guard(|| ivs.compute_delta(ix, &coords)) {
                    Ok(Ok(g)) => g,
                    Ok(Err(e)) => {
                        run.violation("ItemVariationStore::compute_delta fails on a built store", &format!("{e}"), case);
                        continue;
                    }
                    Err(p) => {
                        run.violation(&format!("ItemVariationStore::compute_delta panic: {}", p.kind()), &p.message, case);
                        continue;
                    }
                };
                // which class of axis is involved (for a specific identity)
                let class = |r: &RegionSpec| -> &'static str {
                    for (s, p, e) in r.iter() {
                        if s > p || p > e {
                            return "axis with start > peak or peak > end";
                        }
                        if *s < 0 && *e > 0 && *p != 0 {
                            return "axis with start < 0 < end and a non-zero peak";
                        }
                    }
                    for (s, p, e) in r.iter() {
                        if s == p && p == e && *p != 0 {
                            return "axis with start = peak = end";
                        }
                    }
                    "ordinary or zero-peak axes"
                };
                let cls = class(&rows[ri][0].0);
                match bounded_terms(&rows[ri], &loc, got) {
                    Ok(_) => {}
                    Err(why) => run.violation(
                        &format!("ItemVariationStore::compute_delta differs from the specification's region scalar ({cls})"),
                        &format!("row {:?} at F2Dot14 bits ({c0}, {c1}): {why}", rows[ri]),
                        case.clone(),
                    ),
                }
                // an ignored axis evaluated outside its [start, end]
                if rows[ri][0].0.iter().enumerate().any(|(ax, (s, p, e))| (s > p || p > e || (*s < 0 && *e > 0 && *p != 0)) && (loc[ax] < *s.min(e) || loc[ax] > *e.max(s))) {
                    ignored_outside.fetch_add(1, Ordering::Relaxed);
                }
                // the float path
                match guard(|| ivs.compute_float_delta(ix, &coords).map(|d| font_types::FWord::new(0).apply_float_delta(d))) {
                    Ok(Ok(f)) => {
                        let abs: f64 = rows[ri].iter().map(|(_, d)| (*d as f64).abs()).sum();
                        let tol = abs * 2.0 / 65536.0 + 0.5 + abs * 4.0 / 16_777_216.0 + 0.01;
                        if (got as f64 - f as f64).abs() > tol {
                            run.violation(
                                &format!("compute_delta and compute_float_delta disagree ({cls})"),
                                &format!("row {:?} at F2Dot14 bits ({c0}, {c1}): compute_delta = {got}, compute_float_delta = {f}, tolerance {tol:.4}", rows[ri]),
                                case.clone(),
                            );
                        }
                    }
                    Ok(Err(e)) => run.violation("ItemVariationStore::compute_float_delta fails on a built store", &format!("{e}"), case.clone()),
                    Err(p) => run.violation(&format!("ItemVariationStore::compute_float_delta panic: {}", p.kind()), &p.message, case.clone()),
                }
                let d = digest_of(&("b3", ri, loc, got));
                la.insert(d);
                if got != 0 {
                    ln.insert(d);
                }
            }
        }
        all.lock().unwrap().extend(la);
        non.lock().unwrap().extend(ln);
    });
    let n = (rows.len() * pts.len() * pts.len()) as u64;
    run.evals(n);
    run.trans(2 * n);
    run.count("b3.evaluations", n);
    run.count("b3.ignored_axis_evaluated_outside_its_start_end", ignored_outside.load(Ordering::Relaxed));
    let (a, nn) = (all.into_inner().unwrap(), non.into_inner().unwrap());
    run.count("b3.distinct_nonzero_results", nn.len() as u64);
    run.observe_many(&a, &nn);
}

fn compute_delta_bounded(run: &Run) {
    let alpha: Vec<Option<i32>> = vec![Some(0), Some(1), Some(-129), Some(32767), Some(0x3FFF_FFFF)];
    let rows = delta_sets_n(&alpha, NR);
    let (p0, p1) = (axis_points(0), axis_points(1));
    run.bound(
        "b2.compute_delta_bounded",
        json!({"rows": rows.len(), "regions": NR, "per_region_delta_alphabet": alpha, "axis0_locations_f2dot14_bits": p0, "axis1_locations_f2dot14_bits": p1,
               "error_bound": "sum |delta_i| * 2 * 2^-16 + 1/2", "note": "locations include one F2Dot14 ulp around every region start/peak/end"}),
    );
    let mut b = VariationStoreBuilder::new(2);
    let ids: Vec<u32> = rows.iter().map(|ds| b.add_deltas(ds.iter().enumerate().filter_map(|(i, d)| d.map(|d| (wregion(&REGIONS[i]), d))).collect::<Vec<_>>())).collect();
    let (store, remap) = b.build();
    let bytes = match dump_table(&store) {
        Ok(b) => b,
        Err(e) => {
            run.machinery_error(&format!("bounded compute_delta store does not compile: {e:?}"));
            return;
        }
    };
    let skipped = AtomicU64::new(0);
    let exact_hits = AtomicU64::new(0);
    let all: Mutex<HashSet<u64>> = Mutex::new(HashSet::new());
    let non: Mutex<HashSet<u64>> = Mutex::new(HashSet::new());
    (0..rows.len()).into_par_iter().for_each(|ri| {
        let ivs = read_fonts::tables::variations::ItemVariationStore::read(FontData::new(&bytes)).expect("store parses");
        let vi = remap.get(ids[ri]).expect("id resolves");
        let ix = read_fonts::tables::variations::DeltaSetIndex { outer: vi.delta_set_outer_index, inner: vi.delta_set_inner_index };
        let row = nonzero(&rows[ri]);
        let (mut la, mut ln) = (HashSet::new(), HashSet::new());
        for c0 in &p0 {
            for c1 in &p1 {
                let loc = [*c0, *c1];
                let Some(exact) = exact_delta(&row, &loc) else {
                    skipped.fetch_add(1, Ordering::Relaxed);
                    continue;
                };
                let case = json!({"kind":"compute_delta_bounded","row":ds_json(&[rows[ri]]),"loc":loc});
                match guard(|| ivs.compute_delta(ix, &[F2Dot14::from_bits(*c0), F2Dot14::from_bits(*c1)])) {
                    Ok(Ok(got)) => {
                        if got == exact {
                            exact_hits.fetch_add(1, Ordering::Relaxed);
                        }
                        if let Err(why) = check_bounded(&row, &loc, got) {
                            run.violation(
                                "ItemVariationStore::compute_delta outside the error bound of the exact tent sum",
                                &format!("row {:?} at F2Dot14 bits ({}, {}): {why}", rows[ri], c0, c1),
                                case,
                            );
                        }
                        let d = digest_of(&("b2", ri, loc, got));
                        la.insert(d);
                        if got != 0 {
                            ln.insert(d);
                        }
                    }
                    Ok(Err(e)) => run.violation("ItemVariationStore::compute_delta fails on a built store", &format!("{e}"), case),
                    Err(p) => run.violation(&format!("ItemVariationStore::compute_delta panic: {}", p.kind()), &p.message, case),
                }
            }
        }
        all.lock().unwrap().extend(la);
        non.lock().unwrap().extend(ln);
    });
    let n = (rows.len() * p0.len() * p1.len()) as u64;
    run.evals(n);
    run.trans(n);
    run.count("b2.evaluations", n);
    run.count("b2.equal_to_exactly_rounded_sum", exact_hits.load(Ordering::Relaxed));
    run.count("b2.skipped_exact_result_outside_i32", skipped.load(Ordering::Relaxed));
    let (a, nn) = (all.into_inner().unwrap(), non.into_inner().unwrap());
    run.observe_many(&a, &nn);
}

// ---------------------------------------------------------------------------
// body / replay
// ---------------------------------------------------------------------------

fn body(run: &Run, replay: Option<&Value>) {
    run.rule("a case is one built-and-reread store with every returned index resolved (a), one compute_delta evaluation (b), one normalisation / segment-map / location evaluation (c), one glyph-metric query (d); distinct = distinct compiled store bytes / distinct (input, result) digests; non-trivial = the store has a non-zero delta / the result is non-zero");
    run.assume("tent function and final rounding as in the OpenType specification and the documented implementation: per axis (c-start)/(peak-start) or (end-c)/(end-peak), regions with peak 0 or invalid ordering ignored, result floor(sum + 1/2); locations are dyadic so every scalar is exact in 16.16");
    run.assume("normalisation reference: exact rational (v-default)/(max-default) resp. -(default-v)/(default-min) after clamping, compared with a tolerance of one 16.16 unit in the interior and exactly at min/default/max; F2Dot14 conversion is round-to-nearest ((bits+2)>>2)");
    if let Some(case) = replay {
        replay_case(run, case);
        return;
    }
    builder_sequences(run);
    builder_families(run);
    builder_more_regions(run);
    builder_limits(run);
    gaps::builder_extra(run);
    gaps::builder_uniform(run);
    eprintln!("[c11] (a) done at {:.1}s", run.elapsed());
    compute_delta_family(run);
    compute_delta_bounded(run);
    compute_delta_degenerate(run);
    gaps::raw_store_family(run);
    eprintln!("[c11] (b) done at {:.1}s", run.elapsed());
    norm::normalisation(run);
    eprintln!("[c11] (c) done at {:.1}s", run.elapsed());
    norm::glyph_metrics(run);
    norm2::gvar_metrics(run);
    norm2::multi_axis(run);
    norm2::avar2_extremes(run);
    norm2::axis_normalize(run);
    norm2::mvar_metrics(run);
    norm2::index_map_family(run);
    norm2::metric_var_tables(run);
    gaps::index_map_extra(run);
    gaps::normalized_contract(run);
    gaps::avar2_variants(run);
    gaps::skrifa_routes(run);
    gaps::metrics_scaled(run);
    gaps::mvar_search(run);
    gaps2::identity_axis(run);
    gaps2::segment_maps5(run);
    gaps2::gvar_intermediate(run);
    eprintln!("[c11] (d) done at {:.1}s", run.elapsed());
}

fn replay_case(run: &Run, case: &Value) {
    match case["kind"].as_str().unwrap_or("") {
        "builder" => {
            let seq = ds_from_json(&case["seq"]);
            let implicit = case["implicit"].as_bool().unwrap_or(false);
            match guard(|| check_store(&seq, implicit)) {
                Ok(Ok(_)) => println!("replay: store passes"),
                Ok(Err((id, d))) => run.violation(&id, &d, case.clone()),
                Err(p) => run.violation(&format!("VariationStoreBuilder panic: {} in {}", p.kind(), p.site()), &p.message, case.clone()),
            }
        }
        "builder_family" => {
            let count = case["count"].as_u64().unwrap_or(0) as u32;
            let implicit = case["implicit"].as_bool().unwrap_or(false);
            let seq: Vec<DeltaSet> = (0..count).map(family_row).collect();
            match guard(|| check_store(&seq, implicit)) {
                Ok(Ok(_)) => println!("replay: family passes"),
                Ok(Err((id, d))) => run.violation(&format!("{id} [row-count family]"), &d, case.clone()),
                Err(p) => run.violation(&format!("VariationStoreBuilder panic: {} in {}", p.kind(), p.site()), &p.message, case.clone()),
            }
        }
        "builder_wide" => match guard(|| check_wide(case["width"].as_u64().unwrap_or(0) as usize, 3, case["implicit"].as_bool().unwrap_or(false))) {
            Ok(Ok(r)) => println!("replay: {:?}", r.map(|_| "correct rows")),
            Ok(Err((id, d))) => run.violation(&id, &d, case.clone()),
            Err(p) => run.violation(&format!("VariationStoreBuilder panic: {} in {} [wide rows]", p.kind(), p.site()), &p.message, case.clone()),
        },
        "compute_delta_bounded" => {
            let rows = ds_from_json(&case["row"]);
            let loc = [case["loc"][0].as_i64().unwrap_or(0) as i16, case["loc"][1].as_i64().unwrap_or(0) as i16];
            let mut b = VariationStoreBuilder::new(2);
            let id = b.add_deltas(rows[0].iter().enumerate().filter_map(|(i, d)| d.map(|d| (wregion(&REGIONS[i]), d))).collect::<Vec<_>>());
            let (store, remap) = b.build();
            let bytes = dump_table(&store).expect("compiles");
            let ivs = read_fonts::tables::variations::ItemVariationStore::read(FontData::new(&bytes)).expect("parses");
            let vi = remap.get(id).expect("resolves");
            let got = ivs.compute_delta(
                read_fonts::tables::variations::DeltaSetIndex { outer: vi.delta_set_outer_index, inner: vi.delta_set_inner_index },
                &[F2Dot14::from_bits(loc[0]), F2Dot14::from_bits(loc[1])],
            );
            println!("replay: compute_delta {:?}", got);
            if let Ok(g) = got {
                if let Err(why) = check_bounded(&nonzero(&rows[0]), &loc, g) {
                    run.violation("ItemVariationStore::compute_delta outside the error bound of the exact tent sum", &why, case.clone());
                }
            }
        }
        "compute_delta_degenerate" => compute_delta_degenerate(run),
        "compute_delta" => {
            let rows = ds_from_json(&case["row"]);
            let loc = [case["loc"][0].as_i64().unwrap_or(0) as i16, case["loc"][1].as_i64().unwrap_or(0) as i16];
            let implicit = case["implicit"].as_bool().unwrap_or(false);
            let mut b = if implicit { VariationStoreBuilder::new_with_implicit_indices(2) } else { VariationStoreBuilder::new(2) };
            let id = b.add_deltas(rows[0].iter().enumerate().filter_map(|(i, d)| d.map(|d| (wregion(&REGIONS[i]), d))).collect::<Vec<_>>());
            let (store, remap) = b.build();
            let bytes = dump_table(&store).expect("compiles");
            let ivs = read_fonts::tables::variations::ItemVariationStore::read(FontData::new(&bytes)).expect("parses");
            let vi = remap.get(id).expect("resolves");
            let got = ivs.compute_delta(
                read_fonts::tables::variations::DeltaSetIndex { outer: vi.delta_set_outer_index, inner: vi.delta_set_inner_index },
                &[F2Dot14::from_bits(loc[0]), F2Dot14::from_bits(loc[1])],
            );
            let expect = exact_delta(&nonzero(&rows[0]), &loc);
            println!("replay: compute_delta {:?} expected {:?}", got, expect);
            if got.ok() != expect {
                run.violation("ItemVariationStore::compute_delta differs from the exact tent sum", "replayed", case.clone());
            }
        }
        "builder_o" | "builder_uniform" | "raw_store" | "index_map_tail" | "norm_contract" | "norm_contract_same_tag" | "norm_avar2_variant" | "norm_avar2_many_axes" | "skrifa_filter" | "skrifa_instance" | "skrifa_no_fvar" | "metrics_scaled" | "mvar_subset" | "mvar_skrifa" => gaps::replay(run, case),
        "identity_axis" | "metrics_gvar_intermediate" => gaps2::replay(run, case),
        "metrics_gvar" | "norm_two_axes" | "metrics_mvar" | "index_map" | "axis_normalize" | "metric_var_table" | "norm_avar2_extremes" | "norm_avar2_fixture" => norm2::replay(run, case),
        k if k.starts_with("norm") || k.starts_with("metrics") || k.starts_with("segment") || k.starts_with("location") => norm::replay(run, case),
        k => println!("replay: unknown kind {k}"),
    }
    let _ = GlyphId::new(0);
}
