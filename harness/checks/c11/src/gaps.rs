//! Round-11 audit families (see AUDIT.md). Each closes a site that the earlier families reached only
//! on one side of a boundary, only through the code under test on both ends, or not at all.
//!
//! (a4) builder: delta alphabet with the negative type limits (-128, -32768, i32::MIN), regions handed
//!      over in descending order inside one call; (a5) more than 65 535 rows of ONE shape (the only way
//!      to reach the sub-table split) with every row resolved.
//! (b4) stores encoded by the harness' own byte codec (non-canonical wordDeltaCount, LONG_WORDS with
//!      any word count, permuted region indexes, three axes): `delta_set`, `compute_delta`,
//!      `compute_float_delta`, coordinate slices shorter/longer than the axis count, the
//!      no-variation index.
//! (f2) DeltaSetIndexMap: entry counts on both sides of the format 0/1 switch, trailing runs of equal
//!      entries (trimmed by the writer, re-expanded by the reader's "last entry" rule), look-ups past
//!      the end, bytes decoded by the harness.
//! (c7) `Fvar::user_to_normalized` contract: stale output buffer, omitted axes, repeated and unknown
//!      tags, two axes with one tag, output slices shorter/longer than the axis list.
//! (c8) avar 2 without an index map, with a truncated and a swapped one; 63/64 axes (the scratch limit).
//! (c9) skrifa `AxisCollection::filter`, `NamedInstance::location`, fonts without fvar.
//! (d3) scaled `GlyphMetrics` (base + delta, then scaled). (e2) `Mvar::metric_delta` for every subset
//!      of nine tags (every binary-search position), and the underline/strikeout tags through skrifa.

use super::raw::{self, RawData, RawStore};
use super::{check_store_o, delta_sets, ds_json, DeltaSet, ReadStore, NR, REGIONS};
use font_types::{F2Dot14, FWord, Fixed, GlyphId, MajorMinor, NameId, Tag, UfWord};
use rayon::prelude::*;
use read_fonts::{FontData, FontRead, FontRef, TableProvider};
use serde_json::{json, Value};
use skrifa::MetadataProvider;
use std::collections::{BTreeMap, HashSet};
use std::sync::atomic::{AtomicU64, Ordering};
use std::sync::Mutex;
use vcore::*;
use write_fonts::dump_table;
use write_fonts::tables::variations::ivs_builder::VariationStoreBuilder;
use write_fonts::tables::variations::{DeltaSetIndexMap, RegionAxisCoordinates, VariationRegion};

const ONE: i16 = 0x4000;

fn f214(b: i16) -> F2Dot14 {
    F2Dot14::from_bits(b)
}

fn wregion_n(r: &[(i16, i16, i16)]) -> VariationRegion {
    VariationRegion::new(r.iter().map(|(s, p, e)| RegionAxisCoordinates::new(f214(*s), f214(*p), f214(*e))).collect())
}

// ---------------------------------------------------------------------------
// (a4) builder: negative type limits, descending region order
// ---------------------------------------------------------------------------

pub fn builder_extra(run: &Run) {
    let ext: Vec<Option<i32>> = vec![
        None, Some(0), Some(1), Some(-1), Some(127), Some(-128), Some(128), Some(-129), Some(32767), Some(-32768), Some(32768), Some(-32769), Some(0x7FFF_FFFF), Some(i32::MIN),
    ];
    let ext2: Vec<Option<i32>> = vec![None, Some(127), Some(-128), Some(-32768), Some(32768), Some(i32::MIN)];
    run.bound(
        "a4.builder_type_limits",
        json!({"len1_alphabet": ext, "len2_alphabet": ext2, "regions": 3, "modes": ["de-duplicating", "implicit indices"],
               "pair_order_inside_one_add_deltas_call": ["ascending region / every second set descending", "every set descending"]}),
    );
    let all: Mutex<HashSet<u64>> = Mutex::new(HashSet::new());
    let n = AtomicU64::new(0);
    let s1 = delta_sets(&ext);
    let s2 = delta_sets(&ext2);
    let mut seqs: Vec<Vec<DeltaSet>> = s1.iter().map(|a| vec![*a]).collect();
    for a in &s2 {
        for b in &s2 {
            seqs.push(vec![*a, *b]);
        }
    }
    seqs.par_iter().for_each(|seq| {
        let mut la = HashSet::new();
        for implicit in [false, true] {
            for rev_all in [false, true] {
                n.fetch_add(1, Ordering::Relaxed);
                let case = json!({"kind":"builder_o","implicit":implicit,"rev_all":rev_all,"seq":ds_json(seq)});
                match guard(|| check_store_o(seq, implicit, rev_all)) {
                    Ok(Ok((d, _))) => {
                        la.insert(d);
                    }
                    Ok(Err((id, details))) => run.violation(&id, &details, case),
                    Err(p) => run.violation(&format!("VariationStoreBuilder panic: {} in {}", p.kind(), p.site()), &format!("{} for {:?}", p.message, seq), case),
                }
            }
        }
        all.lock().unwrap().extend(la);
    });
    let n = n.load(Ordering::Relaxed);
    run.evals(n);
    run.trans(n * 3);
    run.count("a4.stores", n);
    let a = all.into_inner().unwrap();
    run.count("a4.distinct_compiled_stores", a.len() as u64);
    run.observe_many(&a, &a);
}

// ---------------------------------------------------------------------------
// (a5) many rows of one shape: the sub-table split at 65 535 items
// ---------------------------------------------------------------------------

fn uniform_row(i: u32) -> DeltaSet {
    // both columns need 16 bits, all rows distinct
    let mut ds: DeltaSet = [None; NR];
    ds[0] = Some(128 + (i % 30000) as i32);
    ds[1] = Some(-(300 + (i / 30000) as i32));
    ds
}

/// Ok((digest, sub-tables, largest item count))
pub fn check_uniform(count: u32, implicit: bool) -> Result<(u64, usize, usize), (String, String)> {
    let mode = if implicit { "implicit indices" } else { "de-duplicating" };
    let mut b = if implicit { VariationStoreBuilder::new_with_implicit_indices(2) } else { VariationStoreBuilder::new(2) };
    let ids: Vec<u32> = (0..count).map(|i| b.add_deltas(uniform_row(i).iter().enumerate().filter_map(|(k, d)| d.map(|d| (super::wregion(&REGIONS[k]), d))).collect::<Vec<_>>())).collect();
    let (store, remap) = b.build();
    let bytes = dump_table(&store).map_err(|e| (format!("VariationStoreBuilder ({mode}): built store does not compile [one shape, many rows]"), format!("{count} rows: {e:?}")))?;
    let rs = ReadStore::new(bytes);
    let mut seen: HashSet<(u16, u16)> = HashSet::new();
    for i in 0..count {
        let expect = super::nonzero(&uniform_row(i));
        let Some(vi) = remap.get(ids[i as usize]) else {
            return Err((format!("VariationStoreBuilder ({mode}): temporary id has no final index [one shape, many rows]"), format!("row {i} of {count}")));
        };
        if !seen.insert((vi.delta_set_outer_index, vi.delta_set_inner_index)) {
            return Err((format!("VariationStoreBuilder ({mode}): two distinct delta sets share one final index [one shape, many rows]"), format!("row {i} of {count} -> ({}, {})", vi.delta_set_outer_index, vi.delta_set_inner_index)));
        }
        match rs.row(vi.delta_set_outer_index, vi.delta_set_inner_index) {
            Ok(got) if got == expect => {}
            Ok(got) => {
                return Err((
                    format!("VariationStoreBuilder ({mode}): row addressed by the returned index differs from the input delta set [one shape, many rows]"),
                    format!("row {i} of {count} -> ({}, {}): expected {expect:?}, stored {got:?}", vi.delta_set_outer_index, vi.delta_set_inner_index),
                ))
            }
            Err(e) => {
                return Err((
                    format!("VariationStoreBuilder ({mode}): returned index does not address a row [one shape, many rows]"),
                    format!("row {i} of {count} -> ({}, {}): {e}", vi.delta_set_outer_index, vi.delta_set_inner_index),
                ))
            }
        }
    }
    let (subs, largest) = match &rs.raw {
        Ok(r) => (r.subtables.len(), r.subtables.iter().flatten().map(|d| d.rows.len()).max().unwrap_or(0)),
        Err(_) => (0, 0),
    };
    Ok((digest_of(&rs.bytes), subs, largest))
}

pub fn builder_uniform(run: &Run) {
    let counts: Vec<u32> = run.tier.pick(vec![65534, 65535, 65536, 65537], vec![65534, 65535, 65536, 65537, 131070, 131071, 131072]);
    let jobs: Vec<(u32, bool)> = counts.iter().flat_map(|c| [(*c, false), (*c, true)]).filter(|(c, imp)| !*imp || *c <= 65535).collect();
    run.bound("a5.one_shape_row_counts", json!({"row_counts": counts, "implicit_mode_only_up_to": 65535, "shape": "two 16-bit columns, all rows distinct"}));
    let split = AtomicU64::new(0);
    let full = AtomicU64::new(0);
    jobs.par_iter().for_each(|(count, implicit)| {
        run.eval();
        run.trans(*count as u64);
        let case = json!({"kind":"builder_uniform","count":count,"implicit":implicit});
        match guard(|| check_uniform(*count, *implicit)) {
            Ok(Ok((d, subs, largest))) => {
                run.observe(d, true);
                if subs > 1 {
                    split.fetch_add(1, Ordering::Relaxed);
                }
                if largest == 0xFFFF {
                    full.fetch_add(1, Ordering::Relaxed);
                }
            }
            Ok(Err((id, details))) => run.violation(&id, &details, case),
            Err(p) => run.violation(&format!("VariationStoreBuilder panic: {} in {} [one shape, many rows]", p.kind(), p.site()), &format!("{count} rows, implicit={implicit}: {} at {}:{}", p.message, p.file, p.line), case),
        }
    });
    run.count("a5.stores", jobs.len() as u64);
    run.count("a5.stores_split_into_several_subtables", split.load(Ordering::Relaxed));
    run.count("a5.stores_with_a_full_65535_item_subtable", full.load(Ordering::Relaxed));
}

// ---------------------------------------------------------------------------
// (b4) raw-encoded stores through the reader
// ---------------------------------------------------------------------------

fn raw_regions() -> Vec<raw::RawRegion> {
    let (h, q, z) = (ONE / 2, ONE / 4, (0i16, 0i16, 0i16));
    vec![
        vec![(0, ONE, ONE), z, z],
        vec![z, (-ONE, -ONE, 0), z],
        vec![(0, h, ONE), z, (q, h, ONE)],
        vec![(0, ONE, ONE), (0, ONE, ONE), (0, ONE, ONE)],
        vec![(-ONE, -h, 0), z, z],
    ]
}

/// every ordered selection of at most 3 distinct regions out of 5, plus three longer lists
fn index_lists() -> Vec<Vec<u16>> {
    let mut out: Vec<Vec<u16>> = vec![vec![]];
    for a in 0..5u16 {
        out.push(vec![a]);
        for b in 0..5u16 {
            if b == a {
                continue;
            }
            out.push(vec![a, b]);
            for c in 0..5u16 {
                if c != a && c != b {
                    out.push(vec![a, b, c]);
                }
            }
        }
    }
    out.extend([vec![2, 0, 3, 1], vec![0, 1, 2, 3, 4], vec![4, 3, 2, 1, 0]]);
    out
}

const V8: [i32; 5] = [127, -128, 1, 0, -1];
const V16: [i32; 5] = [32767, -32768, 128, -129, 0];
const V32: [i32; 5] = [i32::MAX, i32::MIN, 32768, -32769, 0];

fn raw_config_store(list: &[u16], words: usize, long: bool) -> RawStore {
    let k = list.len();
    let rows: Vec<Vec<i32>> = (0..5)
        .map(|r| {
            (0..k)
                .map(|c| {
                    let src = match (c < words, long) {
                        (true, true) => &V32,
                        (true, false) | (false, true) => &V16,
                        (false, false) => &V8,
                    };
                    src[(r + c) % 5]
                })
                .collect()
        })
        .collect();
    RawStore {
        axis_count: 3,
        regions: raw_regions(),
        subtables: vec![
            Some(RawData { word_delta_count: 0, region_indexes: vec![0], rows: vec![vec![1], vec![2]] }),
            Some(RawData { word_delta_count: words as u16 | if long { 0x8000 } else { 0 }, region_indexes: list.to_vec(), rows }),
            None,
        ],
    }
}

fn check_raw_store(list: &[u16], words: usize, long: bool) -> Result<(u64, u64), (String, String)> {
    use read_fonts::tables::variations::{DeltaSetIndex, FloatItemDeltaTarget, ItemVariationStore};
    let st = raw_config_store(list, words, long);
    let bytes = raw::encode_store(&st);
    // the codec must at least invert itself (machinery gate)
    if raw::decode_store(&bytes).as_ref() != Ok(&st) {
        return Err(("harness: raw store codec does not round-trip".into(), format!("{list:?} {words} {long}")));
    }
    let ctx = format!("hand-encoded store: region indexes {list:?}, wordDeltaCount {words}{}", if long { " | LONG_WORDS" } else { "" });
    let ivs = ItemVariationStore::read(FontData::new(&bytes)).map_err(|e| ("ItemVariationStore::read rejects a well-formed hand-encoded store".to_string(), format!("{ctx}: {e}")))?;
    let data = ivs.item_variation_data().get(1).ok_or_else(|| ("ItemVariationStore: sub-table 1 of 2 missing".to_string(), ctx.clone()))?.map_err(|e| ("ItemVariationStore: sub-table does not parse".to_string(), format!("{ctx}: {e}")))?;
    let rows = &st.subtables[1].as_ref().unwrap().rows;
    let regions = raw_regions();
    let a0 = [-ONE, -ONE / 2, 0, ONE / 4, ONE / 2, 3 * (ONE / 4), ONE];
    let a1 = [-ONE, -ONE / 2, 0, ONE];
    let a2 = [0, ONE / 4, ONE / 2, 3 * (ONE / 4), ONE];
    let mut h = Fnv::new();
    let mut n = 0u64;
    let kind = if long { "LONG_WORDS" } else { "16/8-bit" };
    for (inner, row) in rows.iter().enumerate() {
        let got: Vec<i32> = data.delta_set(inner as u16).collect();
        if &got != row {
            return Err((format!("ItemVariationData::delta_set differs from the encoded row ({kind} rows)"), format!("{ctx}: row {inner} encoded {row:?}, read {got:?}")));
        }
        let terms: Vec<(&[(i16, i16, i16)], i32)> = list.iter().zip(row.iter()).map(|(ri, d)| (&regions[*ri as usize][..], *d)).collect();
        let ix = DeltaSetIndex { outer: 1, inner: inner as u16 };
        for c0 in a0 {
            for c1 in a1 {
                for c2 in a2 {
                    let loc = [c0, c1, c2];
                    let Some(expect) = raw::exact_delta_n(&terms, &loc) else { continue };
                    // coordinate slices: exact length, one too many, and trailing zeros dropped
                    let mut slices: Vec<Vec<i16>> = vec![loc.to_vec(), vec![c0, c1, c2, 0x1234]];
                    if c2 == 0 {
                        slices.push(vec![c0, c1]);
                        if c1 == 0 {
                            slices.push(vec![c0]);
                        }
                    }
                    for sl in &slices {
                        n += 1;
                        let coords: Vec<F2Dot14> = sl.iter().map(|c| f214(*c)).collect();
                        let got = ivs.compute_delta(ix, &coords).map_err(|e| ("ItemVariationStore::compute_delta fails on a well-formed hand-encoded store".to_string(), format!("{ctx}: {e}")))?;
                        if got != expect {
                            let what = if sl.len() == 3 { "the exact tent sum" } else if sl.len() > 3 { "the exact tent sum when more coordinates than axes are passed" } else { "the exact tent sum when trailing (zero) coordinates are omitted" };
                            return Err((
                                format!("ItemVariationStore::compute_delta differs from {what} (hand-encoded store)"),
                                format!("{ctx}: row {inner} {row:?} at F2Dot14 bits {sl:?}: got {got}, expected {expect}"),
                            ));
                        }
                        h.i64(got as i64);
                    }
                    // float route: every scalar here is dyadic, so the f64 sum is exact
                    let coords: Vec<F2Dot14> = loc.iter().map(|c| f214(*c)).collect();
                    let f = ivs.compute_float_delta(ix, &coords).map(|d| FWord::new(0).apply_float_delta(d)).map_err(|e| ("ItemVariationStore::compute_float_delta fails on a well-formed hand-encoded store".to_string(), format!("{ctx}: {e}")))?;
                    let (mut sn, mut sd) = (0i128, 1i128);
                    for (r, d) in &terms {
                        let (tn, td) = raw::tent_n(r, &loc);
                        sn = sn * td + (*d as i128) * tn * sd;
                        sd *= td;
                    }
                    let exact = (sn as f64 / sd as f64) as f32;
                    if f != exact {
                        return Err((
                            "ItemVariationStore::compute_float_delta differs from the exact tent sum (hand-encoded store)".to_string(),
                            format!("{ctx}: row {inner} {row:?} at F2Dot14 bits {loc:?}: got {f}, expected {exact}"),
                        ));
                    }
                }
            }
        }
    }
    // a NULL sub-table offset holds no data: zero. The no-variation index 0xFFFF/0xFFFF and an outer index
    // past the list may be refused with an error (callers treat that as "no delta") but must not
    // produce a non-zero delta.
    let at = [f214(ONE / 2), f214(ONE), f214(ONE / 2)];
    for (o, i, what, must_be_ok) in [(2u16, 0u16, "a NULL sub-table offset", true), (0xFFFF, 0xFFFF, "the no-variation index 0xFFFF/0xFFFF", false), (3, 0, "an outer index equal to the sub-table count", false)] {
        n += 1;
        match ivs.compute_delta(DeltaSetIndex { outer: o, inner: i }, &at) {
            Ok(0) => {}
            Err(_) if !must_be_ok => {}
            other => return Err((format!("ItemVariationStore::compute_delta does not give 0 for {what}"), format!("{ctx}: {other:?}"))),
        }
    }
    Ok((h.finish(), n))
}

pub fn raw_store_family(run: &Run) {
    let lists = index_lists();
    let mut jobs: Vec<(Vec<u16>, usize, bool)> = vec![];
    for l in &lists {
        for w in 0..=l.len() {
            for long in [false, true] {
                jobs.push((l.clone(), w, long));
            }
        }
    }
    run.bound(
        "b4.hand_encoded_stores",
        json!({"axes": 3, "regions": raw_regions(), "region_index_lists": lists.len(), "word_delta_count": "0..=columns", "long_words": [false, true], "rows_per_store": 5,
               "column_values": {"8-bit": V8, "16-bit": V16, "32-bit": V32}, "locations": "7 x 4 x 5 dyadic", "stores": jobs.len(),
               "oracles": ["delta_set == encoded row", "compute_delta == floor(sum tent*delta + 1/2) exactly", "same with 1, 2 (trailing zeros dropped) and 4 coordinates", "compute_float_delta == exact sum", "0 for a NULL sub-table; 0 or an error for 0xFFFF/0xFFFF and an outer index past the list"]}),
    );
    let all: Mutex<HashSet<u64>> = Mutex::new(HashSet::new());
    let n = AtomicU64::new(0);
    jobs.par_iter().for_each(|(l, w, long)| {
        let case = json!({"kind":"raw_store","list":l,"words":w,"long":long});
        match guard(|| check_raw_store(l, *w, *long)) {
            Ok(Ok((d, k))) => {
                n.fetch_add(k, Ordering::Relaxed);
                all.lock().unwrap().insert(digest_of(&("raw", l, w, long, d)));
            }
            Ok(Err((id, details))) => {
                if id.starts_with("harness") {
                    run.machinery_error(&format!("{id}: {details}"));
                } else {
                    run.violation(&id, &details, case)
                }
            }
            Err(p) => run.violation(&format!("ItemVariationStore reader panic: {} in {} (hand-encoded store)", p.kind(), p.site()), &p.message, case),
        }
    });
    let n = n.load(Ordering::Relaxed);
    run.evals(n);
    run.trans(n);
    run.count("b4.stores", jobs.len() as u64);
    run.count("b4.evaluations", n);
    let a = all.into_inner().unwrap();
    run.observe_many(&a, &a);
}

// ---------------------------------------------------------------------------
// (f2) DeltaSetIndexMap: counts around 65 535/65 536, trailing runs, look-ups past the end
// ---------------------------------------------------------------------------

fn check_index_map_tail(ib: u32, ob: u32, count: usize, tail: usize) -> Result<u64, (String, String)> {
    let pairs = super::norm2::index_pairs(ib, ob);
    let mut entries: Vec<(u16, u16)> = (0..count).map(|k| pairs[k % pairs.len()]).collect();
    let t = tail.min(count);
    let fill = entries[count - t];
    for e in entries.iter_mut().skip(count - t) {
        *e = fill;
    }
    let ctx = format!("{count} entries (inner {ib} bits, outer {ob} bits), the last {t} equal");
    let map: DeltaSetIndexMap = entries.iter().map(|(o, i)| ((*o as u32) << 16) | *i as u32).collect();
    let bytes = dump_table(&map).map_err(|e| ("DeltaSetIndexMap does not compile".to_string(), format!("{ctx}: {e:?}")))?;
    // the bytes, decoded by the harness: entry k, or the last entry when k >= mapCount
    let (fmt, _, dec) = raw::decode_index_map(&bytes).map_err(|e| ("DeltaSetIndexMap written by write-fonts does not decode per the specification".to_string(), format!("{ctx}: {e}")))?;
    if dec.is_empty() {
        return Err(("DeltaSetIndexMap written by write-fonts has a zero mapCount for a non-empty mapping".to_string(), format!("{ctx}: format {fmt}")));
    }
    for (k, (o, i)) in entries.iter().enumerate() {
        let d = dec[k.min(dec.len() - 1)];
        if d != (*o as u32, *i as u32) {
            return Err((
                "DeltaSetIndexMap written by write-fonts decodes (per the specification) to a different (outer, inner)".to_string(),
                format!("{ctx}: format {fmt}, mapCount {}, entry {k}: wrote ({o}, {i}), bytes say {:?}", dec.len(), d),
            ));
        }
    }
    let m = read_fonts::tables::variations::DeltaSetIndexMap::read(FontData::new(&bytes)).map_err(|e| ("DeltaSetIndexMap written by write-fonts does not parse".to_string(), format!("{ctx}: {e}")))?;
    let mut h = Fnv::new();
    let last = entries[count - 1];
    let probe = (0..count as u32).map(|k| (k, entries[k as usize])).chain([(count as u32, last), (count as u32 + 1, last), (u32::MAX, last)]);
    for (k, (o, i)) in probe {
        match m.get(k) {
            Ok(ix) if ix.outer == o && ix.inner == i => h.u64(((o as u64) << 16) | i as u64),
            Ok(ix) => {
                let what = if k as usize >= count { "past the end (the last entry applies)" } else if k as usize >= dec.len() { "in the trimmed tail (the last entry applies)" } else { "inside the map" };
                return Err((format!("DeltaSetIndexMap::get returns a different (outer, inner) for an index {what}"), format!("{ctx}: mapCount {}, index {k}: expected ({o}, {i}) read ({}, {})", dec.len(), ix.outer, ix.inner)));
            }
            Err(e) => return Err(("DeltaSetIndexMap::get fails on a map built by write-fonts".to_string(), format!("{ctx}: index {k}: {e}"))),
        }
    }
    Ok(h.finish())
}

pub fn index_map_extra(run: &Run) {
    let counts = [1usize, 2, 3, 255, 256, 257, 65534, 65535, 65536, 65537, 65540];
    let tails = [1usize, 2, 5, usize::MAX];
    let widths = [(1u32, 1u32), (8, 8), (9, 16), (16, 16)];
    run.bound("f2.index_map_counts_and_tails", json!({"entry_counts": counts, "trailing_equal_entries": [1, 2, 5, "all"], "inner_outer_bits": widths, "lookups": "every index, count, count+1, u32::MAX", "oracles": ["bytes decoded by the harness", "read-fonts DeltaSetIndexMap::get"]}));
    let mut jobs = vec![];
    for c in counts {
        for t in tails {
            for w in widths {
                jobs.push((c, t, w));
            }
        }
    }
    let all: Mutex<HashSet<u64>> = Mutex::new(HashSet::new());
    jobs.par_iter().for_each(|(c, t, (ib, ob))| {
        run.eval();
        run.trans(*c as u64 + 3);
        let case = json!({"kind":"index_map_tail","inner_bits":ib,"outer_bits":ob,"entries":c,"tail":(*t).min(*c)});
        match guard(|| check_index_map_tail(*ib, *ob, *c, *t)) {
            Ok(Ok(d)) => {
                all.lock().unwrap().insert(digest_of(&("imap2", c, t, ib, ob, d)));
            }
            Ok(Err((id, details))) => run.violation(&id, &details, case),
            Err(p) => run.violation(&format!("DeltaSetIndexMap builder panic: {} in {}", p.kind(), p.site()), &format!("{c} entries, tail {t}: {}", p.message), case),
        }
    });
    run.count("f2.index_maps", jobs.len() as u64);
    let a = all.into_inner().unwrap();
    run.observe_many(&a, &a);
}

// ---------------------------------------------------------------------------
// (c7) Fvar::user_to_normalized: the documented contract around the arithmetic
// ---------------------------------------------------------------------------

const TAG_A: Tag = Tag::new(b"wght");
const TAG_B: Tag = Tag::new(b"wdth");

fn same_tag_font() -> Vec<u8> {
    use write_fonts::tables::fvar::{AxisInstanceArrays, Fvar, VariationAxisRecord};
    let fx = |v: i32| Fixed::from_bits(v << 16);
    let fvar = Fvar::new(AxisInstanceArrays::new(
        vec![
            VariationAxisRecord::new(TAG_A, fx(100), fx(400), fx(900), 0, NameId::new(256)),
            VariationAxisRecord::new(TAG_B, fx(50), fx(100), fx(200), 0, NameId::new(257)),
            VariationAxisRecord::new(TAG_A, fx(0), fx(0), fx(1000), 0, NameId::new(258)),
        ],
        vec![],
    ));
    let mut b = write_fonts::FontBuilder::new();
    b.add_table(&fvar).unwrap();
    b.build()
}

fn u2n(font: &FontRef, settings: &[(Tag, i32)], buf: &mut [F2Dot14]) -> Vec<i16> {
    let fvar = font.fvar().expect("fvar");
    let avar = font.avar().ok();
    fvar.user_to_normalized(avar.as_ref(), settings.iter().map(|(t, v)| (*t, Fixed::from_bits(v << 16))), buf);
    buf.iter().map(|c| c.to_bits()).collect()
}

fn check_contract(avar1: bool, avar2: bool, a: i32, b: i32) -> Result<Vec<i16>, (String, String)> {
    let bytes = super::norm2::two_axis_font(avar1, avar2);
    let font = FontRef::new(&bytes).map_err(|e| ("harness: two-axis font".to_string(), format!("{e}")))?;
    let cfg = match (avar1, avar2) {
        (false, false) => "no avar",
        (true, false) => "avar 1",
        (false, true) => "avar 2",
        (true, true) => "avar 1 + 2",
    };
    let ctx = format!("two-axis font ({cfg}), wght {a}, wdth {b}");
    let junk = f214(0x1234);
    let zz = Tag::new(b"ZZZZ");
    let qq = Tag::new(b"aaaa");
    let other = 1000 - a;
    let base = u2n(&font, &[(TAG_A, a), (TAG_B, b)], &mut [F2Dot14::ZERO; 2]);
    let err = |id: &str, got: &[i16], want: &[i16]| Err((format!("Fvar::user_to_normalized: {id}"), format!("{ctx}: got {got:?}, expected {want:?}")));
    let got = u2n(&font, &[(TAG_A, a), (TAG_B, b)], &mut [junk; 2]);
    if got != base {
        return err("the result depends on the previous contents of the output slice", &got, &base);
    }
    // an omitted axis sits at its default: same as a fresh buffer, and exactly 0 before any avar 2 step
    for (set, omitted) in [(vec![(TAG_B, b)], 0usize), (vec![(TAG_A, a)], 1)] {
        let want = u2n(&font, &set, &mut [F2Dot14::ZERO; 2]);
        let got = u2n(&font, &set, &mut [junk; 2]);
        if got != want {
            return err("an axis without a user coordinate keeps a stale value from the output slice", &got, &want);
        }
        if !avar2 && got[omitted] != 0 {
            return err("an axis without a user coordinate is not at 0", &got, &want);
        }
    }
    let got = u2n(&font, &[], &mut [junk; 2]);
    if got != [0, 0] {
        return err("no user coordinates at all do not give the default location", &got, &[0, 0]);
    }
    for set in [vec![(TAG_A, other), (TAG_A, a), (TAG_B, b)], vec![(TAG_A, other), (TAG_B, b), (TAG_A, a)], vec![(TAG_B, 1000 - b), (TAG_A, other), (TAG_B, b), (TAG_A, a)]] {
        let got = u2n(&font, &set, &mut [F2Dot14::ZERO; 2]);
        if got != base {
            return err("with a repeated tag the last value is not the one used", &got, &base);
        }
    }
    let got = u2n(&font, &[(zz, a), (TAG_A, a), (qq, b), (TAG_B, b), (zz, b)], &mut [F2Dot14::ZERO; 2]);
    if got != base {
        return err("a tag that names no axis changes the result", &got, &base);
    }
    let got = u2n(&font, &[(TAG_A, a), (TAG_B, b)], &mut [junk; 4]);
    if got[..2] != base[..] || got[2..] != [0, 0] {
        let mut want = base.clone();
        want.extend([0, 0]);
        return err("an output slice longer than the axis list is not (result, zeros)", &got, &want);
    }
    if !avar2 {
        let got = u2n(&font, &[(TAG_A, a), (TAG_B, b)], &mut [junk; 1]);
        if got[..] != base[..1] {
            return err("an output slice shorter than the axis list does not hold the leading axes", &got, &base[..1]);
        }
    }
    // skrifa, into a dirty slice
    let mut loc = [junk; 2];
    font.axes().location_to_slice([(TAG_A, a as f32), (TAG_B, b as f32)], &mut loc);
    let got: Vec<i16> = loc.iter().map(|c| c.to_bits()).collect();
    if got != base {
        return Err(("skrifa AxisCollection::location_to_slice differs from Fvar::user_to_normalized".to_string(), format!("{ctx}: {got:?} vs {base:?}")));
    }
    let mut loc = [junk; 2];
    font.axes().location_to_slice([(TAG_B, b as f32)], &mut loc);
    let want = u2n(&font, &[(TAG_B, b)], &mut [F2Dot14::ZERO; 2]);
    let got: Vec<i16> = loc.iter().map(|c| c.to_bits()).collect();
    if got != want {
        return Err(("skrifa AxisCollection::location_to_slice keeps a stale value for an omitted axis".to_string(), format!("{ctx}: {got:?} vs {want:?}")));
    }
    Ok(base)
}

pub fn normalized_contract(run: &Run) {
    let ua = [0i32, 100, 250, 400, 650, 900, 1000];
    let ub = [0i32, 50, 75, 100, 150, 200, 500];
    run.bound("c7.user_to_normalized_contract", json!({"fonts": ["no avar", "avar 1", "avar 2", "avar 1 + 2", "three axes, two tagged wght"], "user_values": [ua, ub],
        "variants": ["output slice pre-filled with 0x1234", "one axis omitted", "no settings", "tag repeated (last wins), three orders", "unknown tags interleaved", "slice longer (4) and shorter (1) than the axis list", "skrifa location_to_slice into a dirty slice"]}));
    let mut all = HashSet::new();
    let mut non = HashSet::new();
    let mut n = 0u64;
    for (avar1, avar2) in [(false, false), (true, false), (false, true), (true, true)] {
        for a in ua {
            for b in ub {
                n += 14;
                let case = json!({"kind":"norm_contract","avar1":avar1,"avar2":avar2,"user":[a,b]});
                match guard(|| check_contract(avar1, avar2, a, b)) {
                    Ok(Ok(v)) => {
                        let d = digest_of(&("contract", avar1, avar2, a, b, &v));
                        all.insert(d);
                        if v.iter().any(|c| *c != 0) {
                            non.insert(d);
                        }
                    }
                    Ok(Err((id, details))) => {
                        if id.starts_with("harness") {
                            run.machinery_error(&format!("{id}: {details}"));
                        } else {
                            run.violation(&id, &details, case)
                        }
                    }
                    Err(p) => run.violation(&format!("Fvar::user_to_normalized panic: {}", p.kind()), &p.message, case),
                }
            }
        }
    }
    // two axes with one tag: each is normalised by its own record
    let bytes = same_tag_font();
    let font = FontRef::new(&bytes).expect("same-tag font");
    let axes = font.fvar().and_then(|f| f.axes()).expect("axes");
    for x in [-50i32, 0, 50, 100, 250, 400, 500, 650, 900, 1000, 1200] {
        n += 1;
        let got = u2n(&font, &[(TAG_A, x)], &mut [f214(0x1234); 3]);
        let want: Vec<i16> = vec![axes[0].normalize(Fixed::from_bits(x << 16)).to_f2dot14().to_bits(), 0, axes[2].normalize(Fixed::from_bits(x << 16)).to_f2dot14().to_bits()];
        if got != want {
            run.violation("Fvar::user_to_normalized: two axes sharing a tag are not each normalised by their own record", &format!("wght {x}: got {got:?}, expected {want:?}"), json!({"kind":"norm_contract_same_tag","user":x}));
        }
        let d = digest_of(&("sametag", x, &got));
        all.insert(d);
        non.insert(d);
    }
    run.evals(n);
    run.trans(n);
    run.count("c7.evaluations", n);
    run.observe_many(&all, &non);
}

// ---------------------------------------------------------------------------
// (c8) avar 2: index-map variants and the 64-axis scratch limit
// ---------------------------------------------------------------------------

/// map_mode: 0 = map [0, 1]; 1 = no map (implicit row = axis); 2 = one entry [0]; 3 = swapped [1, 0]
fn avar2_font_mode(d_pos: i32, d_neg: i32, map_mode: u8) -> Vec<u8> {
    use write_fonts::tables::avar::{Avar, AxisValueMap, SegmentMaps};
    use write_fonts::tables::fvar::{AxisInstanceArrays, Fvar, VariationAxisRecord};
    let fx = |v: i32| Fixed::from_bits(v << 16);
    let fvar = Fvar::new(AxisInstanceArrays::new(
        vec![VariationAxisRecord::new(TAG_A, fx(100), fx(400), fx(900), 0, NameId::new(256)), VariationAxisRecord::new(TAG_B, fx(50), fx(100), fx(200), 0, NameId::new(257))],
        vec![],
    ));
    let ident = || SegmentMaps::new([(-ONE, -ONE), (0, 0), (ONE, ONE)].iter().map(|(f, t)| AxisValueMap::new(f214(*f), f214(*t))).collect());
    let mut avar = Avar::new(vec![ident(), ident()]);
    let z = (0i16, 0i16, 0i16);
    let (pos, neg) = ((0, ONE, ONE), (-ONE, -ONE, 0));
    let mut sb = VariationStoreBuilder::new_with_implicit_indices(2);
    // row 0: moved by axis B; row 1: moved by axis A, with different magnitudes so that a wrong row shows
    sb.add_deltas(vec![(wregion_n(&[z, pos]), d_pos), (wregion_n(&[z, neg]), d_neg)]);
    sb.add_deltas(vec![(wregion_n(&[pos, z]), d_pos / 2 + 1000), (wregion_n(&[neg, z]), d_neg / 2 - 1000)]);
    let (store, _) = sb.build();
    avar.var_store = Some(store).into();
    let map: Option<Vec<u32>> = match map_mode {
        0 => Some(vec![0, 1]),
        1 => None,
        2 => Some(vec![0]),
        _ => Some(vec![1, 0]),
    };
    if let Some(m) = map {
        avar.axis_index_map = Some(m.into_iter().collect::<DeltaSetIndexMap>()).into();
    }
    let mut b = write_fonts::FontBuilder::new();
    b.add_table(&fvar).unwrap();
    b.add_table(&avar).unwrap();
    b.build()
}

/// N axes, all (100, 400, 900); avar 2 store without an index map: row 0 moved by the last axis, row 1 and
/// row N-1 moved by axis 0
fn many_axes_font(n: usize) -> Vec<u8> {
    use write_fonts::tables::avar::{Avar, AxisValueMap, SegmentMaps};
    use write_fonts::tables::fvar::{AxisInstanceArrays, Fvar, VariationAxisRecord};
    let fx = |v: i32| Fixed::from_bits(v << 16);
    let tag = |i: usize| Tag::new(&[b'a', b'0' + (i / 100) as u8, b'0' + (i / 10 % 10) as u8, b'0' + (i % 10) as u8]);
    let fvar = Fvar::new(AxisInstanceArrays::new((0..n).map(|i| VariationAxisRecord::new(tag(i), fx(100), fx(400), fx(900), 0, NameId::new(256 + i as u16))).collect(), vec![]));
    let ident = || SegmentMaps::new([(-ONE, -ONE), (0, 0), (ONE, ONE)].iter().map(|(f, t)| AxisValueMap::new(f214(*f), f214(*t))).collect());
    let mut avar = Avar::new((0..n).map(|_| ident()).collect());
    let region_on = |axis: usize| -> VariationRegion { wregion_n(&(0..n).map(|i| if i == axis { (0, ONE, ONE) } else { (0, 0, 0) }).collect::<Vec<_>>()) };
    let mut sb = VariationStoreBuilder::new_with_implicit_indices(n as u16);
    for i in 0..n {
        if i == n - 1 && n > 1 {
            sb.add_deltas(vec![(region_on(0), 4096i32)]);
        } else if i == 0 {
            sb.add_deltas(vec![(region_on(n - 1), 2048i32)]);
        } else if i == 1 {
            sb.add_deltas(vec![(region_on(0), -8192i32)]);
        } else {
            sb.add_deltas::<i32>(vec![]);
        }
    }
    let (store, _) = sb.build();
    avar.var_store = Some(store).into();
    let mut b = write_fonts::FontBuilder::new();
    b.add_table(&fvar).unwrap();
    b.add_table(&avar).unwrap();
    b.build()
}

pub fn avar2_variants(run: &Run) {
    let deltas: Vec<i32> = vec![0, 8192, 16384, 24576, -16384, -32768];
    let ua: Vec<i32> = vec![100, 250, 400, 650, 900];
    let ub: Vec<i32> = vec![50, 75, 100, 150, 200];
    let axis_counts = [1usize, 2, 3, 63, 64];
    run.bound("c8.avar2_variants", json!({"index_map": ["[0, 1]", "absent (row = axis index)", "one entry [0] (last entry applies to axis 1)", "swapped [1, 0]"], "d_pos_d_neg_f2dot14_units": deltas, "user_values": [ua, ub],
        "many_axes": {"axis_counts_judged": axis_counts, "observed_only": [65], "store": "row 0 moved by the last axis, rows 1 and N-1 moved by axis 0, no index map"},
        "reference": "clamp(v + sum delta_r * tent_r, -1, 1) from the coordinates before the avar 2 step, tolerance one F2Dot14 unit"}));
    let all: Mutex<HashSet<u64>> = Mutex::new(HashSet::new());
    let non: Mutex<HashSet<u64>> = Mutex::new(HashSet::new());
    let n = AtomicU64::new(0);
    let mut jobs: Vec<(i32, i32, u8)> = vec![];
    for dp in &deltas {
        for dn in &deltas {
            for m in 0..4u8 {
                jobs.push((*dp, *dn, m));
            }
        }
    }
    jobs.par_iter().for_each(|(dp, dn, mode)| {
        let bytes = avar2_font_mode(*dp, *dn, *mode);
        let Ok(font) = FontRef::new(&bytes) else {
            run.machinery_error("avar 2 variant font does not parse");
            return;
        };
        let mname = ["index map [0, 1]", "no index map", "index map with one entry", "index map [1, 0]"][*mode as usize];
        for a in &ua {
            for b in &ub {
                n.fetch_add(1, Ordering::Relaxed);
                let case = json!({"kind":"norm_avar2_variant","d_pos":dp,"d_neg":dn,"map_mode":mode,"user":[a,b]});
                match guard(|| super::norm2::check_avar2_location(&font, &[a << 16, b << 16], &format!("synthesised avar 2 font, {mname} (d_pos {dp}, d_neg {dn})"))) {
                    Ok(Ok((got, _))) => {
                        let d = digest_of(&("avar2v", dp, dn, mode, a, b, &got));
                        all.lock().unwrap().insert(d);
                        if got.iter().any(|c| *c != 0) {
                            non.lock().unwrap().insert(d);
                        }
                    }
                    Ok(Err((id, details))) => {
                        if id.starts_with("harness") {
                            run.machinery_error(&format!("{id}: {details}"));
                        } else {
                            run.violation(&format!("{id} ({mname})"), &details, case)
                        }
                    }
                    Err(p) => run.violation(&format!("Fvar::user_to_normalized panic: {}", p.kind()), &p.message, case),
                }
            }
        }
    });
    // many axes
    for nax in [1usize, 2, 3, 63, 64, 65] {
        let bytes = many_axes_font(nax);
        let Ok(font) = FontRef::new(&bytes) else {
            run.machinery_error("many-axes avar 2 font does not parse");
            return;
        };
        for (first, last) in [(900i32, 400i32), (650, 650), (400, 900), (900, 900), (100, 650)] {
            let mut user = vec![400i32 << 16; nax];
            user[0] = first << 16;
            if nax > 1 {
                user[nax - 1] = last << 16;
            }
            n.fetch_add(1, Ordering::Relaxed);
            let case = json!({"kind":"norm_avar2_many_axes","axes":nax,"first":first,"last":last});
            match guard(|| super::norm2::check_avar2_location(&font, &user, &format!("synthesised avar 2 font with {nax} axes"))) {
                Ok(Ok((got, _))) => {
                    let d = digest_of(&("avar2n", nax, first, last, &got));
                    all.lock().unwrap().insert(d);
                    non.lock().unwrap().insert(d);
                }
                Ok(Err((id, details))) => {
                    if id.starts_with("harness") {
                        run.machinery_error(&format!("{id}: {details}"));
                    } else if nax > 64 {
                        // documented limitation: "No avar2 for monster fonts" (more than 64 axes)
                        run.count("c8.locations_over_64_axes_where_avar2_is_not_applied", 1);
                    } else {
                        run.violation(&format!("{id} ({} axes)", if nax >= 63 { "63-64" } else { "1-3" }), &details, case)
                    }
                }
                Err(p) => run.violation(&format!("Fvar::user_to_normalized panic: {} ({nax} axes)", p.kind()), &p.message, case),
            }
        }
    }
    let n = n.load(Ordering::Relaxed);
    run.evals(n);
    run.trans(n);
    run.count("c8.evaluations", n);
    run.observe_many(&all.into_inner().unwrap(), &non.into_inner().unwrap());
}

// ---------------------------------------------------------------------------
// (c9) skrifa routes: filter, named instances, fonts without fvar
// ---------------------------------------------------------------------------

pub fn skrifa_routes(run: &Run) {
    use skrifa::setting::VariationSetting;
    let bytes = super::norm2::two_axis_font(true, false);
    let font = FontRef::new(&bytes).expect("two-axis font");
    let zz = Tag::new(b"ZZZZ");
    let alpha: Vec<(Tag, f32)> = vec![(TAG_A, 50.0), (TAG_A, 400.0), (TAG_A, 650.5), (TAG_A, 1200.0), (TAG_B, 25.0), (TAG_B, 75.0), (TAG_B, 500.0), (zz, 1.0)];
    run.bound("c9.skrifa_routes", json!({"filter": {"font": "wght 100/400/900, wdth 50/100/200, avar 1", "settings_alphabet": alpha.iter().map(|(t, v)| (t.to_string(), v)).collect::<Vec<_>>(), "sequence_length": "0..=3",
        "oracles": ["one entry per mentioned axis, in axis order, last value clamped to [min, max]", "location(filter(s)) == location(s)"]},
        "named_instances": "every named instance of every bundled variable font: location() == user_to_normalized(record coordinates)", "no_fvar": "location_to_slice clears a dirty slice"}));
    let mut all = HashSet::new();
    let mut non = HashSet::new();
    let mut n = 0u64;
    let k = alpha.len();
    let mut seqs: Vec<Vec<usize>> = vec![vec![]];
    for a in 0..k {
        seqs.push(vec![a]);
        for b in 0..k {
            seqs.push(vec![a, b]);
            for c in 0..k {
                seqs.push(vec![a, b, c]);
            }
        }
    }
    let axes = font.axes();
    let ranges = [(TAG_A, 100.0f32, 900.0f32), (TAG_B, 50.0, 200.0)];
    for s in &seqs {
        n += 1;
        let settings: Vec<(Tag, f32)> = s.iter().map(|i| alpha[*i]).collect();
        let case = json!({"kind":"skrifa_filter","settings":settings.iter().map(|(t, v)| (t.to_string(), v)).collect::<Vec<_>>()});
        let got: Vec<VariationSetting> = match guard(|| axes.filter(settings.clone()).collect::<Vec<_>>()) {
            Ok(v) => v,
            Err(p) => {
                run.violation(&format!("skrifa AxisCollection::filter panic: {}", p.kind()), &p.message, case);
                continue;
            }
        };
        let mut want: Vec<VariationSetting> = vec![];
        for (tag, mn, mx) in ranges {
            if let Some((_, v)) = settings.iter().rev().find(|(t, _)| *t == tag) {
                want.push(VariationSetting::new(tag, v.clamp(mn, mx)));
            }
        }
        if got != want {
            run.violation("skrifa AxisCollection::filter does not keep the last value per axis clamped to the axis range", &format!("{settings:?}: got {got:?}, expected {want:?}"), case.clone());
        }
        let l1: Vec<i16> = axes.location(settings.clone()).coords().iter().map(|c| c.to_bits()).collect();
        let l2: Vec<i16> = axes.location(got.clone()).coords().iter().map(|c| c.to_bits()).collect();
        if l1 != l2 {
            run.violation("skrifa AxisCollection::location differs before and after AxisCollection::filter", &format!("{settings:?}: {l1:?} vs {l2:?}"), case);
        }
        let d = digest_of(&("filter", s, &l1));
        all.insert(d);
        if l1.iter().any(|c| *c != 0) {
            non.insert(d);
        }
    }
    run.count("c9.filter_sequences", seqs.len() as u64);
    // named instances of the corpus
    let mut ninst = 0u64;
    let mut nofvar = 0u64;
    for (name, bytes) in corpus_fonts() {
        let Ok(font) = FontRef::new(&bytes) else { continue };
        let Ok(fvar) = font.fvar() else {
            // no fvar: a dirty slice must be cleared
            if nofvar < 8 {
                nofvar += 1;
                n += 1;
                let mut loc = [f214(0x1234); 3];
                font.axes().location_to_slice([(TAG_A, 500.0f32)], &mut loc);
                if loc.iter().any(|c| c.to_bits() != 0) || font.axes().location([(TAG_A, 500.0f32)]).coords().len() != 0 {
                    run.violation("skrifa AxisCollection::location_to_slice leaves stale coordinates for a font without fvar", &format!("{name}: {:?}", loc.iter().map(|c| c.to_bits()).collect::<Vec<_>>()), json!({"kind":"skrifa_no_fvar","font":name}));
                }
            }
            continue;
        };
        let Ok(axes_rec) = fvar.axes() else { continue };
        let avar = font.avar().ok();
        let Ok(instances) = fvar.instances() else { continue };
        for (i, inst) in font.named_instances().iter().enumerate() {
            let Ok(rec) = instances.get(i) else { continue };
            ninst += 1;
            n += 1;
            // the skrifa route passes the coordinates through f32
            let settings: Vec<(Tag, Fixed)> = axes_rec.iter().zip(rec.coordinates.iter()).map(|(a, c)| (a.axis_tag(), Fixed::from_f64(c.get().to_f64() as f32 as f64))).collect();
            let mut want = vec![F2Dot14::ZERO; axes_rec.len()];
            fvar.user_to_normalized(avar.as_ref(), settings, &mut want);
            let got: Vec<i16> = inst.location().coords().iter().map(|c| c.to_bits()).collect();
            let want: Vec<i16> = want.iter().map(|c| c.to_bits()).collect();
            if got != want {
                run.violation("skrifa NamedInstance::location differs from Fvar::user_to_normalized of the instance record", &format!("{name} instance {i}: {got:?} vs {want:?}"), json!({"kind":"skrifa_instance","font":name,"instance":i}));
            }
            let d = digest_of(&("inst", &name, i, &got));
            all.insert(d);
            if got.iter().any(|c| *c != 0) {
                non.insert(d);
            }
        }
    }
    run.count("c9.named_instances", ninst);
    run.count("c9.fonts_without_fvar", nofvar);
    run.evals(n);
    run.trans(n);
    run.observe_many(&all, &non);
}

// ---------------------------------------------------------------------------
// (d3) scaled glyph metrics: (base + delta) * ppem / upem
// ---------------------------------------------------------------------------

pub fn metrics_scaled(run: &Run) {
    use super::norm::{metrics_font, AdvMap, N_GLYPHS};
    use skrifa::instance::{LocationRef, Size};
    use skrifa::metrics::GlyphMetrics;
    let ppems = [0.5f32, 12.5, 16.0, 1000.0, 2000.0];
    let coord_sets: Vec<Vec<i16>> = vec![vec![], vec![0], vec![0x2000], vec![0x4000], vec![-0x4000], vec![0x1000]];
    run.bound("d3.scaled_glyph_metrics", json!({"ppem": ppems, "units_per_em": 1000, "coords_f2dot14_bits": coord_sets, "gids": "0..=glyph count",
        "reference": "the unscaled value (family d: base + delta, exact) times ppem/upem, tolerance |value| * 2^-22 + 2^-15 (16.16 scale factor)"}));
    let mut all = HashSet::new();
    let mut non = HashSet::new();
    let mut n = 0u64;
    for adv in [AdvMap::None, AdvMap::Full, AdvMap::Truncated] {
        for lsb in [false, true] {
            let bytes = metrics_font(adv, lsb);
            let font = FontRef::new(&bytes).expect("metrics font parses");
            for cs in &coord_sets {
                let coords: Vec<F2Dot14> = cs.iter().map(|c| f214(*c)).collect();
                let un = GlyphMetrics::new(&font, Size::unscaled(), LocationRef::new(&coords));
                for ppem in ppems {
                    let sc = GlyphMetrics::new(&font, Size::new(ppem), LocationRef::new(&coords));
                    for gid in 0..=N_GLYPHS {
                        let g = GlyphId::new(gid as u32);
                        for (what, u, s) in [("advance_width", un.advance_width(g), sc.advance_width(g)), ("left_side_bearing", un.left_side_bearing(g), sc.left_side_bearing(g))] {
                            n += 1;
                            let case = json!({"kind":"metrics_scaled","adv_map":format!("{adv:?}"),"lsb_map":lsb,"coords":cs,"gid":gid,"ppem":ppem});
                            let ok = match (u, s) {
                                (None, None) => true,
                                (Some(u), Some(s)) => {
                                    let want = u as f64 * ppem as f64 / 1000.0;
                                    (s as f64 - want).abs() <= (u as f64).abs() / 4_194_304.0 + 1.0 / 32768.0
                                }
                                _ => false,
                            };
                            if !ok {
                                run.violation(
                                    &format!("GlyphMetrics::{what} at a pixel size is not (base + delta) * ppem / upem"),
                                    &format!("{case}: unscaled {u:?}, at {ppem} ppem {s:?}, expected {:?}", u.map(|u| u as f64 * ppem as f64 / 1000.0)),
                                    case,
                                );
                            }
                            let d = digest_of(&("scaled", format!("{adv:?}"), lsb, cs, gid, ppem.to_bits(), what, s.map(|f| f.to_bits())));
                            all.insert(d);
                            if s.map(|s| s != 0.0).unwrap_or(false) {
                                non.insert(d);
                            }
                        }
                    }
                }
            }
        }
    }
    run.evals(n);
    run.trans(n);
    run.count("d3.scaled_metric_queries", n);
    run.observe_many(&all, &non);
}

// ---------------------------------------------------------------------------
// (e2) MVAR: every subset of nine tags; underline / strikeout through skrifa
// ---------------------------------------------------------------------------

const MVAR_TAGS: [&[u8; 4]; 9] = [b"cpht", b"hasc", b"hdsc", b"hlgp", b"stro", b"strs", b"undo", b"unds", b"xhgt"];

fn mvar_tag_delta(i: usize) -> i32 {
    let v = 11 * (i as i32 + 1) + 100;
    if i % 2 == 0 {
        v
    } else {
        -v
    }
}

fn mvar_table(subset: u32) -> write_fonts::tables::mvar::Mvar {
    use write_fonts::tables::mvar::{Mvar, ValueRecord};
    let region = wregion_n(&[(0, ONE, ONE)]);
    let mut sb = VariationStoreBuilder::new(1);
    let present: Vec<usize> = (0..9).filter(|i| subset >> i & 1 == 1).collect();
    let ids: Vec<u32> = present.iter().map(|i| sb.add_deltas(vec![(region.clone(), mvar_tag_delta(*i))])).collect();
    let (store, remap) = sb.build();
    let value_records: Vec<ValueRecord> = present
        .iter()
        .zip(ids.iter())
        .map(|(i, id)| {
            let vi = remap.get(*id).expect("id");
            ValueRecord::new(Tag::new(MVAR_TAGS[*i]), vi.delta_set_outer_index, vi.delta_set_inner_index)
        })
        .collect();
    Mvar { version: MajorMinor::VERSION_1_0, value_record_size: 8, value_record_count: value_records.len() as u16, item_variation_store: Some(store).into(), value_records }
}

fn check_mvar_subset(subset: u32) -> Result<(u64, u64), (String, String)> {
    let bytes = dump_table(&mvar_table(subset)).map_err(|e| ("harness: MVAR does not compile".to_string(), format!("{e:?}")))?;
    let mvar = read_fonts::tables::mvar::Mvar::read(FontData::new(&bytes)).map_err(|e| ("harness: MVAR does not parse".to_string(), format!("{e}")))?;
    let mut h = Fnv::new();
    let mut n = 0u64;
    let count = subset.count_ones();
    // the nine tags, one below all, one between, one above all
    let extra: [&[u8; 4]; 3] = [b"aaaa", b"hbbb", b"zzzz"];
    for c in [ONE / 2, ONE, -ONE] {
        for (i, t) in MVAR_TAGS.iter().map(|t| *t).chain(extra).enumerate() {
            n += 1;
            let tag = Tag::new(t);
            let got = mvar.metric_delta(tag, &[f214(c)]);
            let present = i < 9 && subset >> i & 1 == 1;
            let pos = if present { (0..i).filter(|j| subset >> j & 1 == 1).count() as i64 } else { -1 };
            if present {
                let want = if c <= 0 { 0 } else { super::norm2::round_half_up(mvar_tag_delta(i) as i64 * c as i64, 16384) };
                match got {
                    Ok(f) if f.to_bits() as i64 == want << 16 => h.i64(want),
                    other => {
                        return Err((
                            "Mvar::metric_delta does not return the delta of the record with that tag".to_string(),
                            format!("{count} records (subset {subset:#011b}), tag {tag} is record {pos}, coordinate {}: got {:?}, expected {want}", c as f64 / 16384.0, other.map(|f| f.to_f64()).map_err(|e| e.to_string())),
                        ))
                    }
                }
            } else if let Ok(f) = got {
                return Err(("Mvar::metric_delta returns a delta for a tag that has no record".to_string(), format!("{count} records (subset {subset:#011b}), tag {tag}: got {}", f.to_f64())));
            }
        }
    }
    Ok((h.finish(), n))
}

pub fn mvar_search(run: &Run) {
    use skrifa::instance::{LocationRef, Size};
    run.bound("e2.mvar", json!({"tags": MVAR_TAGS.iter().map(|t| String::from_utf8_lossy(*t).to_string()).collect::<Vec<_>>(), "record_sets": "all 512 subsets (every record count 0..=9, every position)",
        "queried": "the nine tags plus aaaa, hbbb, zzzz", "coords": [0.5, 1.0, -1.0], "skrifa": "Metrics with all nine records: ascent, descent, leading, cap/x height, underline and strikeout offset and thickness at 4 locations"}));
    let all: Mutex<HashSet<u64>> = Mutex::new(HashSet::new());
    let n = AtomicU64::new(0);
    (0..512u32).into_par_iter().for_each(|subset| {
        let case = json!({"kind":"mvar_subset","subset":subset});
        match guard(|| check_mvar_subset(subset)) {
            Ok(Ok((d, k))) => {
                n.fetch_add(k, Ordering::Relaxed);
                all.lock().unwrap().insert(digest_of(&("mvar2", subset, d)));
            }
            Ok(Err((id, details))) => {
                if id.starts_with("harness") {
                    run.machinery_error(&format!("{id}: {details}"));
                } else {
                    run.violation(&id, &details, case)
                }
            }
            Err(p) => run.violation(&format!("Mvar::metric_delta panic: {} in {}", p.kind(), p.site()), &p.message, case),
        }
    });
    let mut n = n.load(Ordering::Relaxed);
    let mut a = all.into_inner().unwrap();
    // skrifa Metrics with every record
    {
        use write_fonts::tables::{hhea::Hhea, maxp::Maxp, os2::Os2, post::Post};
        let head = write_fonts::tables::head::Head { units_per_em: 1000, ..Default::default() };
        let hhea = Hhea::new(FWord::new(800), FWord::new(-200), FWord::new(10), UfWord::new(600), FWord::new(0), FWord::new(0), FWord::new(0), 1, 0, 0, 0);
        let os2 = Os2 {
            sx_height: Some(500),
            s_cap_height: Some(700),
            y_strikeout_position: 250,
            y_strikeout_size: 40,
            ul_code_page_range_1: Some(1),
            ul_code_page_range_2: Some(0),
            us_default_char: Some(0),
            us_break_char: Some(32),
            us_max_context: Some(0),
            ..Default::default()
        };
        let post = Post { underline_position: FWord::new(-100), underline_thickness: FWord::new(50), ..Default::default() };
        let mut fb = write_fonts::FontBuilder::new();
        fb.add_table(&head).unwrap();
        fb.add_table(&Maxp::new(1)).unwrap();
        fb.add_table(&hhea).unwrap();
        let r = fb.add_table(&os2).map(|_| ()).and_then(|_| fb.add_table(&post).map(|_| ())).and_then(|_| fb.add_table(&mvar_table(0x1FF)).map(|_| ()));
        if let Err(e) = r {
            run.machinery_error(&format!("MVAR font does not compile: {e:?}"));
            return;
        }
        let bytes = fb.build();
        let font = FontRef::new(&bytes).expect("mvar font");
        for cs in [vec![], vec![ONE / 2], vec![ONE], vec![-ONE]] {
            let coords: Vec<F2Dot14> = cs.iter().map(|c| f214(*c)).collect();
            let m = skrifa::metrics::Metrics::new(&font, Size::unscaled(), LocationRef::new(&coords));
            let c = cs.first().copied().unwrap_or(0);
            let dl = |i: usize| -> f32 {
                if c <= 0 {
                    0.0
                } else {
                    super::norm2::round_half_up(mvar_tag_delta(i) as i64 * c as i64, 16384) as f32
                }
            };
            let checks: Vec<(&str, Option<f32>, f32, usize)> = vec![
                ("cap_height", m.cap_height, 700.0, 0),
                ("ascent", Some(m.ascent), 800.0, 1),
                ("descent", Some(m.descent), -200.0, 2),
                ("leading", Some(m.leading), 10.0, 3),
                ("strikeout.offset", m.strikeout.map(|d| d.offset), 250.0, 4),
                ("strikeout.thickness", m.strikeout.map(|d| d.thickness), 40.0, 5),
                ("underline.offset", m.underline.map(|d| d.offset), -100.0, 6),
                ("underline.thickness", m.underline.map(|d| d.thickness), 50.0, 7),
                ("x_height", m.x_height, 500.0, 8),
            ];
            for (name, got, base, i) in checks {
                n += 1;
                let want = base + dl(i);
                if got != Some(want) {
                    run.violation(&format!("skrifa Metrics::{name} wrong with MVAR"), &format!("coords {cs:?}: got {got:?}, expected {want} (base {base} + delta of {} at peak)", mvar_tag_delta(i)), json!({"kind":"mvar_skrifa","coords":cs,"metric":name}));
                }
                a.insert(digest_of(&("mvar2s", &cs, name, got.map(|g| g.to_bits()))));
            }
        }
    }
    run.evals(n);
    run.trans(n);
    run.count("e2.mvar_queries", n);
    run.observe_many(&a, &a);
}

// ---------------------------------------------------------------------------
// replay
// ---------------------------------------------------------------------------

pub fn replay(run: &Run, case: &Value) {
    let u = |k: &str| case[k].as_u64().unwrap_or(0);
    let i = |k: &str| case[k].as_i64().unwrap_or(0) as i32;
    let b = |k: &str| case[k].as_bool().unwrap_or(false);
    let report = |r: Result<(), (String, String)>| match r {
        Ok(()) => println!("replay: passes"),
        Err((id, d)) => run.violation(&id, &d, case.clone()),
    };
    match case["kind"].as_str().unwrap_or("") {
        "builder_o" => report(check_store_o(&super::ds_from_json(&case["seq"]), b("implicit"), b("rev_all")).map(|_| ())),
        "builder_uniform" => report(check_uniform(u("count") as u32, b("implicit")).map(|_| ())),
        "raw_store" => {
            let list: Vec<u16> = case["list"].as_array().map(|a| a.iter().map(|x| x.as_u64().unwrap_or(0) as u16).collect()).unwrap_or_default();
            report(check_raw_store(&list, u("words") as usize, b("long")).map(|_| ()))
        }
        "index_map_tail" => report(check_index_map_tail(u("inner_bits") as u32, u("outer_bits") as u32, u("entries") as usize, u("tail") as usize).map(|_| ())),
        "norm_contract" => report(check_contract(b("avar1"), b("avar2"), case["user"][0].as_i64().unwrap_or(0) as i32, case["user"][1].as_i64().unwrap_or(0) as i32).map(|_| ())),
        "norm_contract_same_tag" => normalized_contract(run),
        "norm_avar2_variant" => {
            let bytes = avar2_font_mode(i("d_pos"), i("d_neg"), u("map_mode") as u8);
            let font = FontRef::new(&bytes).expect("font");
            let user = [(case["user"][0].as_i64().unwrap_or(0) as i32) << 16, (case["user"][1].as_i64().unwrap_or(0) as i32) << 16];
            report(super::norm2::check_avar2_location(&font, &user, "replay").map(|_| ()))
        }
        "norm_avar2_many_axes" => avar2_variants(run),
        "skrifa_filter" | "skrifa_instance" | "skrifa_no_fvar" => skrifa_routes(run),
        "metrics_scaled" => metrics_scaled(run),
        "mvar_subset" => report(check_mvar_subset(u("subset") as u32).map(|_| ())),
        "mvar_skrifa" => mvar_search(run),
        k => println!("replay: unknown kind {k}"),
    }
    let _ = BTreeMap::<u8, u8>::new();
}
