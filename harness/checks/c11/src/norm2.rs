//! Round-2 families: (d2) gvar phantom-point fallback for glyph metrics, (c4) two-axis
//! `Fvar::user_to_normalized` with avar (version 1 maps on both axes, and an avar 2 store),
//! (e) MVAR deltas through skrifa `Metrics`.

use font_types::{F2Dot14, FWord, Fixed, GlyphId, MajorMinor, NameId, Tag, UfWord};
use read_fonts::{FontRef, TableProvider};
use serde_json::{json, Value};
use skrifa::MetadataProvider;
use std::collections::HashSet;
use vcore::*;
use write_fonts::tables::variations::ivs_builder::VariationStoreBuilder;
use write_fonts::tables::variations::{DeltaSetIndexMap, RegionAxisCoordinates, VariationRegion};

const ONE: i16 = 0x4000;

fn f214(b: i16) -> F2Dot14 {
    F2Dot14::from_bits(b)
}

/// floor(x + 1/2) for x = num/den, den > 0
pub fn round_half_up(num: i64, den: i64) -> i64 {
    (2 * num + den).div_euclid(2 * den)
}

// ---------------------------------------------------------------------------
// (d2) gvar phantom points, no HVAR
// ---------------------------------------------------------------------------

/// per glyph: (point count, [(tuple peak bits, pp1 dx, pp2 dx)])
const GVAR_GLYPHS: [(usize, [(i16, i16, i16); 2]); 3] = [
    (0, [(ONE, 0, 50), (-ONE, 0, -31)]),
    (3, [(ONE, 10, 101), (-ONE, -7, 20)]),
    (3, [(ONE, -3, -3), (-ONE, 1, 0)]),
];
const GVAR_ADV: [u16; 3] = [500, 600, 700];
const GVAR_LSB: [i16; 3] = [0, 10, 20];

fn gvar_font(with_gvar: bool) -> Vec<u8> {
    use write_fonts::tables::glyf::{GlyfLocaBuilder, SimpleGlyph};
    use write_fonts::tables::gvar::{GlyphDelta, GlyphDeltas, GlyphVariations, Gvar, Tent};
    use write_fonts::tables::{hhea::Hhea, hmtx::Hmtx, hmtx::LongMetric, maxp::Maxp};
    let mut gl = GlyfLocaBuilder::new();
    for (npts, _) in GVAR_GLYPHS.iter() {
        if *npts == 0 {
            gl.add_glyph(&SimpleGlyph::default()).unwrap();
        } else {
            let mut p = kurbo::BezPath::new();
            p.move_to((10.0, 0.0));
            p.line_to((110.0, 0.0));
            p.line_to((60.0, 100.0));
            p.close_path();
            gl.add_glyph(&SimpleGlyph::from_bezpath(&p).unwrap()).unwrap();
        }
    }
    let (glyf, loca, fmt) = gl.build();
    let head = write_fonts::tables::head::Head { units_per_em: 1000, index_to_loc_format: fmt as i16, ..Default::default() };
    let n = GVAR_GLYPHS.len() as u16;
    let hhea = Hhea::new(FWord::new(800), FWord::new(-200), FWord::new(0), UfWord::new(700), FWord::new(0), FWord::new(0), FWord::new(0), 1, 0, 0, n);
    let hmtx = Hmtx::new((0..n as usize).map(|i| LongMetric::new(GVAR_ADV[i], GVAR_LSB[i])).collect(), vec![]);
    let mut fb = write_fonts::FontBuilder::new();
    fb.add_table(&head).unwrap();
    fb.add_table(&Maxp::new(n)).unwrap();
    fb.add_table(&hhea).unwrap();
    fb.add_table(&hmtx).unwrap();
    fb.add_table(&glyf).unwrap();
    fb.add_table(&loca).unwrap();
    if with_gvar {
        let vars: Vec<GlyphVariations> = GVAR_GLYPHS
            .iter()
            .enumerate()
            .map(|(gid, (npts, tuples))| {
                let deltas: Vec<GlyphDeltas> = tuples
                    .iter()
                    .map(|(peak, d1, d2)| {
                        let mut d: Vec<GlyphDelta> = (0..*npts).map(|i| GlyphDelta::required(i as i16 + 1, 0)).collect();
                        d.push(GlyphDelta::required(*d1, 0));
                        d.push(GlyphDelta::required(*d2, 0));
                        d.push(GlyphDelta::required(0, 0));
                        d.push(GlyphDelta::required(0, 0));
                        GlyphDeltas::new(vec![Tent::new(f214(*peak), None)], d)
                    })
                    .collect();
                GlyphVariations::new(GlyphId::new(gid as u32), deltas)
            })
            .collect();
        let gvar = Gvar::new(vars, 1).expect("gvar builds");
        fb.add_table(&gvar).unwrap();
    }
    fb.build()
}

/// scalar of the implied tent for `peak` at coordinate c, as (num, den) over F2Dot14 bits
fn implied_scalar(peak: i16, c: i16) -> (i64, i64) {
    let (p, c) = (peak as i64, c as i64);
    if c == 0 || (p > 0 && (c < 0 || c > p)) || (p < 0 && (c > 0 || c < p)) {
        return (0, 1);
    }
    (c, p)
}

pub fn gvar_metrics(run: &Run) {
    let coords_list: Vec<Vec<i16>> = vec![vec![], vec![0], vec![ONE / 2], vec![ONE], vec![-ONE], vec![-ONE / 2], vec![ONE / 4], vec![3 * (ONE / 4)], vec![-ONE / 4]];
    run.bound(
        "d2.gvar_phantom_fallback",
        json!({"glyphs": GVAR_GLYPHS.iter().map(|(n, t)| json!({"points": n, "tuples_peak_pp1dx_pp2dx": t})).collect::<Vec<_>>(), "coords_f2dot14_bits": coords_list,
               "advance_reference": "hmtx advance + floor((sum scalar*pp2dx - sum scalar*pp1dx) + 1/2)", "lsb_reference": "hmtx lsb + floor(sum scalar*pp1dx + 1/2) as documented by skrifa (recorded separately: FreeType's convention has the opposite sign for a moving origin)"}),
    );
    let mut all = HashSet::new();
    let mut non = HashSet::new();
    let mut n = 0u64;
    for with_gvar in [true, false] {
        let bytes = gvar_font(with_gvar);
        let font = match FontRef::new(&bytes) {
            Ok(f) => f,
            Err(e) => {
                run.machinery_error(&format!("gvar font does not parse: {e}"));
                return;
            }
        };
        for cs in &coords_list {
            let coords: Vec<F2Dot14> = cs.iter().map(|c| f214(*c)).collect();
            let gm = skrifa::metrics::GlyphMetrics::new(&font, skrifa::instance::Size::unscaled(), skrifa::instance::LocationRef::new(&coords));
            for gid in 0..GVAR_GLYPHS.len() + 1 {
                n += 2;
                let case = json!({"kind":"metrics_gvar","with_gvar":with_gvar,"coords":cs,"gid":gid});
                let got_adv = match guard(|| gm.advance_width(GlyphId::new(gid as u32))) {
                    Ok(v) => v,
                    Err(p) => {
                        run.violation(&format!("GlyphMetrics::advance_width panic: {} in {}", p.kind(), p.site()), &p.message, case.clone());
                        continue;
                    }
                };
                let got_lsb = match guard(|| gm.left_side_bearing(GlyphId::new(gid as u32))) {
                    Ok(v) => v,
                    Err(p) => {
                        run.violation(&format!("GlyphMetrics::left_side_bearing panic: {} in {}", p.kind(), p.site()), &p.message, case.clone());
                        continue;
                    }
                };
                if gid >= GVAR_GLYPHS.len() {
                    if got_adv.is_some() || got_lsb.is_some() {
                        run.violation("GlyphMetrics returns a metric for a glyph id past the glyph count (gvar fallback)", &format!("{case}: {:?} {:?}", got_adv, got_lsb), case);
                    }
                    continue;
                }
                // exact sums over a common denominator of 16384 (implied tents: scalar = c / peak, peak = +-1)
                let c = cs.first().copied();
                let (mut d1n, mut d2n) = (0i64, 0i64); // numerators over den = 16384
                if let (Some(c), true) = (c, with_gvar) {
                    for (peak, d1, d2) in GVAR_GLYPHS[gid].1.iter() {
                        let (sn, sd) = implied_scalar(*peak, c);
                        // sd is +-16384 or 1 (when sn = 0)
                        let s16384 = if sn == 0 { 0 } else { sn * 16384 / sd };
                        d1n += s16384 * *d1 as i64;
                        d2n += s16384 * *d2 as i64;
                    }
                }
                let exp_adv = GVAR_ADV[gid] as i64 + round_half_up(d2n - d1n, 16384);
                let exp_lsb_plus = GVAR_LSB[gid] as i64 + round_half_up(d1n, 16384);
                let exp_lsb_minus = GVAR_LSB[gid] as i64 + round_half_up(-d1n, 16384);
                if got_adv != Some(exp_adv as f32) {
                    run.violation(
                        "GlyphMetrics::advance_width wrong (gvar phantom-point fallback)",
                        &format!("{case}: got {:?} expected {} (hmtx {} + pp2 {} - pp1 {} over 16384)", got_adv, exp_adv, GVAR_ADV[gid], d2n, d1n),
                        case.clone(),
                    );
                }
                match got_lsb {
                    Some(v) if v == exp_lsb_plus as f32 => {
                        if exp_lsb_plus != exp_lsb_minus {
                            run.count("d2.lsb_moves_with_plus_pp1_delta", 1);
                        }
                    }
                    Some(v) if v == exp_lsb_minus as f32 => run.count("d2.lsb_moves_with_minus_pp1_delta", 1),
                    _ => run.violation(
                        "GlyphMetrics::left_side_bearing wrong (gvar phantom-point fallback)",
                        &format!("{case}: got {:?} expected {} (or {} under the FreeType sign convention)", got_lsb, exp_lsb_plus, exp_lsb_minus),
                        case.clone(),
                    ),
                }
                let d = digest_of(&("gvar", with_gvar, cs, gid, got_adv.map(|f| f.to_bits()), got_lsb.map(|f| f.to_bits())));
                all.insert(d);
                if d1n != 0 || d2n != 0 {
                    non.insert(d);
                }
            }
        }
    }
    run.evals(n);
    run.trans(n);
    run.count("d2.metric_queries", n);
    run.observe_many(&all, &non);
}

// ---------------------------------------------------------------------------
// (c4) two axes, avar 1 maps on both, optional avar 2 store
// ---------------------------------------------------------------------------

const TAG_A: Tag = Tag::new(b"wght");
const TAG_B: Tag = Tag::new(b"wdth");

/// avar maps: the three required points plus one extra per axis
const MAP_A: [(i16, i16); 4] = [(-ONE, -ONE), (0, 0), (ONE / 2, ONE / 4), (ONE, ONE)];
const MAP_B: [(i16, i16); 4] = [(-ONE, -ONE), (-ONE / 2, -ONE / 4), (0, 0), (ONE, ONE)];

fn seg_apply(map: &[(i16, i16)], c: i32) -> (i128, i128) {
    // exact piecewise-linear value at 16.16 coordinate c, as a fraction (num, den) in 16.16 units
    let fx = |b: i16| (b as i128) << 2;
    let c = c as i128;
    for w in map.windows(2) {
        let (f0, t0, f1, t1) = (fx(w[0].0), fx(w[0].1), fx(w[1].0), fx(w[1].1));
        if c >= f0 && c <= f1 {
            return (t0 * (f1 - f0) + (t1 - t0) * (c - f0), f1 - f0);
        }
    }
    (c, 1)
}

pub fn two_axis_font(avar1: bool, avar2: bool) -> Vec<u8> {
    use write_fonts::tables::avar::{Avar, AxisValueMap, SegmentMaps};
    use write_fonts::tables::fvar::{AxisInstanceArrays, Fvar, VariationAxisRecord};
    let fx = |v: i32| Fixed::from_bits(v << 16);
    let fvar = Fvar::new(AxisInstanceArrays::new(
        vec![VariationAxisRecord::new(TAG_A, fx(100), fx(400), fx(900), 0, NameId::new(256)), VariationAxisRecord::new(TAG_B, fx(50), fx(100), fx(200), 0, NameId::new(257))],
        vec![],
    ));
    let mut b = write_fonts::FontBuilder::new();
    b.add_table(&fvar).unwrap();
    if avar1 || avar2 {
        let mk = |m: &[(i16, i16)]| SegmentMaps::new(m.iter().map(|(f, t)| AxisValueMap::new(f214(*f), f214(*t))).collect());
        let ident = [(-ONE, -ONE), (0, 0), (ONE, ONE)];
        let mut avar = Avar::new(if avar1 { vec![mk(&MAP_A), mk(&MAP_B)] } else { vec![mk(&ident), mk(&ident)] });
        if avar2 {
            // axis B moves by +0.25 (4096 F2Dot14 units) * scalar of region (axis A in (0, 1, 1)); axis A unchanged
            let region = VariationRegion::new(vec![RegionAxisCoordinates::new(f214(0), f214(ONE), f214(ONE)), RegionAxisCoordinates::new(f214(0), f214(0), f214(0))]);
            let mut sb = VariationStoreBuilder::new_with_implicit_indices(2);
            sb.add_deltas::<i32>(vec![]);
            sb.add_deltas(vec![(region, 4096i32)]);
            let (store, _) = sb.build();
            avar.var_store = Some(store).into();
            avar.axis_index_map = Some([0u32, 1u32].into_iter().collect::<DeltaSetIndexMap>()).into();
        }
        b.add_table(&avar).unwrap();
    }
    b.build()
}

pub fn multi_axis(run: &Run) {
    // user values on and around the axis triples, both axes
    let ua: Vec<i32> = vec![0, 100, 250, 400, 525, 650, 900, 1000];
    let ub: Vec<i32> = vec![0, 50, 75, 100, 150, 175, 200, 500];
    run.bound(
        "c4.two_axes",
        json!({"axes": [["wght", 100, 400, 900], ["wdth", 50, 100, 200]], "user_values": [ua, ub], "avar1_maps": [MAP_A, MAP_B], "configs": ["no avar", "avar 1", "avar 2 (identity maps + store)", "avar 1 + avar 2 store"],
               "avar2_store": "axis wdth += 0.25 * tent(wght in (0,1,1)); clamped to [-1, 1]"}),
    );
    let mut all = HashSet::new();
    let mut non = HashSet::new();
    let mut n = 0u64;
    for (avar1, avar2) in [(false, false), (true, false), (false, true), (true, true)] {
        let bytes = two_axis_font(avar1, avar2);
        let font = FontRef::new(&bytes).expect("two axis font parses");
        let fvar = font.fvar().expect("fvar");
        let avar = font.avar().ok();
        if (avar1 || avar2) && avar.is_none() {
            run.machinery_error("two-axis font: avar table missing or unparsable");
            return;
        }
        for a in &ua {
            for b in &ub {
                for order in 0..2 {
                    n += 1;
                    let case = json!({"kind":"norm_two_axes","avar1":avar1,"avar2":avar2,"user":[a,b],"order":order});
                    let mut coords = [F2Dot14::ZERO; 2];
                    let settings: Vec<(Tag, Fixed)> = if order == 0 { vec![(TAG_A, Fixed::from_bits(a << 16)), (TAG_B, Fixed::from_bits(b << 16))] } else { vec![(TAG_B, Fixed::from_bits(b << 16)), (TAG_A, Fixed::from_bits(a << 16))] };
                    if let Err(p) = guard(|| fvar.user_to_normalized(avar.as_ref(), settings.clone(), &mut coords)) {
                        run.violation(&format!("Fvar::user_to_normalized panic: {}", p.kind()), &p.message, case);
                        continue;
                    }
                    // reference, in 16.16 then rounded to F2Dot14 ((bits + 2) >> 2), exact rationals
                    let norm = |v: i32, min: i32, def: i32, max: i32| -> (i128, i128) {
                        let v = v.clamp(min, max) as i128;
                        let (min, def, max) = (min as i128, def as i128, max as i128);
                        if v < def {
                            (-(def - v) * 65536, def - min)
                        } else if v > def {
                            ((v - def) * 65536, max - def)
                        } else {
                            (0, 1)
                        }
                    };
                    let (na, da) = norm(*a, 100, 400, 900);
                    let (nb, db) = norm(*b, 50, 100, 200);
                    // the user values are chosen so that normalisation is exact in 16.16
                    if na % da != 0 || nb % db != 0 {
                        run.machinery_error("two-axis user values must normalise exactly");
                        return;
                    }
                    let (ca, cb) = ((na / da) as i32, (nb / db) as i32);
                    let (ma, mb) = if avar1 { (seg_apply(&MAP_A, ca), seg_apply(&MAP_B, cb)) } else { ((ca as i128, 1), (cb as i128, 1)) };
                    // allow one 16.16 unit of mul_div rounding before the F2Dot14 rounding: accept either neighbour
                    let to214 = |num: i128, den: i128| -> Vec<i16> {
                        let lo = num.div_euclid(den);
                        let mut v: Vec<i16> = [lo - 1, lo, lo + 1].iter().map(|x| ((x + 2) >> 2) as i16).collect();
                        v.dedup();
                        v
                    };
                    let exp_a = to214(ma.0, ma.1);
                    let mut exp_b = to214(mb.0, mb.1);
                    if avar2 {
                        // axis B gets + 4096 * scalar(A); scalar(A) = a' for a' in [0, 1] (region 0,1,1), else 0
                        exp_b = exp_b
                            .iter()
                            .flat_map(|b0| {
                                exp_a.iter().map(move |a0| {
                                    let s = (*a0).clamp(0, ONE) as i64; // scalar * 16384
                                    let delta = round_half_up(4096 * s, 16384); // F2Dot14 units
                                    (*b0 as i64 + delta).clamp(-(ONE as i64), ONE as i64) as i16
                                })
                            })
                            .collect();
                        // float evaluation inside avar 2: tolerate one F2Dot14 unit
                        let more: Vec<i16> = exp_b.iter().flat_map(|v| [v - 1, *v, v + 1]).collect();
                        exp_b = more;
                    }
                    let (ga, gb) = (coords[0].to_bits(), coords[1].to_bits());
                    let config = match (avar1, avar2) {
                        (false, false) => "no avar",
                        (true, false) => "avar 1",
                        (false, true) => "avar 2",
                        (true, true) => "avar 1 + 2",
                    };
                    if !exp_a.contains(&ga) {
                        run.violation(&format!("Fvar::user_to_normalized wrong on axis 0 of 2 ({config})"), &format!("{case}: got {} expected {:?}", ga, exp_a), case.clone());
                    }
                    if avar2 && (gb > ONE || gb < -ONE || ga > ONE || ga < -ONE) {
                        run.violation(
                            "Fvar::user_to_normalized leaves an avar 2 coordinate outside [-1, 1]",
                            &format!("{case}: normalized coordinates ({}, {}) = ({:.5}, {:.5}); the avar 2 result must be clamped to [-1, 1] (as HarfBuzz does), the implementation clamps to the F2Dot14 range [-2, 2)", ga, gb, ga as f64 / 16384.0, gb as f64 / 16384.0),
                            case.clone(),
                        );
                    } else if !exp_b.contains(&gb) {
                        run.violation(&format!("Fvar::user_to_normalized wrong on axis 1 of 2 ({config})"), &format!("{case}: got {} expected one of {:?}", gb, exp_b), case.clone());
                    }
                    // skrifa: same result
                    let loc = font.axes().location(settings.iter().map(|(t, v)| (*t, v.to_f64() as f32)));
                    let s: Vec<i16> = loc.coords().iter().map(|c| c.to_bits()).collect();
                    if s != vec![ga, gb] {
                        run.violation("skrifa AxisCollection::location differs from Fvar::user_to_normalized", &format!("{case}: {:?} vs {:?}", s, (ga, gb)), case.clone());
                    }
                    let d = digest_of(&("two", avar1, avar2, a, b, ga, gb));
                    all.insert(d);
                    if ga != 0 || gb != 0 {
                        non.insert(d);
                    }
                }
            }
        }
    }
    run.evals(n);
    run.trans(n);
    run.count("c4.two_axis_evaluations", n);
    run.observe_many(&all, &non);
}

// ---------------------------------------------------------------------------
// (e) MVAR through skrifa Metrics
// ---------------------------------------------------------------------------

pub fn mvar_metrics(run: &Run) {
    use write_fonts::tables::mvar::{Mvar, ValueRecord};
    use write_fonts::tables::{hhea::Hhea, maxp::Maxp, os2::Os2};
    // tags in binary order with their deltas at peak (region (0,1,1) on one axis) and base values
    let recs: Vec<(&[u8; 4], i32)> = vec![(b"cpht", 33), (b"hasc", 101), (b"hdsc", -57), (b"hlgp", 7), (b"xhgt", -15)];
    run.bound("e.mvar", json!({"records": recs.iter().map(|(t, d)| (String::from_utf8_lossy(*t).to_string(), d)).collect::<Vec<_>>(), "coords_f2dot14_bits": [[], [0], [ONE / 2], [ONE], [-ONE], [ONE / 4], [ONE / 4 + 1]], "base": {"ascender": 800, "descender": -200, "line_gap": 10, "x_height": 500, "cap_height": 700}}));
    let region = VariationRegion::new(vec![RegionAxisCoordinates::new(f214(0), f214(ONE), f214(ONE))]);
    let mut sb = VariationStoreBuilder::new(1);
    let ids: Vec<u32> = recs.iter().map(|(_, d)| sb.add_deltas(vec![(region.clone(), *d)])).collect();
    let (store, remap) = sb.build();
    let value_records: Vec<ValueRecord> = recs
        .iter()
        .zip(ids.iter())
        .map(|((t, _), id)| {
            let vi = remap.get(*id).expect("id");
            ValueRecord::new(Tag::new(t), vi.delta_set_outer_index, vi.delta_set_inner_index)
        })
        .collect();
    let mvar = Mvar { version: MajorMinor::VERSION_1_0, value_record_size: 8, value_record_count: value_records.len() as u16, item_variation_store: Some(store).into(), value_records };
    let head = write_fonts::tables::head::Head { units_per_em: 1000, ..Default::default() };
    let hhea = Hhea::new(FWord::new(800), FWord::new(-200), FWord::new(10), UfWord::new(600), FWord::new(0), FWord::new(0), FWord::new(0), 1, 0, 0, 0);
    let os2 = Os2 {
        sx_height: Some(500),
        s_cap_height: Some(700),
        ul_code_page_range_1: Some(1),
        ul_code_page_range_2: Some(0),
        us_default_char: Some(0),
        us_break_char: Some(32),
        us_max_context: Some(0),
        ..Default::default()
    };
    let mut fb = write_fonts::FontBuilder::new();
    fb.add_table(&head).unwrap();
    fb.add_table(&Maxp::new(1)).unwrap();
    fb.add_table(&hhea).unwrap();
    if let Err(e) = fb.add_table(&os2) {
        run.machinery_error(&format!("OS/2 does not compile: {e:?}"));
        return;
    }
    if let Err(e) = fb.add_table(&mvar) {
        run.machinery_error(&format!("MVAR does not compile: {e:?}"));
        return;
    }
    let bytes = fb.build();
    let font = FontRef::new(&bytes).expect("mvar font parses");
    if font.mvar().is_err() {
        run.machinery_error("MVAR table does not parse");
        return;
    }
    let mut all = HashSet::new();
    let mut non = HashSet::new();
    let mut n = 0;
    for cs in [vec![], vec![0i16], vec![ONE / 2], vec![ONE], vec![-ONE], vec![ONE / 4], vec![ONE / 4 + 1]] {
        let coords: Vec<F2Dot14> = cs.iter().map(|c| f214(*c)).collect();
        let m = skrifa::metrics::Metrics::new(&font, skrifa::instance::Size::unscaled(), skrifa::instance::LocationRef::new(&coords));
        let c = cs.first().copied().unwrap_or(0);
        // exact: floor(d * c / 16384 + 1/2)
        let delta = |d: i32| -> f32 {
            if cs.is_empty() || c <= 0 {
                return 0.0;
            }
            round_half_up(d as i64 * c as i64, 16384) as f32
        };
        let checks: Vec<(&str, Option<f32>, f32, i32)> = vec![
            ("ascent", Some(m.ascent), 800.0, 101),
            ("descent", Some(m.descent), -200.0, -57),
            ("leading", Some(m.leading), 10.0, 7),
            ("x_height", m.x_height, 500.0, -15),
            ("cap_height", m.cap_height, 700.0, 33),
        ];
        for (name, got, base, d) in checks {
            n += 1;
            let exp = base + delta(d);
            let case = json!({"kind":"metrics_mvar","coords":cs,"metric":name});
            // one unit of slack only at the non-dyadic location (scalar rounded to 16.16 before the product)
            let ok = match got {
                Some(g) => g == exp || (c == ONE / 4 + 1 && (g - exp).abs() <= 1.0),
                None => false,
            };
            if !ok {
                run.violation(&format!("skrifa Metrics::{name} wrong with MVAR"), &format!("{case}: got {:?} expected {} (base {} + delta of {} at peak)", got, exp, base, d), case);
            }
            let dg = digest_of(&("mvar", &cs, name, got.map(|g| g.to_bits())));
            all.insert(dg);
            if c > 0 {
                non.insert(dg);
            }
        }
    }
    run.evals(n);
    run.trans(n);
    run.count("e.mvar_metric_queries", n);
    run.observe_many(&all, &non);
}


// ---------------------------------------------------------------------------
// (f) DeltaSetIndexMap builder: every inner x outer bit width, i.e. packed entries on both sides of
// every entry-size boundary (8/16/24/32 bits); format 0 (u16 count) and format 1 (u32 count); also
// read back through an HVAR table
// ---------------------------------------------------------------------------

pub fn index_pairs(ib: u32, ob: u32) -> Vec<(u16, u16)> {
    // (outer, inner) pairs whose ORed widths are exactly ob / ib bits
    let vals = |bits: u32| -> Vec<u16> {
        let top = 1u32 << (bits - 1);
        let mut v = vec![0u32, 1, top, (1u32 << bits) - 1, top | (top >> 1), top | 1];
        v.retain(|x| *x < (1 << bits));
        v.sort();
        v.dedup();
        v.into_iter().map(|x| x as u16).collect()
    };
    let mut out = vec![];
    for o in vals(ob) {
        for i in vals(ib) {
            out.push((o, i));
        }
    }
    out
}

fn check_index_map(pairs: &[(u16, u16)], count: usize, via_hvar: bool) -> Result<u64, (String, String)> {
    use read_fonts::FontRead;
    let entries: Vec<(u16, u16)> = (0..count).map(|k| pairs[k % pairs.len()]).collect();
    let map: DeltaSetIndexMap = entries.iter().map(|(o, i)| ((*o as u32) << 16) | *i as u32).collect();
    let lookup = |m: &read_fonts::tables::variations::DeltaSetIndexMap, what: &str| -> Result<u64, (String, String)> {
        let mut h = Fnv::new();
        for (k, (o, i)) in entries.iter().enumerate() {
            match m.get(k as u32) {
                Ok(ix) if ix.outer == *o && ix.inner == *i => {
                    h.u64(((ix.outer as u64) << 16) | ix.inner as u64);
                }
                Ok(ix) => {
                    return Err((
                        format!("DeltaSetIndexMap built by write-fonts reads back a different (outer, inner) ({what})"),
                        format!("entry {k} of {count}: wrote ({o}, {i}) read ({}, {})", ix.outer, ix.inner),
                    ))
                }
                Err(e) => return Err((format!("DeltaSetIndexMap built by write-fonts cannot be read ({what})"), format!("entry {k} of {count}: {e}"))),
            }
        }
        Ok(h.finish())
    };
    if via_hvar {
        use write_fonts::tables::hvar::Hvar;
        let region = VariationRegion::new(vec![RegionAxisCoordinates::new(f214(0), f214(ONE), f214(ONE))]);
        let mut sb = VariationStoreBuilder::new(1);
        sb.add_deltas(vec![(region, 1i32)]);
        let (store, _) = sb.build();
        let hvar = Hvar::new(store, Some(map), None, None);
        let mut fb = write_fonts::FontBuilder::new();
        fb.add_table(&hvar).map_err(|e| ("HVAR with a DeltaSetIndexMap does not compile".to_string(), format!("{e:?}")))?;
        let bytes = fb.build();
        let font = FontRef::new(&bytes).map_err(|e| ("harness: HVAR font does not parse".to_string(), format!("{e}")))?;
        let hv = font.hvar().map_err(|e| ("HVAR written by write-fonts does not parse".to_string(), format!("{e}")))?;
        let m = hv.advance_width_mapping().ok_or_else(|| ("HVAR advance mapping missing after compile".to_string(), String::new()))?.map_err(|e| ("HVAR advance mapping does not parse".to_string(), format!("{e}")))?;
        lookup(&m, "through HVAR")
    } else {
        let bytes = write_fonts::dump_table(&map).map_err(|e| ("DeltaSetIndexMap does not compile".to_string(), format!("{e:?}")))?;
        let m = read_fonts::tables::variations::DeltaSetIndexMap::read(read_fonts::FontData::new(&bytes)).map_err(|e| ("DeltaSetIndexMap written by write-fonts does not parse".to_string(), format!("{e}")))?;
        lookup(&m, if count > 65535 { "format 1" } else { "format 0" })
    }
}

pub fn index_map_family(run: &Run) {
    use rayon::prelude::*;
    let long_inner = [1u32, 2, 8, 9, 15, 16];
    let long_outer = [1u32, 8, 15, 16];
    run.bound(
        "f.delta_set_index_map",
        json!({"inner_bit_widths": "1..=16", "outer_bit_widths": "1..=16", "values_per_width": "0, 1, top bit, all ones, top two bits, top|1", "format0_entries": "every (outer, inner) pair once",
               "format1": {"inner_bits": long_inner, "outer_bits": long_outer, "entries": 65536 + 37}, "hvar_path": {"inner_bits": long_inner, "outer_bits": long_outer}}),
    );
    let mut jobs: Vec<(u32, u32, usize, bool)> = vec![];
    for ib in 1..=16u32 {
        for ob in 1..=16u32 {
            jobs.push((ib, ob, 0, false));
        }
    }
    for ib in long_inner {
        for ob in long_outer {
            jobs.push((ib, ob, 65536 + 37, false));
            jobs.push((ib, ob, 0, true));
        }
    }
    let all = std::sync::Mutex::new(HashSet::new());
    jobs.par_iter().for_each(|(ib, ob, count, via_hvar)| {
        let pairs = index_pairs(*ib, *ob);
        let count = if *count == 0 { pairs.len() } else { *count };
        run.eval();
        run.trans(count as u64);
        let case = json!({"kind":"index_map","inner_bits":ib,"outer_bits":ob,"entries":count,"via_hvar":via_hvar});
        match guard(|| check_index_map(&pairs, count, *via_hvar)) {
            Ok(Ok(d)) => {
                all.lock().unwrap().insert(digest_of(&("imap", ib, ob, count, via_hvar, d)));
            }
            Ok(Err((id, details))) => {
                if id.starts_with("harness") {
                    run.machinery_error(&format!("{id}: {details}"));
                } else {
                    run.violation(&format!("{id}; packed width {} bits", ib + ob), &format!("inner {ib} bits, outer {ob} bits: {details}"), case)
                }
            }
            Err(p) => run.violation(&format!("DeltaSetIndexMap builder panic: {} in {}", p.kind(), p.site()), &format!("inner {ib} bits, outer {ob} bits, {count} entries: {}", p.message), case),
        }
    });
    let a = all.into_inner().unwrap();
    run.count("f.index_maps", jobs.len() as u64);
    run.observe_many(&a, &a);
}


// ---------------------------------------------------------------------------
// (c5) avar version 2 with large deltas: v + delta sweeps across -2.5 .. 2.5, i.e. past the range of
// F2Dot14 itself. Reference: clamp(v + sum delta_r * tent_r, -1, 1) in exact rationals, where v are the
// coordinates after fvar normalisation and the avar 1 maps (computed with the separately verified
// VariationAxisRecord::normalize / SegmentMaps::apply) and rows/regions are read with read-fonts.
// ---------------------------------------------------------------------------

fn gcd(a: i128, b: i128) -> i128 {
    if b == 0 {
        a.abs().max(1)
    } else {
        gcd(b, a % b)
    }
}

/// specification tent of one region over n axes at `loc` (F2Dot14 bits), as a reduced fraction
fn tent_n(region: &[(i16, i16, i16)], loc: &[i16]) -> (i128, i128) {
    let (mut num, mut den) = (1i128, 1i128);
    for (axis, (s, p, e)) in region.iter().enumerate() {
        let (s, p, e, c) = (*s as i128, *p as i128, *e as i128, loc.get(axis).copied().unwrap_or(0) as i128);
        if s > p || p > e || (s < 0 && e > 0 && p != 0) || p == 0 {
            continue;
        }
        if c < s || c > e {
            return (0, 1);
        }
        if c == p {
            continue;
        }
        if c < p {
            num *= c - s;
            den *= p - s;
        } else {
            num *= e - c;
            den *= e - p;
        }
        let g = gcd(num, den);
        num /= g;
        den /= g;
    }
    (num, den)
}

/// Check `Fvar::user_to_normalized` on an avar 2 font at one user location. Err = (identity, details)
pub fn check_avar2_location(font: &FontRef, user: &[i32], what: &str) -> Result<(Vec<i16>, bool), (String, String)> {
    let fvar = font.fvar().map_err(|e| ("harness: fvar".to_string(), format!("{e}")))?;
    let avar = font.avar().map_err(|e| ("harness: avar".to_string(), format!("{e}")))?;
    let axes = fvar.axes().map_err(|e| ("harness: axes".to_string(), format!("{e}")))?;
    let n = axes.len();
    // coordinates before the avar 2 step
    let maps: Vec<_> = avar.axis_segment_maps().iter().collect();
    let mut pre: Vec<i16> = vec![];
    for (i, axis) in axes.iter().enumerate() {
        let c = axis.normalize(Fixed::from_bits(user[i]));
        let c = match maps.get(i) {
            Some(Ok(m)) => m.apply(c),
            _ => c,
        };
        pre.push(c.to_f2dot14().to_bits());
    }
    // implementation
    let mut got = vec![F2Dot14::ZERO; n];
    let settings: Vec<(Tag, Fixed)> = axes.iter().enumerate().map(|(i, a)| (a.axis_tag(), Fixed::from_bits(user[i]))).collect();
    fvar.user_to_normalized(Some(&avar), settings, &mut got);
    let got: Vec<i16> = got.iter().map(|c| c.to_bits()).collect();
    // reference
    let store = match avar.var_store() {
        Some(Ok(s)) => s,
        _ => return Err(("harness: avar 2 store missing".to_string(), String::new())),
    };
    let regions: Vec<Vec<(i16, i16, i16)>> = store
        .variation_region_list()
        .map_err(|e| ("harness: region list".to_string(), format!("{e}")))?
        .variation_regions()
        .iter()
        .map(|r| r.map(|r| r.region_axes().iter().map(|a| (a.start_coord().to_bits(), a.peak_coord().to_bits(), a.end_coord().to_bits())).collect()))
        .collect::<Result<_, _>>()
        .map_err(|e| ("harness: regions".to_string(), format!("{e}")))?;
    let index_map = avar.axis_index_map();
    let mut past_range = false;
    for i in 0..n {
        let ix = match &index_map {
            Some(Ok(m)) => match m.get(i as u32) {
                Ok(ix) => ix,
                Err(_) => continue,
            },
            _ => read_fonts::tables::variations::DeltaSetIndex { outer: 0, inner: i as u16 },
        };
        // exact sum of the row, as a fraction of F2Dot14 units
        let (mut sn, mut sd) = (0i128, 1i128);
        if let Some(Ok(data)) = store.item_variation_data().get(ix.outer as usize) {
            if ix.inner < data.item_count() {
                let idx = data.region_indexes();
                for (col, delta) in data.delta_set(ix.inner).enumerate() {
                    let Some(ri) = idx.get(col) else { continue };
                    let Some(region) = regions.get(ri.get() as usize) else { continue };
                    let (tn, td) = tent_n(region, &pre);
                    sn = sn * td + delta as i128 * tn * sd;
                    sd *= td;
                    let g = gcd(sn, sd);
                    sn /= g;
                    sd /= g;
                }
            }
        }
        // x = pre + sum; expected = clamp(x) within one unit (float evaluation, final rounding)
        let xn = pre[i] as i128 * sd + sn;
        if (xn.abs() as f64) / (sd as f64) >= 32768.0 - 1.0 {
            past_range = true;
        }
        let lo = (xn.div_euclid(sd)).clamp(-16384, 16384);
        let hi = ((xn + sd - 1).div_euclid(sd)).clamp(-16384, 16384);
        let g = got[i] as i128;
        if g < lo - 1 || g > hi + 1 {
            let id = if g.abs() > 16384 {
                "Fvar::user_to_normalized leaves an avar 2 coordinate outside [-1, 1]".to_string()
            } else if (lo == 16384 && g < 0) || (hi == -16384 && g > 0) {
                "Fvar::user_to_normalized: an avar 2 coordinate past the end of the range clamps to the wrong end".to_string()
            } else {
                "Fvar::user_to_normalized differs from the exact avar 2 result".to_string()
            };
            return Err((
                id,
                format!("{what}: user {:?} -> coordinates before avar 2 {:?}; axis {i}: exact v + delta = {:.5}, expected {:.5}, got {:.5} (all coordinates {:?})", user.iter().map(|u| *u as f64 / 65536.0).collect::<Vec<_>>(), pre, xn as f64 / sd as f64 / 16384.0, lo as f64 / 16384.0, g as f64 / 16384.0, got),
            ));
        }
    }
    Ok((got, past_range))
}

/// synthesised 2-axis font: avar 2 adds to each axis d_pos * tent(other axis in (0,1,1)) + d_neg * tent(other in (-1,-1,0))
fn avar2_font(d_pos: i32, d_neg: i32) -> Vec<u8> {
    use write_fonts::tables::avar::{Avar, AxisValueMap, SegmentMaps};
    use write_fonts::tables::fvar::{AxisInstanceArrays, Fvar, VariationAxisRecord};
    let fx = |v: i32| Fixed::from_bits(v << 16);
    let fvar = Fvar::new(AxisInstanceArrays::new(
        vec![VariationAxisRecord::new(TAG_A, fx(100), fx(400), fx(900), 0, NameId::new(256)), VariationAxisRecord::new(TAG_B, fx(50), fx(100), fx(200), 0, NameId::new(257))],
        vec![],
    ));
    let ident = || SegmentMaps::new([(-ONE, -ONE), (0, 0), (ONE, ONE)].iter().map(|(f, t)| AxisValueMap::new(f214(*f), f214(*t))).collect());
    let mut avar = Avar::new(vec![ident(), ident()]);
    let zero = || RegionAxisCoordinates::new(f214(0), f214(0), f214(0));
    let pos = || RegionAxisCoordinates::new(f214(0), f214(ONE), f214(ONE));
    let neg = || RegionAxisCoordinates::new(f214(-ONE), f214(-ONE), f214(0));
    let mut sb = VariationStoreBuilder::new_with_implicit_indices(2);
    // row 0: axis A moved by axis B; row 1: axis B moved by axis A
    sb.add_deltas(vec![(VariationRegion::new(vec![zero(), pos()]), d_pos), (VariationRegion::new(vec![zero(), neg()]), d_neg)]);
    sb.add_deltas(vec![(VariationRegion::new(vec![pos(), zero()]), d_pos), (VariationRegion::new(vec![neg(), zero()]), d_neg)]);
    let (store, _) = sb.build();
    avar.var_store = Some(store).into();
    avar.axis_index_map = Some([0u32, 1u32].into_iter().collect::<DeltaSetIndexMap>()).into();
    let mut b = write_fonts::FontBuilder::new();
    b.add_table(&fvar).unwrap();
    b.add_table(&avar).unwrap();
    b.build()
}

pub fn avar2_extremes(run: &Run) {
    use rayon::prelude::*;
    // deltas in F2Dot14 units: 1.0 = 16384. With v in {-1, -0.5, 0, 0.5, 1} the sum v + delta reaches
    // +-1, +-1.99994, +-2, +-2.5 and beyond
    let deltas: Vec<i32> = vec![0, 16383, 16384, 16385, 24576, 32767, 32768, 49152, 57344, -16383, -16384, -16385, -24576, -32767, -32768, -49152, -57344];
    let ua: Vec<i32> = vec![100, 250, 400, 650, 900];
    let ub: Vec<i32> = vec![50, 75, 100, 150, 200];
    run.bound(
        "c5.avar2_extremes",
        json!({"synthesised": {"axes": [["wght", 100, 400, 900], ["wdth", 50, 100, 200]], "store": "each axis += d_pos * tent(other in (0,1,1)) + d_neg * tent(other in (-1,-1,0))", "d_pos_d_neg_f2dot14_units": deltas,
               "user_values": [ua, ub], "monotone": "in each user coordinate, the other fixed"},
               "fixture": {"font": "font-test-data/test_data/ttf/avar2checker.ttf", "user_values_per_axis": "min, (min+default)/2, default, (default+max)/2, max (min/default/max when more than 3 axes), all combinations"},
               "reference": "clamp(v + sum delta_r * tent_r, -1, 1), tolerance one F2Dot14 unit"}),
    );
    let all = std::sync::Mutex::new(HashSet::new());
    let non = std::sync::Mutex::new(HashSet::new());
    let past = std::sync::atomic::AtomicU64::new(0);
    let evals = std::sync::atomic::AtomicU64::new(0);
    let pairs: Vec<(i32, i32)> = deltas.iter().flat_map(|p| deltas.iter().map(move |n| (*p, *n))).collect();
    pairs.par_iter().for_each(|(dp, dn)| {
        let bytes = avar2_font(*dp, *dn);
        let Ok(font) = FontRef::new(&bytes) else {
            run.machinery_error("avar 2 font does not parse");
            return;
        };
        let (mut la, mut ln) = (HashSet::new(), HashSet::new());
        let mut grid: Vec<Vec<Vec<i16>>> = vec![vec![vec![]; ub.len()]; ua.len()];
        for (ia, a) in ua.iter().enumerate() {
            for (ib, b) in ub.iter().enumerate() {
                evals.fetch_add(1, std::sync::atomic::Ordering::Relaxed);
                let user = [a << 16, b << 16];
                let case = json!({"kind":"norm_avar2_extremes","d_pos":dp,"d_neg":dn,"user":[a,b]});
                match guard(|| check_avar2_location(&font, &user, &format!("synthesised avar 2 font (d_pos {dp}, d_neg {dn})"))) {
                    Ok(Ok((got, pr))) => {
                        if pr {
                            past.fetch_add(1, std::sync::atomic::Ordering::Relaxed);
                        }
                        let d = digest_of(&("avar2x", dp, dn, a, b, &got));
                        la.insert(d);
                        if got.iter().any(|c| *c != 0) {
                            ln.insert(d);
                        }
                        grid[ia][ib] = got;
                    }
                    Ok(Err((id, details))) => {
                        if id.starts_with("harness") {
                            run.machinery_error(&format!("{id}: {details}"));
                        } else {
                            run.violation(&id, &details, case)
                        }
                    }
                    Err(p) => run.violation(&format!("Fvar::user_to_normalized panic: {}", p.kind()), &p.message, case),
                }
            }
        }
        // monotone: axis A's coordinate in user A (B fixed), axis B's in user B (A fixed)
        for ib in 0..ub.len() {
            for ia in 1..ua.len() {
                if let (Some(x), Some(y)) = (grid[ia - 1][ib].first(), grid[ia][ib].first()) {
                    if y < x {
                        run.violation("Fvar::user_to_normalized with avar 2 is not monotone in the axis' own user coordinate", &format!("d_pos {dp} d_neg {dn}: wght {} -> {}, wght {} -> {} at wdth {}", ua[ia - 1], x, ua[ia], y, ub[ib]), json!({"kind":"norm_avar2_extremes","d_pos":dp,"d_neg":dn,"user":[ua[ia], ub[ib]]}));
                    }
                }
            }
        }
        for ia in 0..ua.len() {
            for ib in 1..ub.len() {
                if let (Some(x), Some(y)) = (grid[ia][ib - 1].get(1), grid[ia][ib].get(1)) {
                    if y < x {
                        run.violation("Fvar::user_to_normalized with avar 2 is not monotone in the axis' own user coordinate", &format!("d_pos {dp} d_neg {dn}: wdth {} -> {}, wdth {} -> {} at wght {}", ub[ib - 1], x, ub[ib], y, ua[ia]), json!({"kind":"norm_avar2_extremes","d_pos":dp,"d_neg":dn,"user":[ua[ia], ub[ib]]}));
                    }
                }
            }
        }
        all.lock().unwrap().extend(la);
        non.lock().unwrap().extend(ln);
    });
    // fixture
    let path = repo_root().join("font-test-data/test_data/ttf/avar2checker.ttf");
    match std::fs::read(&path) {
        Ok(bytes) => {
            let font = FontRef::new(&bytes).expect("avar2checker parses");
            let axes: Vec<(i32, i32, i32)> = font.fvar().and_then(|f| f.axes()).map(|a| a.iter().map(|x| (x.min_value().to_bits(), x.default_value().to_bits(), x.max_value().to_bits())).collect()).unwrap_or_default();
            let per_axis: Vec<Vec<i32>> = axes
                .iter()
                .map(|(mn, df, mx)| {
                    let mut v = if axes.len() > 3 { vec![*mn, *df, *mx] } else { vec![*mn, ((*mn as i64 + *df as i64) / 2) as i32, *df, ((*df as i64 + *mx as i64) / 2) as i32, *mx] };
                    v.sort();
                    v.dedup();
                    v
                })
                .collect();
            let total: usize = per_axis.iter().map(|v| v.len()).product();
            run.count("c5.fixture_axes", axes.len() as u64);
            for c in 0..total {
                let mut x = c;
                let user: Vec<i32> = per_axis
                    .iter()
                    .map(|v| {
                        let u = v[x % v.len()];
                        x /= v.len();
                        u
                    })
                    .collect();
                evals.fetch_add(1, std::sync::atomic::Ordering::Relaxed);
                let case = json!({"kind":"norm_avar2_fixture","user":user});
                match guard(|| check_avar2_location(&font, &user, "avar2checker.ttf")) {
                    Ok(Ok((got, pr))) => {
                        if pr {
                            past.fetch_add(1, std::sync::atomic::Ordering::Relaxed);
                        }
                        let d = digest_of(&("avar2fixture", &user, &got));
                        all.lock().unwrap().insert(d);
                        non.lock().unwrap().insert(d);
                    }
                    Ok(Err((id, details))) => {
                        if id.starts_with("harness") {
                            run.machinery_error(&format!("{id}: {details}"));
                        } else {
                            run.violation(&id, &details, case)
                        }
                    }
                    Err(p) => run.violation(&format!("Fvar::user_to_normalized panic: {}", p.kind()), &p.message, case),
                }
            }
            run.count("c5.fixture_locations", total as u64);
        }
        Err(e) => run.machinery_error(&format!("cannot read avar2checker.ttf: {e}")),
    }
    let n = evals.load(std::sync::atomic::Ordering::Relaxed);
    run.evals(n);
    run.trans(n);
    run.count("c5.evaluations", n);
    run.count("c5.locations_where_v_plus_delta_reaches_2", past.load(std::sync::atomic::Ordering::Relaxed));
    run.observe_many(&all.into_inner().unwrap(), &non.into_inner().unwrap());
}


// ---------------------------------------------------------------------------
// (g) HVAR and VVAR accessor families at the read-fonts level: every accessor must resolve the glyph
// through ITS OWN optional DeltaSetIndexMap. Each accessor has its own rows with distinct deltas; every
// subset of the optional maps present/absent; full and truncated maps; glyph ids within and beyond
// each map; deltas against delta x tent in exact integers.
// ---------------------------------------------------------------------------

const MV_GLYPHS: usize = 6;

/// delta of accessor k for glyph g at the region peak: all distinct
fn mv_delta(k: usize, g: usize) -> i32 {
    let v = (k as i32 + 1) * 100 + g as i32 * 7 + 1;
    if (k + g) % 2 == 0 {
        v
    } else {
        -v
    }
}

/// returns Err((identity, details)) on the first wrong answer, Ok(digest, queries) otherwise
fn check_metric_var_table(vertical: bool, present: u32, truncated: bool) -> Result<(u64, u64), (String, String)> {
    use read_fonts::FontRead;
    let names: &[&str] = if vertical { &["advance_height_delta", "tsb_delta", "bsb_delta", "v_org_delta"] } else { &["advance_width_delta", "lsb_delta", "rsb_delta"] };
    let table = if vertical { "Vvar" } else { "Hvar" };
    let na = names.len();
    let region = VariationRegion::new(vec![RegionAxisCoordinates::new(f214(0), f214(ONE), f214(ONE))]);
    // implicit-index builder: one sub-table, rows in insertion order; the advance rows come first so that
    // an absent advance map (implicit index = glyph id) addresses them
    let mut sb = VariationStoreBuilder::new_with_implicit_indices(1);
    let mut row_delta: Vec<i32> = vec![];
    let mut ids: Vec<Vec<u32>> = vec![];
    for k in 0..na {
        let mut v = vec![];
        for g in 0..MV_GLYPHS {
            v.push(sb.add_deltas(vec![(region.clone(), mv_delta(k, g))]));
            row_delta.push(mv_delta(k, g));
        }
        ids.push(v);
    }
    let (store, remap) = sb.build();
    let map_len = if truncated { 3 } else { MV_GLYPHS };
    let maps: Vec<Option<DeltaSetIndexMap>> = (0..na)
        .map(|k| {
            if present >> k & 1 == 1 {
                Some(ids[k][..map_len].iter().map(|id| u32::from(remap.get(*id).expect("id"))).collect())
            } else {
                None
            }
        })
        .collect();
    let bytes = if vertical {
        write_fonts::dump_table(&write_fonts::tables::vvar::Vvar::new(store, maps[0].clone(), maps[1].clone(), maps[2].clone(), maps[3].clone()))
    } else {
        write_fonts::dump_table(&write_fonts::tables::hvar::Hvar::new(store, maps[0].clone(), maps[1].clone(), maps[2].clone()))
    }
    .map_err(|e| (format!("harness: {table} does not compile"), format!("{e:?}")))?;
    let data = read_fonts::FontData::new(&bytes);
    let hv = if vertical { None } else { Some(read_fonts::tables::hvar::Hvar::read(data).map_err(|e| ("harness: Hvar does not parse".to_string(), format!("{e}")))?) };
    let vv = if vertical { Some(read_fonts::tables::vvar::Vvar::read(data).map_err(|e| ("harness: Vvar does not parse".to_string(), format!("{e}")))?) } else { None };
    let mut h = Fnv::new();
    let mut n = 0u64;
    for cs in [vec![], vec![0i16], vec![ONE / 4], vec![ONE / 2], vec![ONE], vec![-ONE]] {
        let coords: Vec<F2Dot14> = cs.iter().map(|c| f214(*c)).collect();
        for gid in 0..MV_GLYPHS + 2 {
            for k in 0..na {
                n += 1;
                let g = GlyphId::new(gid as u32);
                let got: Result<Fixed, read_fonts::ReadError> = match (vertical, k) {
                    (false, 0) => hv.as_ref().unwrap().advance_width_delta(g, &coords),
                    (false, 1) => hv.as_ref().unwrap().lsb_delta(g, &coords),
                    (false, _) => hv.as_ref().unwrap().rsb_delta(g, &coords),
                    (true, 0) => vv.as_ref().unwrap().advance_height_delta(g, &coords),
                    (true, 1) => vv.as_ref().unwrap().tsb_delta(g, &coords),
                    (true, 2) => vv.as_ref().unwrap().bsb_delta(g, &coords),
                    (true, _) => vv.as_ref().unwrap().v_org_delta(g, &coords),
                };
                // expected: None = an error (no map for a non-advance accessor), Some(delta)
                let peak: Option<Option<i32>> = if cs.is_empty() {
                    Some(Some(0)) // no coordinates: always zero
                } else if present >> k & 1 == 1 {
                    Some(Some(mv_delta(k, gid.min(map_len - 1))))
                } else if k == 0 {
                    // implicit index (0, glyph id): the row with that number, whatever it belongs to
                    if gid < row_delta.len() {
                        Some(Some(row_delta[gid]))
                    } else {
                        None // past the rows: not judged
                    }
                } else {
                    Some(None)
                };
                let Some(peak) = peak else { continue };
                let c = cs.first().copied().unwrap_or(0);
                let exp: Option<i32> = peak.map(|d| if cs.is_empty() || c <= 0 { 0 } else { round_half_up(d as i64 * c as i64, 16384) as i32 });
                let ok = match (&got, exp) {
                    (Ok(f), Some(e)) => f.to_bits() as i64 == (e as i64) << 16,
                    (Err(_), None) => true,
                    _ => false,
                };
                if !ok {
                    return Err((
                        format!("{table}::{} resolves the wrong delta set", names[k]),
                        format!(
                            "maps present {:?} ({}), glyph {gid}, coords {:?}: got {:?}, expected {:?} (this accessor's row delta at peak: {:?})",
                            (0..na).filter(|j| present >> j & 1 == 1).map(|j| names[j]).collect::<Vec<_>>(),
                            if truncated { "3 entries each" } else { "one entry per glyph" },
                            cs,
                            got.as_ref().map(|f| f.to_f64()).map_err(|e| e.to_string()),
                            exp,
                            peak
                        ),
                    ));
                }
                h.i64(got.map(|f| f.to_bits() as i64).unwrap_or(i64::MIN));
            }
        }
    }
    Ok((h.finish(), n))
}

pub fn metric_var_tables(run: &Run) {
    run.bound(
        "g.hvar_vvar_accessors",
        json!({"tables": {"Hvar": ["advance_width_delta", "lsb_delta", "rsb_delta"], "Vvar": ["advance_height_delta", "tsb_delta", "bsb_delta", "v_org_delta"]}, "optional_maps": "every subset present/absent",
               "map_shapes": ["one entry per glyph", "truncated to 3 entries"], "glyphs": MV_GLYPHS, "glyph_ids": "0..=glyphs+1", "coords_f2dot14_bits": [[], [0], [ONE / 4], [ONE / 2], [ONE], [-ONE]],
               "rows": "one row per (accessor, glyph), all deltas distinct"}),
    );
    let mut all = HashSet::new();
    let mut n = 0u64;
    for vertical in [false, true] {
        let na = if vertical { 4 } else { 3 };
        for present in 0..(1u32 << na) {
            for truncated in [false, true] {
                let case = json!({"kind":"metric_var_table","vertical":vertical,"present":present,"truncated":truncated});
                match guard(|| check_metric_var_table(vertical, present, truncated)) {
                    Ok(Ok((d, q))) => {
                        n += q;
                        all.insert(digest_of(&("mv", vertical, present, truncated, d)));
                    }
                    Ok(Err((id, details))) => {
                        if id.starts_with("harness") {
                            run.machinery_error(&format!("{id}: {details}"));
                        } else {
                            run.violation(&id, &details, case)
                        }
                    }
                    Err(p) => run.violation(&format!("HVAR/VVAR accessor panic: {} in {}", p.kind(), p.site()), &p.message, case),
                }
            }
        }
    }
    run.evals(n);
    run.trans(n);
    run.count("g.accessor_queries", n);
    run.count("g.tables", 2 * (8 + 16));
    run.observe_many(&all, &all);
}


// ---------------------------------------------------------------------------
// (c6) skrifa `Axis::normalize(f32)`, the per-axis API: every axis of every bundled variable font and
// of synthesised single-axis fonts, user coordinates on, between and far outside the stops incl.
// non-integral values and magnitudes past 32768; exact reference, clamping, monotone, and agreement with
// `AxisCollection::location` for the same single-axis input when the font has no avar table.
// ---------------------------------------------------------------------------

fn axis_user_values(min: f64, def: f64, max: f64) -> Vec<f32> {
    let mut v: Vec<f64> = vec![min, def, max, (min + def) / 2.0, (def + max) / 2.0, def + (max - def) / 3.0, def - (def - min) / 3.0, def + (max - def) / 4.0, def + 0.5, def + 0.25, def - 0.5, max - 0.25, min + 0.5,
        (def + max) / 2.0 + 0.5, min - 1.0, min - 0.5, max + 0.5, max + 1.0, 0.0, 32767.0, -32767.0, 32767.5, 32768.0, -32768.0, 40000.0, -40000.0, 65536.0, 70000.0, -70000.0, 1e9, -1e9, f32::MAX as f64, f32::MIN as f64, f32::MIN_POSITIVE as f64];
    v.sort_by(|a, b| a.partial_cmp(b).unwrap());
    let mut out: Vec<f32> = v.into_iter().map(|x| x as f32).collect();
    out.dedup();
    out
}

fn check_axis_normalize(font: &FontRef, what: &str) -> Result<Vec<(u32, i16)>, (String, String)> {
    let axes = font.axes();
    let has_avar = font.avar().is_ok();
    let mut out = vec![];
    for axis in axes.iter() {
        let (min, def, max) = (axis.min_value() as f64, axis.default_value() as f64, axis.max_value() as f64);
        let ctx = format!("{what}, axis {} ({min}, {def}, {max})", axis.tag());
        let mut prev: Option<(f32, i16)> = None;
        for c in axis_user_values(min, def, max) {
            let got = axis.normalize(c).to_bits();
            out.push((c.to_bits(), got));
            // exact reference on the real number c
            let x = (c as f64).clamp(min, max.max(min));
            let exact = if x < def {
                -(def - x) / (def - min)
            } else if x > def {
                (x - def) / (max - def)
            } else {
                0.0
            };
            let span = if x < def { def - min } else { max - def };
            // user value rounded to 16.16, 16.16 division, F2Dot14 rounding: below one unit, more on a short span
            let tol = 1.0 + if span > 0.0 { (16384.0 / 131072.0 / span).ceil() } else { 0.0 };
            let diff = (got as f64 - exact * 16384.0).abs();
            let id = |s: &str| format!("skrifa Axis::normalize {s}");
            if (c as f64) <= min && min < def && got != -0x4000 {
                return Err((id("does not clamp to -1 at or below the minimum"), format!("{ctx}: normalize({c}) = {}", got as f64 / 16384.0)));
            }
            if (c as f64) >= max && def < max && got != 0x4000 {
                return Err((id("does not clamp to 1 at or above the maximum"), format!("{ctx}: normalize({c}) = {}", got as f64 / 16384.0)));
            }
            if c as f64 == def && got != 0 {
                return Err((id("does not map the default to 0"), format!("{ctx}: normalize({c}) = {}", got as f64 / 16384.0)));
            }
            if diff > tol {
                return Err((id("differs from the exact normalisation"), format!("{ctx}: normalize({c}) = {:.5}, exact {:.5}", got as f64 / 16384.0, exact)));
            }
            if let Some((pc, pg)) = prev {
                if got < pg {
                    return Err((id("is not monotone"), format!("{ctx}: normalize({pc}) = {pg} > normalize({c}) = {got}")));
                }
            }
            prev = Some((c, got));
            if !has_avar {
                let loc = axes.location([(axis.tag(), c)]);
                let l = loc.coords().get(axis.index()).map(|v| v.to_bits());
                if l != Some(got) {
                    return Err((
                        "skrifa Axis::normalize disagrees with AxisCollection::location for the same single-axis input".to_string(),
                        format!("{ctx}: normalize({c}) = {got}, location -> {:?}", l),
                    ));
                }
            }
        }
    }
    Ok(out)
}

pub fn axis_normalize(run: &Run) {
    let mut fonts: Vec<(String, Vec<u8>)> = corpus_fonts().into_iter().filter(|(_, b)| FontRef::new(b).map(|f| f.fvar().is_ok()).unwrap_or(false)).collect();
    let corpus = fonts.len();
    for (mn, df, mx) in [(100, 400, 900), (-1000, 0, 1000), (0, 0, 1), (0, 1, 1), (1, 400, 1000), (-32768, 0, 32767), (50, 100, 200), (0, 0, 0)] {
        fonts.push((format!("synthesised axis ({mn}, {df}, {mx})"), var_font_axis(mn << 16, df << 16, mx << 16)));
    }
    fonts.push(("synthesised axis (0.5, 1.25, 3.75)".into(), var_font_axis(0x8000, 0x14000, 0x3C000)));
    run.bound("c6.axis_normalize", json!({"corpus_fonts_with_fvar": corpus, "synthesised_single_axis_fonts": fonts.len() - corpus,
        "user_values_per_axis": "min, default, max, midpoints, thirds, quarters, +-0.25/0.5 off the stops, 1 and 0.5 outside, 0, +-32767, 32767.5, +-32768, +-40000, 65536, +-70000, +-1e9, f32::MAX/MIN, f32::MIN_POSITIVE",
        "oracles": ["exact value within one F2Dot14 unit (more on spans below 1)", "-1/0/1 at and beyond the stops", "monotone", "equal to AxisCollection::location when there is no avar"]}));
    let mut all = HashSet::new();
    let mut non = HashSet::new();
    let mut n = 0u64;
    let mut naxes = 0u64;
    for (name, bytes) in &fonts {
        let Ok(font) = FontRef::new(bytes) else { continue };
        naxes += font.axes().len() as u64;
        let case = json!({"kind":"axis_normalize","font":name});
        match guard(|| check_axis_normalize(&font, name)) {
            Ok(Ok(v)) => {
                n += v.len() as u64;
                for (c, g) in v {
                    let d = digest_of(&("axisnorm", name, c, g));
                    all.insert(d);
                    if g != 0 {
                        non.insert(d);
                    }
                }
            }
            Ok(Err((id, details))) => run.violation(&id, &details, case),
            Err(p) => run.violation(&format!("skrifa Axis::normalize panic: {} in {}", p.kind(), p.site()), &p.message, case),
        }
    }
    run.evals(n);
    run.trans(n);
    run.count("c6.axes", naxes);
    run.count("c6.evaluations", n);
    run.observe_many(&all, &non);
}

fn var_font_axis(min: i32, def: i32, max: i32) -> Vec<u8> {
    use write_fonts::tables::fvar::{AxisInstanceArrays, Fvar, VariationAxisRecord};
    let fvar = Fvar::new(AxisInstanceArrays::new(vec![VariationAxisRecord::new(TAG_A, Fixed::from_bits(min), Fixed::from_bits(def), Fixed::from_bits(max), 0, NameId::new(256))], vec![]));
    let mut b = write_fonts::FontBuilder::new();
    b.add_table(&fvar).unwrap();
    b.build()
}

pub fn replay(run: &Run, case: &Value) {
    match case["kind"].as_str().unwrap_or("") {
        "metrics_gvar" => gvar_metrics(run),
        "norm_two_axes" => multi_axis(run),
        "metrics_mvar" => mvar_metrics(run),
        "axis_normalize" => axis_normalize(run),
        "metric_var_table" => match check_metric_var_table(case["vertical"].as_bool().unwrap_or(false), case["present"].as_u64().unwrap_or(0) as u32, case["truncated"].as_bool().unwrap_or(false)) {
            Ok(_) => println!("replay: every accessor answers from its own map"),
            Err((id, d)) => run.violation(&id, &d, case.clone()),
        },
        "norm_avar2_extremes" | "norm_avar2_fixture" => avar2_extremes(run),
        "index_map" => {
            let (ib, ob) = (case["inner_bits"].as_u64().unwrap_or(1) as u32, case["outer_bits"].as_u64().unwrap_or(1) as u32);
            let pairs = index_pairs(ib, ob);
            match check_index_map(&pairs, case["entries"].as_u64().unwrap_or(1) as usize, case["via_hvar"].as_bool().unwrap_or(false)) {
                Ok(_) => println!("replay: map reads back"),
                Err((id, d)) => run.violation(&format!("{id}; packed width {} bits", ib + ob), &d, case.clone()),
            }
        }
        k => println!("replay: unknown kind {k}"),
    }
}
