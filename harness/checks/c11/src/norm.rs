//! (c) axis normalisation / segment maps / locations and (d) glyph metrics with HVAR.

use font_types::{F2Dot14, FWord, Fixed, GlyphId, NameId, Tag, UfWord};
use read_fonts::{FontData, FontRead, FontRef, TableProvider};
use serde_json::{json, Value};
use skrifa::MetadataProvider;
use std::collections::HashSet;
use vcore::*;
use write_fonts::dump_table;
use write_fonts::tables::variations::ivs_builder::VariationStoreBuilder;
use write_fonts::tables::variations::{DeltaSetIndexMap, RegionAxisCoordinates, VariationRegion};

const TAG: Tag = Tag::new(b"wght");

// ---------------------------------------------------------------------------
// (c1) VariationAxisRecord::normalize
// ---------------------------------------------------------------------------

fn axis_record(min: i32, def: i32, max: i32) -> read_fonts::tables::fvar::VariationAxisRecord {
    read_fonts::tables::fvar::VariationAxisRecord {
        axis_tag: TAG.into(),
        min_value: Fixed::from_bits(min).into(),
        default_value: Fixed::from_bits(def).into(),
        max_value: Fixed::from_bits(max).into(),
        flags: 0u16.into(),
        axis_name_id: NameId::new(256).into(),
    }
}

/// user values (16.16 bits) on and around the axis triple
fn user_values(min: i32, def: i32, max: i32) -> Vec<i32> {
    let mut v: Vec<i64> = vec![i32::MIN as i64, i32::MAX as i64, -32767 << 16, 32767 << 16];
    for p in [min as i64, def as i64, max as i64] {
        v.extend([p - 65536, p - 1, p, p + 1, p + 65536]);
    }
    let (mn, df, mx) = (min as i64, def as i64, max as i64);
    v.extend([(mn + df) / 2, (df + mx) / 2, df + (mx - df) / 4, df + (mx - df) / 3, df - (df - mn) / 4, df - (df - mn) / 3, df + 3 * (mx - df) / 4]);
    let mut out: Vec<i32> = v.into_iter().filter(|x| *x >= i32::MIN as i64 && *x <= i32::MAX as i64).map(|x| x as i32).collect();
    out.sort();
    out.dedup();
    out
}

/// Err = (identity, details)
fn check_normalize(min: i32, def: i32, max: i32) -> Result<Vec<(i32, i32)>, (String, String)> {
    let axis = axis_record(min, def, max);
    let n = |v: i32| axis.normalize(Fixed::from_bits(v)).to_bits();
    let one = 65536i32;
    let id = |s: &str| format!("VariationAxisRecord::normalize {s}");
    let ctx = format!("axis (min {}, default {}, max {})", min as f64 / 65536.0, def as f64 / 65536.0, max as f64 / 65536.0);
    if n(def) != 0 {
        return Err((id("default does not map to 0"), format!("{ctx}: normalize(default) = {}", n(def))));
    }
    if min < def && n(min) != -one {
        return Err((id("minimum does not map to -1"), format!("{ctx}: normalize(min) = {}", n(min) as f64 / 65536.0)));
    }
    if def < max && n(max) != one {
        return Err((id("maximum does not map to 1"), format!("{ctx}: normalize(max) = {}", n(max) as f64 / 65536.0)));
    }
    let vals = user_values(min, def, max);
    let mut prev: Option<(i32, i32)> = None;
    let mut out = vec![];
    for v in vals {
        let got = n(v);
        out.push((v, got));
        if v <= min && got != n(min) {
            return Err((id("does not clamp below the minimum"), format!("{ctx}: normalize({}) = {} but normalize(min) = {}", v as f64 / 65536.0, got, n(min))));
        }
        if v >= max && got != n(max) {
            return Err((id("does not clamp above the maximum"), format!("{ctx}: normalize({}) = {} but normalize(max) = {}", v as f64 / 65536.0, got, n(max))));
        }
        if let Some((pv, pg)) = prev {
            if got < pg {
                return Err((id("is not monotone"), format!("{ctx}: normalize({}) = {} > normalize({}) = {}", pv as f64 / 65536.0, pg, v as f64 / 65536.0, got)));
            }
        }
        prev = Some((v, got));
        // interior: exact rational within one 16.16 unit
        if v > min && v < max && v != def {
            let (num, span) = if v > def { ((v as i128 - def as i128), (max as i128 - def as i128)) } else { ((v as i128 - def as i128), (def as i128 - min as i128)) };
            // |got*span - num*65536| <= span
            let err = (got as i128 * span - num * 65536).abs();
            if err > span {
                return Err((
                    id("is not the linear interpolation between min/default/max"),
                    format!("{ctx}: normalize({}) = {} expected {}", v as f64 / 65536.0, got as f64 / 65536.0, num as f64 / span as f64),
                ));
            }
        }
    }
    Ok(out)
}

// ---------------------------------------------------------------------------
// (c2) SegmentMaps::apply
// ---------------------------------------------------------------------------

const F214: [i16; 5] = [-0x4000, -0x2000, 0, 0x1000, 0x4000];

fn segment_bytes(points: &[(i16, i16)]) -> Vec<u8> {
    let mut b = vec![];
    b.extend((points.len() as u16).to_be_bytes());
    for (f, t) in points {
        b.extend(f.to_be_bytes());
        b.extend(t.to_be_bytes());
    }
    b
}

fn all_segment_maps(max_points: usize) -> Vec<Vec<(i16, i16)>> {
    // from strictly increasing, to non-decreasing, both over F214
    fn rec(cur: &mut Vec<(i16, i16)>, max_points: usize, out: &mut Vec<Vec<(i16, i16)>>) {
        if !cur.is_empty() {
            out.push(cur.clone());
        }
        if cur.len() == max_points {
            return;
        }
        let (lf, lt) = cur.last().copied().unwrap_or((i16::MIN, i16::MIN));
        for f in F214.iter().filter(|f| **f > lf) {
            for t in F214.iter().filter(|t| **t >= lt) {
                cur.push((*f, *t));
                rec(cur, max_points, out);
                cur.pop();
            }
        }
    }
    let mut out = vec![];
    rec(&mut vec![], max_points, &mut out);
    out
}

pub fn check_segment_map(points: &[(i16, i16)]) -> Result<u64, (String, String)> {
    let bytes = segment_bytes(points);
    let sm = read_fonts::tables::avar::SegmentMaps::read(FontData::new(&bytes)).map_err(|e| ("harness: SegmentMaps bytes do not parse".to_string(), format!("{e}")))?;
    let fx = |b: i16| (b as i32) << 2; // F2Dot14 bits -> 16.16 bits
    let apply = |c: i32| sm.apply(Fixed::from_bits(c)).to_bits();
    let first = fx(points[0].0);
    let last = fx(points[points.len() - 1].0);
    let mut inputs: Vec<i32> = vec![];
    for (i, (f, _)) in points.iter().enumerate() {
        let f = fx(*f);
        inputs.extend([f - 1, f, f + 1]);
        if i + 1 < points.len() {
            let g = fx(points[i + 1].0);
            inputs.extend([(f + g) / 2, f + (g - f) / 4, f + (g - f) / 3, g - (g - f) / 4]);
        }
    }
    inputs.sort();
    inputs.dedup();
    let mut h = Fnv::new();
    let mut prev: Option<i32> = None;
    for c in inputs {
        if c < first || c > last {
            continue; // outside the mapped range the specification requires -1/+1 end points; not judged
        }
        let got = apply(c);
        h.i64(got as i64);
        let ctx = format!("map {:?} at {}", points.iter().map(|(f, t)| (*f as f64 / 16384.0, *t as f64 / 16384.0)).collect::<Vec<_>>(), c as f64 / 65536.0);
        // segment containing c
        let i = points.iter().rposition(|(f, _)| fx(*f) <= c).unwrap();
        let (f0, t0) = (fx(points[i].0) as i128, fx(points[i].1) as i128);
        if c as i128 == f0 {
            if got as i128 != t0 {
                return Err(("SegmentMaps::apply does not map a from-coordinate to its to-coordinate".into(), format!("{ctx}: got {}", got as f64 / 65536.0)));
            }
        } else {
            let (f1, t1) = (fx(points[i + 1].0) as i128, fx(points[i + 1].1) as i128);
            // exact: t0 + (t1-t0)*(c-f0)/(f1-f0); tolerance one 16.16 unit
            let err = ((got as i128 - t0) * (f1 - f0) - (t1 - t0) * (c as i128 - f0)).abs();
            if err > (f1 - f0) {
                return Err((
                    "SegmentMaps::apply is not the linear interpolation between neighbouring points".into(),
                    format!("{ctx}: got {} expected {}", got as f64 / 65536.0, (t0 as f64 + (t1 - t0) as f64 * (c as i128 - f0) as f64 / (f1 - f0) as f64) / 65536.0),
                ));
            }
        }
        if let Some(p) = prev {
            if got < p {
                return Err(("SegmentMaps::apply is not monotone".into(), ctx));
            }
        }
        prev = Some(got);
    }
    Ok(h.finish())
}

// ---------------------------------------------------------------------------
// (c3) Fvar::user_to_normalized and skrifa locations on a built font
// ---------------------------------------------------------------------------

fn var_font(min: i32, def: i32, max: i32, avar_extra: Option<(i16, i16)>) -> Vec<u8> {
    use write_fonts::tables::avar::{Avar, AxisValueMap, SegmentMaps};
    use write_fonts::tables::fvar::{AxisInstanceArrays, Fvar, VariationAxisRecord};
    let fvar = Fvar::new(AxisInstanceArrays::new(
        vec![VariationAxisRecord::new(TAG, Fixed::from_bits(min), Fixed::from_bits(def), Fixed::from_bits(max), 0, NameId::new(256))],
        vec![],
    ));
    let mut b = write_fonts::FontBuilder::new();
    b.add_table(&fvar).expect("fvar");
    if let Some((f, t)) = avar_extra {
        let mut pts = vec![(-0x4000i16, -0x4000i16), (0, 0), (0x4000, 0x4000)];
        pts.push((f, t));
        pts.sort();
        let avar = Avar::new(vec![SegmentMaps::new(pts.iter().map(|(f, t)| AxisValueMap::new(F2Dot14::from_bits(*f), F2Dot14::from_bits(*t))).collect())]);
        b.add_table(&avar).expect("avar");
    }
    b.build()
}

fn to_f2dot14_bits(fixed_bits: i32) -> i16 {
    ((fixed_bits + 2) >> 2) as i16
}

fn check_location(min: i32, def: i32, max: i32, extra: Option<(i16, i16)>) -> Result<u64, (String, String)> {
    let bytes = var_font(min, def, max, extra);
    let font = FontRef::new(&bytes).map_err(|e| ("harness: variable font does not parse".to_string(), format!("{e}")))?;
    let fvar = font.fvar().map_err(|e| ("harness: fvar".to_string(), format!("{e}")))?;
    let avar = font.avar().ok();
    let axis = axis_record(min, def, max);
    let ctx = format!("axis ({}, {}, {}) avar extra point {:?}", min as f64 / 65536.0, def as f64 / 65536.0, max as f64 / 65536.0, extra.map(|(f, t)| (f as f64 / 16384.0, t as f64 / 16384.0)));
    let mut h = Fnv::new();
    let mut prev: Option<i16> = None;
    for v in user_values(min, def, max) {
        let mut coords = [F2Dot14::ZERO];
        fvar.user_to_normalized(avar.as_ref(), [(TAG, Fixed::from_bits(v))], &mut coords);
        let got = coords[0].to_bits();
        h.i64(got as i64);
        // exact points
        let want_exact: Option<i16> = if v == def {
            Some(0)
        } else if v <= min && min < def {
            Some(-0x4000)
        } else if v >= max && def < max {
            Some(0x4000)
        } else {
            None
        };
        if let Some(w) = want_exact {
            if got != w {
                return Err((
                    "Fvar::user_to_normalized does not map min/default/max to -1/0/1".into(),
                    format!("{ctx}: user {} -> {} expected {}", v as f64 / 65536.0, got as f64 / 16384.0, w as f64 / 16384.0),
                ));
            }
        }
        // the avar point: a user value that normalises exactly onto `from` must yield `to`
        if let Some((f, t)) = extra {
            let nb = axis.normalize(Fixed::from_bits(v)).to_bits();
            if nb == (f as i32) << 2 && got != t {
                return Err((
                    "Fvar::user_to_normalized ignores the avar segment map".into(),
                    format!("{ctx}: user {} normalises to {} and must map to {}, got {}", v as f64 / 65536.0, f as f64 / 16384.0, t as f64 / 16384.0, got as f64 / 16384.0),
                ));
            }
        }
        if extra.is_none() {
            // without avar: F2Dot14 rounding of normalize
            let w = to_f2dot14_bits(axis.normalize(Fixed::from_bits(v)).to_bits());
            if got != w {
                return Err(("Fvar::user_to_normalized differs from normalize rounded to F2Dot14".into(), format!("{ctx}: user {} -> {} expected {}", v as f64 / 65536.0, got, w)));
            }
        }
        if let Some(p) = prev {
            if got < p {
                return Err(("Fvar::user_to_normalized is not monotone".into(), format!("{ctx}: at user {}", v as f64 / 65536.0)));
            }
        }
        prev = Some(got);
        // skrifa: same answer for user values exactly representable as f32
        let vf = v as f64 / 65536.0;
        if (vf as f32) as f64 == vf {
            let loc = font.axes().location([(TAG, vf as f32)]);
            let s = loc.coords().first().map(|c| c.to_bits());
            if s != Some(got) {
                return Err((
                    "skrifa AxisCollection::location differs from Fvar::user_to_normalized".into(),
                    format!("{ctx}: user {} -> {:?} vs {}", vf, s, got),
                ));
            }
        }
    }
    Ok(h.finish())
}

pub fn normalisation(run: &Run) {
    let vals = [-1000i32, 0, 1, 400, 1000];
    let mut triples = vec![];
    for a in vals {
        for b in vals {
            for c in vals {
                if a <= b && b <= c {
                    triples.push((a << 16, b << 16, c << 16));
                }
            }
        }
    }
    // plus fractional and extreme axes
    triples.extend([(0, 0x8000, 0x10000), (-(1 << 16), 0, 3 << 16), (100 << 16, 400 << 16, 900 << 16), (-32768 << 16, 0, 32767 << 16), (1, 2, 3)]);
    run.bound("c.axis_triples", json!({"values": vals, "triples": triples.len(), "user_values_per_triple": "each of min/default/max -1.0, -1ulp, +0, +1ulp, +1.0; midpoints, quarter and third points; +-32767; Fixed::MIN/MAX"}));
    let mut all = HashSet::new();
    let mut non = HashSet::new();
    let mut n = 0u64;
    for (mn, df, mx) in &triples {
        match guard(|| check_normalize(*mn, *df, *mx)) {
            Ok(Ok(pairs)) => {
                n += pairs.len() as u64;
                for (v, g) in pairs {
                    let d = digest_of(&("norm", mn, df, mx, v, g));
                    all.insert(d);
                    if g != 0 {
                        non.insert(d);
                    }
                }
            }
            Ok(Err((id, details))) => run.violation(&id, &details, json!({"kind":"norm","min":mn,"default":df,"max":mx})),
            Err(p) => run.violation(&format!("VariationAxisRecord::normalize panic: {}", p.kind()), &p.message, json!({"kind":"norm","min":mn,"default":df,"max":mx})),
        }
    }
    run.evals(n);
    run.count("c.normalize_evaluations", n);

    // segment maps
    let maps = all_segment_maps(4);
    run.bound("c.segment_maps", json!({"max_points": 4, "coordinate_alphabet": F214.iter().map(|b| *b as f64 / 16384.0).collect::<Vec<_>>(), "maps": maps.len(), "inputs": "each from-point -1ulp/+0/+1ulp (16.16), midpoints, quarter and third points; only inputs within [first from, last from] are judged"}));
    for m in &maps {
        match guard(|| check_segment_map(m)) {
            Ok(Ok(d)) => {
                all.insert(d);
                if m.iter().any(|(f, t)| f != t) {
                    non.insert(d);
                }
            }
            Ok(Err((id, details))) => {
                if id.starts_with("harness") {
                    run.machinery_error(&format!("{id}: {details}"));
                } else {
                    run.violation(&id, &details, json!({"kind":"segment_map","points":m}))
                }
            }
            Err(p) => run.violation(&format!("SegmentMaps::apply panic: {}", p.kind()), &p.message, json!({"kind":"segment_map","points":m})),
        }
    }
    run.evals(maps.len() as u64);
    run.trans(maps.len() as u64 * 12);
    run.count("c.segment_maps", maps.len() as u64);

    // built fonts: fvar (+ avar) through read-fonts and skrifa
    let extras: Vec<Option<(i16, i16)>> = vec![None, Some((0x1000, 0x2000)), Some((0x2000, 0x1000)), Some((-0x2000, -0x3000)), Some((0x1000, 0))];
    run.bound("c.locations", json!({"triples": triples.len(), "avar": "none, or the three required points plus one of (0.25->0.5), (0.5->0.25), (-0.5->-0.75), (0.25->0)"}));
    let mut nloc = 0u64;
    for (mn, df, mx) in &triples {
        for e in &extras {
            nloc += 1;
            match guard(|| check_location(*mn, *df, *mx, *e)) {
                Ok(Ok(d)) => {
                    all.insert(d);
                    non.insert(d);
                }
                Ok(Err((id, details))) => {
                    if id.starts_with("harness") {
                        run.machinery_error(&format!("{id}: {details}"));
                    } else {
                        run.violation(&id, &details, json!({"kind":"location","min":mn,"default":df,"max":mx,"extra":e.map(|(f,t)| vec![f,t])}))
                    }
                }
                Err(p) => run.violation(&format!("user_to_normalized panic: {}", p.kind()), &p.message, json!({"kind":"location","min":mn,"default":df,"max":mx,"extra":e.map(|(f,t)| vec![f,t])})),
            }
        }
    }
    run.evals(nloc);
    run.trans(nloc * 30);
    run.count("c.location_fonts", nloc);
    run.observe_many(&all, &non);
}

// ---------------------------------------------------------------------------
// (d) GlyphMetrics with HVAR
// ---------------------------------------------------------------------------

pub const N_GLYPHS: u16 = 6;
pub const N_LONG: u16 = 3;
const ADV_DELTAS: [i32; 6] = [0, 1, -1, 100, -300, 7];
const LSB_DELTAS: [i32; 6] = [5, 0, -3, 1, 9, -1];

#[derive(Clone, Copy, Debug, PartialEq)]
pub enum AdvMap {
    None,
    Full,
    Truncated,
}

pub fn metrics_font(adv: AdvMap, lsb_map: bool) -> Vec<u8> {
    use write_fonts::tables::{hhea::Hhea, hmtx::Hmtx, hmtx::LongMetric, hvar::Hvar, maxp::Maxp};
    let region = VariationRegion::new(vec![RegionAxisCoordinates::new(F2Dot14::from_bits(0), F2Dot14::from_bits(0x4000), F2Dot14::from_bits(0x4000))]);
    // rows: advance deltas for glyph g, then lsb deltas
    let implicit = adv == AdvMap::None && !lsb_map;
    let mut b = if adv == AdvMap::None { VariationStoreBuilder::new_with_implicit_indices(1) } else { VariationStoreBuilder::new(1) };
    let adv_ids: Vec<u32> = ADV_DELTAS.iter().map(|d| b.add_deltas(vec![(region.clone(), *d)])).collect();
    let lsb_ids: Vec<u32> = if lsb_map { LSB_DELTAS.iter().map(|d| b.add_deltas(vec![(region.clone(), *d)])).collect() } else { vec![] };
    let _ = implicit;
    let (store, remap) = b.build();
    let map_of = |ids: &[u32]| -> DeltaSetIndexMap { ids.iter().map(|id| u32::from(remap.get(*id).expect("id"))).collect() };
    let adv_map = match adv {
        AdvMap::None => None,
        AdvMap::Full => Some(map_of(&adv_ids)),
        AdvMap::Truncated => Some(map_of(&adv_ids[..3])),
    };
    let lsbm = if lsb_map { Some(map_of(&lsb_ids)) } else { None };
    let hvar = Hvar::new(store, adv_map, lsbm, None);
    let head = write_fonts::tables::head::Head { units_per_em: 1000, ..Default::default() };
    let hhea = Hhea::new(FWord::new(800), FWord::new(-200), FWord::new(0), UfWord::new(600), FWord::new(0), FWord::new(0), FWord::new(0), 1, 0, 0, N_LONG);
    let hmtx = Hmtx::new(
        (0..N_LONG).map(|i| LongMetric::new(500 + 10 * i, 10 + i as i16)).collect(),
        (N_LONG..N_GLYPHS).map(|i| 20 + i as i16).collect(),
    );
    let mut fb = write_fonts::FontBuilder::new();
    fb.add_table(&head).unwrap();
    fb.add_table(&Maxp::new(N_GLYPHS)).unwrap();
    fb.add_table(&hhea).unwrap();
    fb.add_table(&hmtx).unwrap();
    fb.add_table(&hvar).unwrap();
    fb.build()
}

/// floor(delta * c + 1/2) for the region (0, 1, 1) at coordinate c (F2Dot14 bits)
fn ref_delta(delta: i32, c: i16) -> i32 {
    if c <= 0 || c > 0x4000 {
        return 0;
    }
    let n = delta as i64 * c as i64; // over 16384
    ((2 * n + 16384).div_euclid(2 * 16384)) as i32
}

fn check_metrics(adv: AdvMap, lsb_map: bool, run: &Run, all: &mut HashSet<u64>, non: &mut HashSet<u64>) -> u64 {
    let bytes = metrics_font(adv, lsb_map);
    let font = FontRef::new(&bytes).expect("metrics font parses");
    let mut n = 0;
    let coord_sets: Vec<Vec<i16>> = vec![vec![], vec![0], vec![0x2000], vec![0x4000], vec![-0x4000], vec![0x1000], vec![0x3000]];
    for cs in &coord_sets {
        let coords: Vec<skrifa::instance::NormalizedCoord> = cs.iter().map(|c| F2Dot14::from_bits(*c)).collect();
        let gm = skrifa::metrics::GlyphMetrics::new(&font, skrifa::instance::Size::unscaled(), skrifa::instance::LocationRef::new(&coords));
        for gid in [0u16, N_LONG - 1, N_LONG, N_GLYPHS - 1, N_GLYPHS, N_GLYPHS + 1] {
            n += 2;
            let case = json!({"kind":"metrics","adv_map":format!("{adv:?}"),"lsb_map":lsb_map,"coords":cs,"gid":gid});
            let c = cs.first().copied();
            let exp_adv: Option<f32> = if gid >= N_GLYPHS {
                None
            } else {
                let base = 500 + 10 * gid.min(N_LONG - 1) as i32;
                let row = match adv {
                    AdvMap::None | AdvMap::Full => gid as usize,
                    AdvMap::Truncated => (gid as usize).min(2),
                };
                let d = c.map(|c| ref_delta(ADV_DELTAS[row], c)).unwrap_or(0);
                Some((base + d) as f32)
            };
            let exp_lsb: Option<f32> = if gid >= N_GLYPHS {
                None
            } else {
                let base = if gid < N_LONG { 10 + gid as i32 } else { 20 + gid as i32 };
                let d = if lsb_map { c.map(|c| ref_delta(LSB_DELTAS[gid as usize], c)).unwrap_or(0) } else { 0 };
                Some((base + d) as f32)
            };
            let got_adv = gm.advance_width(GlyphId::new(gid as u32));
            let got_lsb = gm.left_side_bearing(GlyphId::new(gid as u32));
            if got_adv != exp_adv {
                let class = if gid >= N_GLYPHS { "glyph id past the glyph count" } else if gid >= N_LONG { "glyph past the long metrics" } else { "glyph with a long metric" };
                run.violation(
                    &format!("GlyphMetrics::advance_width wrong ({class}, advance map {adv:?})"),
                    &format!("{case}: got {:?} expected {:?}", got_adv, exp_adv),
                    case.clone(),
                );
            }
            if got_lsb != exp_lsb {
                let class = if gid >= N_GLYPHS { "glyph id past the glyph count" } else if gid >= N_LONG { "glyph past the long metrics" } else { "glyph with a long metric" };
                run.violation(
                    &format!("GlyphMetrics::left_side_bearing wrong ({class}, lsb map {lsb_map})"),
                    &format!("{case}: got {:?} expected {:?}", got_lsb, exp_lsb),
                    case.clone(),
                );
            }
            let d = digest_of(&("metrics", format!("{adv:?}"), lsb_map, cs, gid, got_adv.map(|f| f.to_bits()), got_lsb.map(|f| f.to_bits())));
            all.insert(d);
            if got_adv.is_some() && c.map(|c| c > 0).unwrap_or(false) {
                non.insert(d);
            }
        }
    }
    n
}

pub fn glyph_metrics(run: &Run) {
    run.bound(
        "d.glyph_metrics",
        json!({"glyphs": N_GLYPHS, "long_metrics": N_LONG, "gids": [0, N_LONG - 1, N_LONG, N_GLYPHS - 1, N_GLYPHS, N_GLYPHS + 1], "advance_map": ["None (implicit rows)", "Full", "Truncated to 3 entries"],
               "lsb_map": [false, true], "coords": [[], [0.0], [0.5], [1.0], [-1.0], [0.25], [0.75]], "advance_deltas": ADV_DELTAS, "lsb_deltas": LSB_DELTAS}),
    );
    let mut all = HashSet::new();
    let mut non = HashSet::new();
    let mut n = 0;
    for adv in [AdvMap::None, AdvMap::Full, AdvMap::Truncated] {
        for lsb in [false, true] {
            match guard(|| {
                let mut a = HashSet::new();
                let mut b = HashSet::new();
                let k = check_metrics(adv, lsb, run, &mut a, &mut b);
                (k, a, b)
            }) {
                Ok((k, a, b)) => {
                    n += k;
                    all.extend(a);
                    non.extend(b);
                }
                Err(p) => run.violation(&format!("GlyphMetrics panic: {} in {}", p.kind(), p.site()), &p.message, json!({"kind":"metrics_panic","adv_map":format!("{adv:?}"),"lsb_map":lsb})),
            }
        }
    }
    run.evals(n);
    run.trans(n);
    run.count("d.metric_queries", n);
    run.observe_many(&all, &non);
    run.sample(json!({"family":"d","example":{"adv_map":"Truncated","lsb_map":true,"coords":[0.5],"gid":4}}));
}

pub fn replay(run: &Run, case: &Value) {
    let g = |k: &str| case[k].as_i64().unwrap_or(0) as i32;
    match case["kind"].as_str().unwrap_or("") {
        "norm" => match check_normalize(g("min"), g("default"), g("max")) {
            Ok(_) => println!("replay: passes"),
            Err((id, d)) => run.violation(&id, &d, case.clone()),
        },
        "segment_map" => {
            let pts: Vec<(i16, i16)> = case["points"].as_array().unwrap().iter().map(|p| (p[0].as_i64().unwrap() as i16, p[1].as_i64().unwrap() as i16)).collect();
            match check_segment_map(&pts) {
                Ok(_) => println!("replay: passes"),
                Err((id, d)) => run.violation(&id, &d, case.clone()),
            }
        }
        "location" => {
            let extra = case["extra"].as_array().map(|a| (a[0].as_i64().unwrap() as i16, a[1].as_i64().unwrap() as i16));
            match check_location(g("min"), g("default"), g("max"), extra) {
                Ok(_) => println!("replay: passes"),
                Err((id, d)) => run.violation(&id, &d, case.clone()),
            }
        }
        "metrics" | "metrics_panic" => {
            let adv = match case["adv_map"].as_str().unwrap_or("None") {
                "Full" => AdvMap::Full,
                "Truncated" => AdvMap::Truncated,
                _ => AdvMap::None,
            };
            let (mut a, mut b) = (HashSet::new(), HashSet::new());
            check_metrics(adv, case["lsb_map"].as_bool().unwrap_or(false), run, &mut a, &mut b);
        }
        k => println!("replay: unknown kind {k}"),
    }
}
