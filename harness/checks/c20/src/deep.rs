//! C20 deepening families (stage 2, driver name "c20deep"): synthesised fonts that drive font-controlled
//! operands of unchecked arithmetic to the integer limits. They reuse c02's font builders and exercisers.
//!
//! * "tt":   TrueType programs `[setup] push(c) push(b) push(a) OP` for every opcode OP (batch of 256), where
//!           the operands are 32-bit extremes composed on the interpreter stack (PUSHW + MUL by 0x4000 twice +
//!           ADD), optionally after a setup that stores an extreme into the cvt (WCVTP / WCVTF), the storage
//!           area (WS), a point coordinate (SCFS) or the graphics state (SMD, SSW, SCVTCI, SSWCI);
//! * "glyf": composite glyphs whose component glyphs have unordered / huge contour end points, drawn under
//!           c02's "strict" plan (both path styles, all hinting engines);
//! * "fdselect": CFF2 fonts with two Font DICTs and an FDSelect in format 0, 3 or 4 over nRanges {0,1,2}, first
//!           range at glyph {0,1,2}, sentinel correct / too small / missing, fd in / out of range, drawn under
//!           the "strict" plan for every glyph (so glyphs below the first range and past the sentinel are queried);
//! * "cffupem": a CFF font with unitsPerEm in {1, 2, 16, 128, 1000, 0xFFFF} under the "strict" plan (sizes up
//!           to 1e9), for the hint-scale computation.
use c02::skdrv::{Acc, Plan};
use c02::{CaseOut, Viol};
use serde_json::{json, Value};

/// operand extremes (quick uses the first `n_quick`)
pub const EXTREMES: [i32; 10] = [
    i32::MAX,
    i32::MIN,
    i32::MAX - 31,
    i32::MIN + 1,
    0x4000_0000,
    i32::MAX - 63,
    i32::MIN + 64,
    -0x4000_0000,
    0x7FFF_8000,
    -0x7FFF_8000,
];
pub const SMALL: [i32; 3] = [0, 1, 64];
pub const SETUP_NAMES: [&str; 14] = [
    "none", "WCVTP+WS", "WCVTF", "SCFS point 1", "SMD", "SSW", "SCVTCI", "SSWCI",
    // round-state setups (no planted extreme; the operands carry the extremes)
    "RTHG", "RTDG", "RUTG", "RDTG", "SROUND 0x48", "S45ROUND 0x48",
];
/// setups 1..PLANT_SETUPS plant an extreme; the rest only change the round state
pub const PLANT_SETUPS: usize = 8;

const MUL: u8 = 0x63;
const ADD: u8 = 0x60;

/// instructions that leave exactly `v` on the stack
pub fn push_val(v: i32) -> Vec<u8> {
    if let Ok(s) = i16::try_from(v) {
        return c02::ttprog::pushw(&[s]);
    }
    let hi = (v >> 16) as i16;
    let mut lo = (v & 0xFFFF) as u32;
    let mut p = c02::ttprog::pushw(&[hi]);
    for _ in 0..2 {
        p.extend(c02::ttprog::pushw(&[0x4000]));
        p.push(MUL); // (a * 0x4000) / 64 = a * 256
    }
    while lo > 0 {
        let c = lo.min(0x7FFF);
        p.extend(c02::ttprog::pushw(&[c as i16]));
        p.push(ADD);
        lo -= c;
    }
    p
}

fn setup_code(setup: usize, e: i32) -> Vec<u8> {
    let mut p = vec![];
    let idx0 = c02::ttprog::pushw(&[0]);
    match setup {
        1 => {
            p.extend(idx0.clone());
            p.extend(push_val(e));
            p.push(0x44); // WCVTP
            p.extend(idx0);
            p.extend(push_val(e));
            p.push(0x42); // WS
        }
        2 => {
            p.extend(idx0);
            p.extend(push_val(e));
            p.push(0x70); // WCVTF
        }
        3 => {
            p.extend(c02::ttprog::pushw(&[1]));
            p.extend(push_val(e));
            p.push(0x48); // SCFS
        }
        4..=7 => {
            p.extend(push_val(e));
            p.push([0x1A, 0x1F, 0x1D, 0x1E][setup - 4]); // SMD, SSW, SCVTCI, SSWCI
        }
        8..=11 => p.push([0x19, 0x3D, 0x7C, 0x7D][setup - 8]), // RTHG, RTDG, RUTG, RDTG
        12 | 13 => {
            p.extend(c02::ttprog::pushw(&[0x48]));
            p.push(if setup == 12 { 0x76 } else { 0x77 }); // SROUND, S45ROUND
        }
        _ => {}
    }
    p
}

/// all "tt" batch cases of a tier
pub fn tt_cases(quick: bool) -> Vec<Value> {
    let ne = if quick { 4 } else { EXTREMES.len() };
    let slots: &[usize] = if quick { &[2] } else { &[0, 1, 2] };
    let mut vals: Vec<i32> = EXTREMES[..ne].to_vec();
    vals.extend(SMALL);
    let mut out = vec![];
    for &slot in slots {
        // no setup: every (a, b) over extremes and small values, third operand 0 / 1
        for &a in &vals {
            for &b in &vals {
                for c in [0, 1] {
                    out.push(json!({"driver": "c20deep", "fam": "tt", "slot": slot, "setup": 0, "e": 0, "a": a, "b": b, "c": c}));
                }
            }
        }
        // with a setup that plants an extreme; operands are small indices
        // round-state setups: operand a over all values, b a small index
        for setup in PLANT_SETUPS..SETUP_NAMES.len() {
            for &a in &vals {
                for b in [0, 1] {
                    out.push(json!({"driver": "c20deep", "fam": "tt", "slot": slot, "setup": setup, "e": 0, "a": a, "b": b, "c": 1}));
                }
            }
        }
        for setup in 1..PLANT_SETUPS {
            for &e in &EXTREMES[..ne] {
                for (b, a) in [(1, 0), (0, 1), (1, 1), (2, 0)] {
                    out.push(json!({"driver": "c20deep", "fam": "tt", "slot": slot, "setup": setup, "e": e, "a": a, "b": b, "c": 2}));
                }
            }
        }
    }
    out
}

fn tt_program(spec: &Value, op: u8) -> Vec<u8> {
    let g = |k: &str| spec[k].as_i64().unwrap_or(0) as i32;
    let mut p = setup_code(g("setup") as usize, g("e"));
    p.extend(push_val(g("c")));
    p.extend(push_val(g("b")));
    p.extend(push_val(g("a")));
    p.push(op);
    p
}

fn drive_tt(spec: &Value) -> CaseOut {
    let mut acc = Acc::new("c20deep");
    let parts = c02::ttprog::FontParts::new();
    let slot = spec["slot"].as_u64().unwrap_or(2) as usize;
    // generous maxp limits so that the programs are not rejected for their stack use
    let lim: [u16; 7] = [2, 16, 16, 8, 4, 64, 64];
    let from = spec["from"].as_u64().unwrap_or(0);
    for op in 0..=255u64 {
        if op < from || spec["only"].as_u64().map(|o| o != op).unwrap_or(false) {
            continue;
        }
        acc.sub_override = Some(op);
        c02::sup::set_sub(op);
        let font = parts.build(slot, &tt_program(spec, op as u8), &lim);
        c02::ttprog::exercise(&mut acc, &font);
    }
    acc.finish()
}

// ------------------------------------------------------------------------------------------

fn be16(v: &mut Vec<u8>, x: u16) {
    v.extend_from_slice(&x.to_be_bytes())
}

/// simple glyph with two contours of three points each; `ends` are written verbatim
fn simple2(ends: [u16; 2]) -> Vec<u8> {
    let mut v = vec![];
    be16(&mut v, 2);
    for x in [0u16, 0, 100, 100] {
        be16(&mut v, x);
    }
    be16(&mut v, ends[0]);
    be16(&mut v, ends[1]);
    be16(&mut v, 0); // instructions
    v.extend([0x37u8; 6]); // on curve, short positive x and y
    v.extend([10u8; 6]);
    v.extend([10u8; 6]);
    if v.len() % 2 == 1 {
        v.push(0);
    }
    v
}

fn composite(gids: &[u16]) -> Vec<u8> {
    let mut v = vec![];
    be16(&mut v, 0xFFFF);
    for x in [0u16, 0, 200, 200] {
        be16(&mut v, x);
    }
    for (i, g) in gids.iter().enumerate() {
        be16(&mut v, 0x0002 | if i + 1 < gids.len() { 0x0020 } else { 0 });
        be16(&mut v, *g);
        v.extend([5u8, 5]);
    }
    v
}

fn glyf_font(glyphs: &[Vec<u8>]) -> Vec<u8> {
    use write_fonts::{types::Tag, FontBuilder};
    let n = glyphs.len() as u16;
    let mut glyf = vec![];
    let mut loca = vec![];
    for g in glyphs {
        loca.extend_from_slice(&(glyf.len() as u32).to_be_bytes());
        glyf.extend_from_slice(g);
    }
    loca.extend_from_slice(&(glyf.len() as u32).to_be_bytes());
    let mut head = vec![];
    head.extend_from_slice(&0x0001_0000u32.to_be_bytes());
    head.extend_from_slice(&[0; 8]);
    head.extend_from_slice(&0x5F0F_3CF5u32.to_be_bytes());
    head.extend_from_slice(&[0, 0, 0x03, 0xE8]);
    head.extend_from_slice(&[0; 16]);
    head.extend_from_slice(&[0, 0, 0, 0, 0x02, 0x58, 0x03, 0x20]);
    head.extend_from_slice(&[0, 0, 0, 6, 0, 2, 0, 1, 0, 0]); // long loca
    let mut hhea = vec![];
    hhea.extend_from_slice(&0x0001_0000u32.to_be_bytes());
    hhea.extend_from_slice(&[0x03, 0x20, 0xFF, 0x38, 0, 0, 0x02, 0x58]);
    hhea.extend_from_slice(&[0; 22]);
    be16(&mut hhea, n);
    let mut maxp = vec![];
    maxp.extend_from_slice(&0x0001_0000u32.to_be_bytes());
    be16(&mut maxp, n);
    for x in [64u16, 8, 64, 16, 2, 4, 8, 4, 2, 32, 64, 4, 4] {
        be16(&mut maxp, x);
    }
    let mut hmtx = vec![];
    for _ in 0..n {
        hmtx.extend_from_slice(&[0x02, 0x58, 0, 0]);
    }
    let mut fb = FontBuilder::new();
    fb.add_raw(Tag::new(b"head"), head);
    fb.add_raw(Tag::new(b"hhea"), hhea);
    fb.add_raw(Tag::new(b"maxp"), maxp);
    fb.add_raw(Tag::new(b"hmtx"), hmtx);
    fb.add_raw(Tag::new(b"loca"), loca);
    fb.add_raw(Tag::new(b"glyf"), glyf);
    fb.build()
}

pub const END_POINTS: [[u16; 2]; 9] =
    [[2, 5], [5, 5], [6, 5], [0x7FFF, 5], [0xFFF0, 5], [0xFFFF, 5], [0xFFFF, 0], [5, 2], [0, 0xFFFF]];

/// glyph 0: regular two-contour glyph; glyph 1: two-contour glyph with the given end points; glyphs 2..4:
/// composites [0,1], [1,0], [1,1]
fn glyf_variant(i: usize) -> Vec<u8> {
    glyf_font(&[simple2([2, 5]), simple2(END_POINTS[i % END_POINTS.len()]), composite(&[0, 1]), composite(&[1, 0]), composite(&[1, 1])])
}

fn patch_table(font: &mut [u8], tag: &[u8; 4], off: usize, bytes: &[u8]) -> bool {
    let n = u16::from_be_bytes([font[4], font[5]]) as usize;
    for i in 0..n {
        let r = 12 + 16 * i;
        if &font[r..r + 4] == tag {
            let o = u32::from_be_bytes([font[r + 8], font[r + 9], font[r + 10], font[r + 11]]) as usize;
            font[o + off..o + off + bytes.len()].copy_from_slice(bytes);
            return true;
        }
    }
    false
}

fn dict_int(v: i32) -> Vec<u8> {
    let mut o = vec![29];
    o.extend_from_slice(&v.to_be_bytes());
    o
}
fn index2(items: &[Vec<u8>]) -> Vec<u8> {
    let mut o = (items.len() as u32).to_be_bytes().to_vec();
    if items.is_empty() {
        return o;
    }
    o.push(4);
    let mut off = 1u32;
    o.extend_from_slice(&off.to_be_bytes());
    for it in items {
        off += it.len() as u32;
        o.extend_from_slice(&off.to_be_bytes());
    }
    for it in items {
        o.extend_from_slice(it);
    }
    o
}

pub const FDSELECT_GLYPHS: usize = 6;

/// CFF2 table with two Font DICTs (each with its own Private DICT), `FDSELECT_GLYPHS` charstrings and the
/// given FDSelect bytes
fn cff2_with_fdselect(fdselect: &[u8]) -> Vec<u8> {
    let top_len = 6 + 7 + 7;
    let privates = [vec![189u8, 10], vec![199u8, 11]]; // StdHW 50 / StdVW 60
    let gsubrs = index2(&[]);
    let font_dict_len = 5 + 5 + 1;
    let fdarray_len = 4 + 1 + 4 * 3 + 2 * font_dict_len;
    let fdarray_off = 5 + top_len + gsubrs.len();
    let p0_off = fdarray_off + fdarray_len;
    let p1_off = p0_off + privates[0].len();
    let charstrings_off = p1_off + privates[1].len();
    let mut dicts = vec![];
    for (p, off) in privates.iter().zip([p0_off, p1_off]) {
        let mut d = dict_int(p.len() as i32);
        d.extend(dict_int(off as i32));
        d.push(18);
        dicts.push(d);
    }
    let fdarray = index2(&dicts);
    debug_assert_eq!(fdarray.len(), fdarray_len);
    // 100 100 rmoveto 50 hlineto 50 vlineto
    let cs: Vec<u8> = vec![239, 239, 21, 189, 6, 189, 7];
    let charstrings = index2(&vec![cs; FDSELECT_GLYPHS]);
    let fdselect_off = charstrings_off + charstrings.len();
    let mut top = dict_int(charstrings_off as i32);
    top.push(17);
    top.extend(dict_int(fdarray_off as i32));
    top.extend_from_slice(&[12, 36]);
    top.extend(dict_int(fdselect_off as i32));
    top.extend_from_slice(&[12, 37]);
    debug_assert_eq!(top.len(), top_len);
    let mut header = vec![2u8, 0, 5];
    header.extend_from_slice(&(top_len as u16).to_be_bytes());
    [header, top, gsubrs, fdarray, privates[0].clone(), privates[1].clone(), charstrings, fdselect.to_vec()].concat()
}

/// every FDSelect of the family: format 0 arrays and the range family in formats 3 and 4
pub fn fdselect_variants() -> Vec<(String, Vec<u8>)> {
    let mut v = vec![];
    for n in [0usize, 1, 2, FDSELECT_GLYPHS] {
        let mut f0 = vec![0u8];
        f0.extend((0..n).map(|i| (i % 3) as u8));
        v.push((format!("format 0, {n} entries"), f0));
    }
    for (label, r) in c01::capsweep::fdselect_family() {
        v.push((format!("format 3, {label}"), c01::capsweep::fdselect3(&r)));
        v.push((format!("format 4, {label}"), c01::capsweep::fdselect4(&r)));
    }
    v
}

fn fdselect_font(i: usize) -> Vec<u8> {
    let vars = fdselect_variants();
    // c02's metric tables describe 2 glyphs: widen maxp / hhea / hmtx to FDSELECT_GLYPHS
    use write_fonts::{types::Tag, FontBuilder};
    let n = FDSELECT_GLYPHS as u16;
    let mut fb = FontBuilder::new();
    for (tag, mut data) in c02::cffprog::Parts::new().metric_tables() {
        if tag == Tag::new(b"maxp") {
            data[4..6].copy_from_slice(&n.to_be_bytes());
        } else if tag == Tag::new(b"hhea") {
            let l = data.len();
            data[l - 2..].copy_from_slice(&n.to_be_bytes());
        } else if tag == Tag::new(b"hmtx") {
            data = [0x02u8, 0x58, 0, 0].repeat(FDSELECT_GLYPHS);
        }
        fb.add_raw(tag, data);
    }
    fb.add_raw(Tag::new(b"CFF2"), cff2_with_fdselect(&vars[i % vars.len()].1));
    fb.build()
}

pub const UPEMS: [u16; 6] = [1, 2, 16, 128, 1000, 0xFFFF];

fn merge(into: &mut CaseOut, mut o: CaseOut, sub: u64, label: &'static str) {
    into.evals += o.evals;
    into.calls += o.calls;
    into.digests.append(&mut o.digests);
    into.nontrivial.append(&mut o.nontrivial);
    for mut v in o.viols {
        v.sub = sub;
        v.op = format!("c20deep {label}: {}", v.op);
        into.viols.push(v);
    }
    for (k, n) in o.counters {
        match into.counters.iter_mut().find(|(k2, _)| *k2 == k) {
            Some(e) => e.1 += n,
            None => into.counters.push((k, n)),
        }
    }
}

fn drive_fonts(spec: &Value, n: usize, label: &'static str, make: &dyn Fn(usize) -> Vec<u8>) -> CaseOut {
    let plan = Plan::named("strict").expect("strict plan");
    let mut out = CaseOut::default();
    let from = spec["from"].as_u64().unwrap_or(0);
    for i in 0..n as u64 {
        if i < from || spec["only"].as_u64().map(|o| o != i).unwrap_or(false) {
            continue;
        }
        c02::sup::set_sub(i);
        let font = make(i as usize);
        merge(&mut out, c02::skdrv::run(&font, &plan), i, label);
    }
    out.digests.sort();
    out.digests.dedup();
    out.nontrivial.sort();
    out.nontrivial.dedup();
    out
}

pub fn drive(spec: &Value) -> CaseOut {
    match spec["fam"].as_str() {
        Some("tt") => drive_tt(spec),
        Some("glyf") => drive_fonts(spec, END_POINTS.len(), "glyf", &glyf_variant),
        Some("fdselect") => drive_fonts(spec, fdselect_variants().len(), "fdselect", &fdselect_font),
        Some("cffupem") => drive_fonts(spec, UPEMS.len(), "cffupem", &|i| {
            // `100 100 rmoveto 50 hlineto 50 vlineto endchar` with stem hints so that the hinter runs
            let mut cs = vec![];
            for t in [c02::cffprog::num(10), c02::cffprog::num(20), vec![1u8], c02::cffprog::num(100), c02::cffprog::num(100), vec![21u8], c02::cffprog::num(50), vec![6u8], c02::cffprog::num(50), vec![7u8], vec![14u8]] {
                cs.extend(t);
            }
            let mut font = c02::cffprog::Parts::new().build(&cs);
            patch_table(&mut font, b"head", 18, &UPEMS[i].to_be_bytes());
            font
        }),
        _ => CaseOut {
            viols: vec![Viol { kind: "bad-case".into(), op: "harness".into(), what: format!("unknown c20deep family in {spec}"), ..Default::default() }],
            ..Default::default()
        },
    }
}

pub fn cases(quick: bool) -> Vec<Value> {
    let mut v = vec![
        json!({"driver": "c20deep", "fam": "glyf"}),
        json!({"driver": "c20deep", "fam": "cffupem"}),
        json!({"driver": "c20deep", "fam": "fdselect"}),
    ];
    v.extend(tt_cases(quick));
    if let Ok(only) = std::env::var("C20DEEP_ONLY") {
        // development aid: restrict to one family
        v.retain(|c| c["fam"] == only.as_str());
    }
    v
}

pub fn describe(spec: &Value) -> String {
    match spec["fam"].as_str() {
        Some("tt") => {
            let op = spec["only"].as_u64().unwrap_or(0) as u8;
            format!(
                "slot {} setup {} (extreme {}), stack c={} b={} a={} (top), opcode 0x{:02X}; program bytes {}",
                c02::ttprog::SLOTS[spec["slot"].as_u64().unwrap_or(2) as usize % 3],
                SETUP_NAMES[spec["setup"].as_u64().unwrap_or(0) as usize % SETUP_NAMES.len()],
                spec["e"],
                spec["c"],
                spec["b"],
                spec["a"],
                op,
                vcore::hex(&tt_program(spec, op))
            )
        }
        Some("glyf") => format!("glyph 1 contour end points {:?}; glyphs 2,3,4 = composites [0,1] [1,0] [1,1]", END_POINTS[spec["only"].as_u64().unwrap_or(0) as usize % END_POINTS.len()]),
        Some("fdselect") => {
            let vars = fdselect_variants();
            let (l, b) = &vars[spec["only"].as_u64().unwrap_or(0) as usize % vars.len()];
            format!("CFF2 font, 2 Font DICTs, {} glyphs, FDSelect {l}: {}", FDSELECT_GLYPHS, vcore::hex(b))
        }
        Some("cffupem") => format!("CFF font with head.unitsPerEm = {}", UPEMS[spec["only"].as_u64().unwrap_or(0) as usize % UPEMS.len()]),
        _ => String::new(),
    }
}
