//! C20 — no arithmetic overflow or debug assertion is reachable from font data.
//!
//! This binary is built with `--profile strict` (overflow-checks + debug-assertions on; `./check C20 …`
//! does that) and runs two stages with one classifier — only panics whose payload is an arithmetic
//! overflow / "attempt to …" / assertion failure are C20 violations, identity
//! `overflow <repo file> fn=<innermost repo function>: <message class>`; every other panic, timeout or
//! abort is counted as ignored (those are C01/C02's verdicts, taken in release builds):
//!
//! * stage 1: the C01 engine (library `c01`, `Mode::C20`): read-fonts parsing, generic traversal and
//!   the typed read-fonts drivers over the X3 deviation space;
//! * stage 2: the C02 drivers (library `c02`): skrifa drawing / metrics / hinting over the corpus
//!   (plan "strict": sizes {unscaled, 1, 13.5, 65535, 1e9}) and over table deviations, enumerated
//!   TrueType programs, CFF charstrings, composite-glyph graphs and IFT client tuples, run by c02's
//!   own supervisor (CPU-time watchdog per call).
//!
//! Both libraries re-exec `current_exe()` for their workers (`VERIF_C02_WORKER` / `VERIF_WORKER`), so
//! `main` dispatches on both before anything else.
mod deep;
use c01::engine::{engine_body, fn_of, install_fn_hook, site_of, worker_main, EngineConfig, Mode};
use c02::{CaseOut, Outcome, Phase, SupOpts};
use serde_json::{json, Value};
use std::collections::{BTreeMap, HashSet};
use std::sync::Mutex;
use vcore::{Run, Tier};

fn cfg() -> EngineConfig {
    EngineConfig { property: "C20", mode: Mode::C20, extra: vec![] }
}

/// c02 worker body: run the case, then attach the innermost repository function to every caught
/// panic (resolved once per panic site by c01's backtrace hook) so that identities can name it.
fn c02_case(spec: &Value) -> CaseOut {
    static HOOK: std::sync::Once = std::sync::Once::new();
    HOOK.call_once(install_fn_hook);
    let mut out = if spec["driver"] == "c20deep" { deep::drive(spec) } else { c02::run_case(spec) };
    for v in out.viols.iter_mut() {
        if v.kind == "panic" {
            let f = fn_of(&v.panic_info());
            v.what = format!("fn={f};; {}", v.what);
        }
    }
    out
}

fn main() {
    if c02::sup::is_worker() {
        c02::sup::worker_main(&c02_case);
    }
    if std::env::var("VERIF_WORKER").is_ok() {
        worker_main(cfg());
    }
    if !cfg!(debug_assertions) {
        // built without the strict profile: the classifier could never fire — machinery error, not a verdict
        eprintln!("MACHINERY-ERROR property=C20 binary was not built with --profile strict (debug assertions are off)");
        std::process::exit(2);
    }
    vcore::main_for("C20", body)
}

fn body(run: &Run, replay: Option<&Value>) {
    let quick = run.tier == Tier::Quick;
    if let Some(case) = replay {
        if case["driver"].is_string() {
            // a stage-2 (c02) case
            // vcore::Run::violation writes replays/C20/<n>.json even in replay mode; divert that so the
            // files recorded by the last sweep are not overwritten (c01's engine does the same)
            let scratch = std::env::temp_dir().join(format!("verif-c20-replay-{}", std::process::id()));
            let _ = std::fs::create_dir_all(&scratch);
            std::env::set_var("VERIF_ROOT", &scratch);
            let c = c02::strip_replay_fields(case);
            let opts = SupOpts { workers: 1, watchdog_ms: 10_000, chunk: 1 };
            let mut st = Stage2::default();
            run_cases(run, "replay", 0, 1, &|_| c.clone(), &opts, &mut st);
            let _ = std::fs::remove_dir_all(&scratch);
            if st.arith == 0 {
                println!("replay: case returned without an arithmetic/debug-assert panic ({} other panics, {} worker failures ignored)", st.ignored_panics, st.ignored_failures);
            }
        } else {
            engine_body(run, replay, &cfg());
        }
        return;
    }
    // ---- stage 1: the C01 engine. Its deadline is shortened so that stage 2 fits in the tier budget
    if std::env::var("C01_DEADLINE").is_err() {
        std::env::set_var("C01_DEADLINE", if quick { "28" } else { "900" });
    }
    run.bound("stage1_deadline_s", json!(std::env::var("C01_DEADLINE").unwrap_or_default()));
    engine_body(run, None, &cfg());

    // ---- stage 2: the C02 drivers in the strict profile
    run.assume("stage 2 trusts c02's supervisor (worker-side CPU-time watchdog, SIGABRT marker) to attribute results to cases; timeouts, aborts and non-arithmetic panics seen there are counted, not judged (C02 judges them in release)");
    stage2(run, quick);
}

/// Panic site without line numbers. Overflow checks inherited by std helpers (`i32::abs`, …) report a
/// location inside the toolchain's `library/`: keep only the toolchain-independent tail, the `fn=` part of
/// the identity then names the repository function.
fn site(p: &vcore::PanicInfo) -> String {
    match p.file.find("/library/") {
        Some(i) if p.file.starts_with("/rustc/") => format!("std:{}", &p.file[i + 9..]),
        _ => site_of(p),
    }
}

#[derive(Default)]
struct Stage2 {
    all: HashSet<u64>,
    nt: HashSet<u64>,
    counters: BTreeMap<String, u64>,
    ignored_panics: u64,
    ignored_failures: u64,
    arith: u64,
    /// informational: every distinct (file:line, message) of an arithmetic panic seen in stage 2
    sites: BTreeMap<String, u64>,
}

/// Run cases lo..hi of a phase under c02's supervisor and classify the results.
fn run_cases(run: &Run, label: &str, lo: u64, hi: u64, get: &(dyn Fn(u64) -> Value + Sync), opts: &SupOpts, st: &mut Stage2) {
    let agg = Mutex::new(std::mem::take(st));
    let res = c02::sup::supervise_resumable(
        hi - lo,
        &|i| get(lo + i).to_string(),
        opts,
        &|i, outcome| {
            let case = get(lo + i);
            match outcome {
                Outcome::Done(out) => {
                    run.evals(out.evals.max(1));
                    run.trans(out.calls);
                    let mut g = agg.lock().unwrap();
                    g.all.extend(out.digests.iter().copied());
                    g.nt.extend(out.nontrivial.iter().copied());
                    for (k, n) in &out.counters {
                        *g.counters.entry(format!("c02.{label}.{k}")).or_insert(0) += n;
                    }
                    for v in &out.viols {
                        if v.kind == "bad-case" {
                            run.machinery_error(&format!("bad c02 case {case}: {}", v.what));
                            continue;
                        }
                        let p = v.panic_info();
                        if v.kind == "panic" && p.is_arith_or_debug_assert() {
                            g.arith += 1;
                            *g.sites.entry(format!("{}:{} {}", site(&p), p.line, p.message)).or_insert(0) += 1;
                            let (f, what) = match v.what.strip_prefix("fn=").and_then(|r| r.split_once(";; ")) {
                                Some((f, w)) => (f.to_string(), w.to_string()),
                                None => (String::new(), v.what.clone()),
                            };
                            let id = format!("overflow {} fn={}: {}", site(&p), f, p.kind());
                            let narrowed = if case["driver"] == "c20deep" {
                                let mut c = case.clone();
                                if c["only"].is_null() {
                                    c["only"] = json!(v.sub);
                                }
                                c["described"] = json!(deep::describe(&c));
                                c
                            } else {
                                c02::narrow(&case, v.sub)
                            };
                            drop(g);
                            run.violation(
                                &id,
                                &format!("overflow at {}:{} — {} (reached through c02 driver {}; {})", p.file, p.line, p.message, v.op, what),
                                narrowed,
                            );
                            g = agg.lock().unwrap();
                        } else {
                            g.ignored_panics += 1;
                        }
                    }
                }
                Outcome::Failed(f) => {
                    run.eval();
                    let mut g = agg.lock().unwrap();
                    g.ignored_failures += 1;
                    let driver = case["driver"].as_str().unwrap_or("?").to_string();
                    *g.counters.entry(format!("c02.{label}.worker_failures_ignored[{}]", c02::failure_identity(&driver, &f))).or_insert(0) += 1;
                }
            }
        },
        &|_, case_json, f| {
            let c: Value = serde_json::from_str(case_json).ok()?;
            if c["driver"] == "c20deep" {
                if !c["only"].is_null() {
                    return None;
                }
                let mut c = c;
                c["from"] = json!(f.sub + 1);
                return Some(c.to_string());
            }
            c02::resume_batch(case_json, f)
        },
    );
    *st = agg.into_inner().unwrap();
    if let Err(e) = res {
        run.machinery_error(&format!("c02 supervisor: {e}"));
    }
}

fn stage2(run: &Run, quick: bool) {
    // reduced bounds for the strict profile (2-3x slower than release); all reported in the evidence
    if quick {
        if std::env::var("C02_DEV_BYTES").is_err() {
            std::env::set_var("C02_DEV_BYTES", "32");
        }
    }
    let mut phases: Vec<Phase> = match c02::phases(quick) {
        Ok(p) => p,
        Err(e) => {
            run.machinery_error(&format!("c02 phases: {e}"));
            return;
        }
    };
    // the corpus phase runs under plan "strict" (extreme sizes) instead of C02's release plan
    if let Some(p) = phases.iter_mut().find(|p| p.label == "corpus") {
        let cases = c02::gen_corpus_cases("strict");
        p.n = cases.len() as u64;
        p.sample = cases.first().cloned().unwrap_or(Value::Null);
        p.bounds = vec![("corpus.plan".into(), c02::skdrv::Plan::named("strict").map(|p| p.describe()).unwrap_or(Value::Null))];
        p.get = Box::new(move |i| cases[i as usize].clone());
    }
    // the C20-only deepening families (see deep.rs)
    {
        let cases = deep::cases(quick);
        let sample = cases.get(2).cloned().unwrap_or(Value::Null);
        phases.push(Phase {
            label: "c20deep",
            n: cases.len() as u64,
            chunk: 2,
            bounds: vec![(
                "c20deep".into(),
                json!({"tt": {"slots": if quick { json!(["glyph"]) } else { json!(["fpgm", "prep", "glyph"]) },
                    "extremes": if quick { deep::EXTREMES[..4].to_vec() } else { deep::EXTREMES.to_vec() }, "small": deep::SMALL, "setups": deep::SETUP_NAMES,
                    "opcodes_per_batch": 256, "maxp": "stack 64, storage 16, functions 16, twilight 16"},
                    "fdselect_variants": deep::fdselect_variants().iter().map(|(l, _)| l.clone()).collect::<Vec<_>>().len(), "glyf_end_points": deep::END_POINTS, "cff_units_per_em": deep::UPEMS, "plan_for_glyf_and_cff": "strict"}),
            )],
            sample,
            get: Box::new(move |i| cases[i as usize].clone()),
        });
    }
    let opts = SupOpts {
        workers: std::env::var("VERIF_THREADS").ok().and_then(|s| s.parse().ok()).unwrap_or(16),
        watchdog_ms: if quick { 4_000 } else { 10_000 },
        chunk: 4,
    };
    // wall budget of the whole run (stage 1 included); phases are executed in slices so that the budget
    // can be honoured between slices (a cut is reported as a cap, never as exhaustive)
    let budget_s: f64 = std::env::var("C20_BUDGET").ok().and_then(|s| s.parse().ok()).unwrap_or(if quick { 50.0 } else { 1750.0 });
    run.bound("c02.watchdog_cpu_ms_per_call", json!(opts.watchdog_ms));
    run.bound("c02.total_wall_budget_s", json!(budget_s));
    let only: Option<Vec<String>> = std::env::var("C02_ONLY").ok().map(|s| s.split(',').map(|x| x.to_string()).collect());
    let mut st = Stage2::default();
    // order: cheap, finding-rich phases first
    let order = ["corpus", "cffprog", "cff2prog", "glyfgraph", "capfam", "colrgrad", "colridx", "metafam", "c20deep", "iftf2", "truncations", "ift", "deviations", "ttprog", "klippa"];
    phases.sort_by_key(|p| order.iter().position(|o| *o == p.label).unwrap_or(99));
    for ph in &phases {
        if let Some(o) = &only {
            if !o.iter().any(|x| x == ph.label) {
                continue;
            }
        }
        for (k, v) in &ph.bounds {
            run.bound(&format!("c02.{k}"), v.clone());
        }
        run.sample(ph.sample.clone());
        run.count(&format!("c02.{}.cases_enumerated", ph.label), ph.n);
        let t0 = std::time::Instant::now();
        // small slices so that the wall budget is honoured closely even on a busy machine
        let slices = (ph.n / 1500).clamp(1, 40).min(ph.n.max(1));
        let mut done = 0u64;
        for s in 0..slices {
            if run.elapsed() > budget_s {
                break;
            }
            let lo = ph.n * s / slices;
            let hi = ph.n * (s + 1) / slices;
            if hi > lo {
                run_cases(run, ph.label, lo, hi, &*ph.get, &SupOpts { chunk: ph.chunk, ..opts.clone() }, &mut st);
                done = hi;
            }
        }
        run.count(&format!("c02.{}.cases_executed", ph.label), done);
        run.extra(&format!("c02.wall_s.{}", ph.label), json!(t0.elapsed().as_secs_f64()));
        eprintln!("[c20] stage 2 {}: {} of {} cases in {:.1}s", ph.label, done, ph.n, t0.elapsed().as_secs_f64());
        if done < ph.n {
            run.cap_hit(&format!("stage 2 phase {}: wall budget of {budget_s:.0} s reached after {done} of {} cases (cases are taken in enumeration order)", ph.label, ph.n));
        }
    }
    run.observe_many(&st.all, &st.nt);
    for (k, n) in &st.counters {
        run.count(k, *n);
    }
    run.count("c02.arithmetic_panics", st.arith);
    run.extra("c02.arithmetic_panic_sites", json!(st.sites));
    run.count("c02.non_arithmetic_panics_ignored", st.ignored_panics);
    run.count("c02.worker_failures_ignored", st.ignored_failures);
}
