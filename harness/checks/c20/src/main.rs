//! C20 — no arithmetic overflow or debug assertion is reachable from font data.
//!
//! Same engine, seeds, deviations and drivers as C01 (library `c01`), but this binary is built with
//! `--profile strict` (overflow-checks + debug-assertions on; `./check C20 …` does that) and runs the
//! engine in `Mode::C20`: only panics whose payload is an arithmetic overflow / "attempt to …" /
//! assertion failure are violations, identity = (kind, site file, message class); every other panic
//! is counted (`non_arithmetic_panics_ignored`) and left to C01/C02, which run in release.
use c01::engine::{engine_main, EngineConfig, ExtraDriver, Mode};

fn main() {
    if !cfg!(debug_assertions) {
        // built without the strict profile: the classifier could never fire — machinery error, not a verdict
        if std::env::var("VERIF_WORKER").is_err() {
            eprintln!("MACHINERY-ERROR property=C20 binary was not built with --profile strict (debug assertions are off)");
            std::process::exit(2);
        }
    }
    #[allow(unused_mut)]
    let mut extra: Vec<ExtraDriver> = vec![];
    // C02 drivers plug in here: push ExtraDriver { name, run: fn(&[u8], &mut Walker), deviate_whole_file }
    // entries that call the c02 library's skrifa / IFT drivers on the whole-file bytes; they are run on
    // every whole-file seed case inside the same supervised workers, with the same classifier.
    engine_main(EngineConfig { property: "C20", mode: Mode::C20, extra })
}
