//! Driver 3: exhaustive CFF charstring enumeration (DESIGN C02 E.3, probe 28).
//!
//! A minimal CFF table is assembled by hand (all Top DICT operands in the 5-byte integer form so that
//! offsets never change size) and wrapped into an `OTTO` font with FontBuilder. Layout: header, Name INDEX,
//! Top DICT INDEX, String INDEX (empty), Global Subr INDEX, Private DICT, Local Subr INDEX, CharStrings INDEX
//! (last, so the charstring under test can have any length). Global subrs: g0 calls itself, g1 returns,
//! g2 calls local 0. Local subrs: l0 calls itself, l1 returns, l2 calls global 0 (mutual recursion).
//! Glyph 0 is `endchar`; glyph 1 is `prelude ++ tokens` where `tokens` ranges over every sequence of length
//! 1..=n (plus the empty one) over `tokens()` = every one-byte operator, every two-byte (escape) operator
//! 12 0..=38, and 13 boundary operands (among them the biased subr numbers −107/−106/−105 that select
//! subr 0/1/2). Each font is drawn unhinted (unscaled, 13.5 ppem) and hinted (interpreter engine = CFF
//! hinter, 13.5 ppem, pedantic irrelevant) — and once through the auto-hinter.
//!
//! A case is a batch (prelude, first token t1, n); `SUB` is the index inside the batch as in `ttprog`.
//! Oracle: every call returns and none panics.

use crate::skdrv::{Acc, HashPen};
use crate::sup::{set_sub, CaseOut};
use read_fonts::FontRef;
use serde_json::{json, Value};
use skrifa::instance::{LocationRef, Size};
use skrifa::outline::{DrawSettings, Engine, HintingInstance, HintingOptions, Target};
use skrifa::raw::types::GlyphId;
use skrifa::{MetadataProvider, Tag};
use vcore::Fnv;
use write_fonts::FontBuilder;

/// Type 2 charstring number encodings.
pub fn num(v: i32) -> Vec<u8> {
    if (-107..=107).contains(&v) {
        vec![(v + 139) as u8]
    } else if (108..=1131).contains(&v) {
        let w = v - 108;
        vec![(w >> 8) as u8 + 247, (w & 0xFF) as u8]
    } else if (-1131..=-108).contains(&v) {
        let w = -v - 108;
        vec![(w >> 8) as u8 + 251, (w & 0xFF) as u8]
    } else {
        let mut o = vec![28];
        o.extend_from_slice(&(v as i16).to_be_bytes());
        o
    }
}
/// 16.16 fixed operand (255 + 4 bytes)
pub fn fixed(bits: u32) -> Vec<u8> {
    let mut o = vec![255];
    o.extend_from_slice(&bits.to_be_bytes());
    o
}

/// The token alphabet, in fixed order: 30 one-byte operators (0..=31 without the escape 12 and the shortint
/// prefix 28), 39 escape operators, 13 operands.
pub fn tokens() -> Vec<Vec<u8>> {
    let mut t = vec![];
    for op in 0u8..=31 {
        if op != 12 && op != 28 {
            t.push(vec![op]);
        }
    }
    for e in 0u8..=38 {
        t.push(vec![12, e]);
    }
    for v in [-107, -106, -105, 0, 1, -1, 107, 1131, -1131, 32767, -32768] {
        t.push(num(v));
    }
    t.push(fixed(0x7FFF_FFFF));
    t.push(fixed(0x8000_0000));
    t
}

pub fn preludes() -> Vec<(&'static str, Vec<u8>)> {
    let cat = |vs: &[i32]| vs.iter().flat_map(|v| num(*v)).collect::<Vec<u8>>();
    vec![
        ("no operands", vec![]),
        ("6 x 0", cat(&[0; 6])),
        ("100 -100 50 -50 300 200 -300 10", cat(&[100, -100, 50, -50, 300, 200, -300, 10])),
    ]
}

fn index(items: &[Vec<u8>]) -> Vec<u8> {
    let mut o = vec![];
    o.extend_from_slice(&(items.len() as u16).to_be_bytes());
    if items.is_empty() {
        return o;
    }
    o.push(4); // offSize
    let mut off = 1u32;
    o.extend_from_slice(&off.to_be_bytes());
    for it in items {
        off += it.len() as u32;
        o.extend_from_slice(&off.to_be_bytes());
    }
    for it in items {
        o.extend_from_slice(it);
    }
    o
}

/// DICT integer, 5-byte form
fn dict_int(v: i32) -> Vec<u8> {
    let mut o = vec![29];
    o.extend_from_slice(&v.to_be_bytes());
    o
}

const CALLSUBR: u8 = 10;
const RETURN: u8 = 11;
const CALLGSUBR: u8 = 29;
const ENDCHAR: u8 = 14;

/// The CFF table whose glyph 1 is `charstring`.
pub fn cff_table(charstring: &[u8]) -> Vec<u8> {
    let cat = |parts: &[&[u8]]| parts.concat();
    cff_table_with(
        charstring,
        &[
            cat(&[&num(-107), &[CALLGSUBR]]),            // g0: call g0
            vec![RETURN],                                // g1
            cat(&[&num(-107), &[CALLSUBR], &[RETURN]]),  // g2: call l0
        ],
        &[
            cat(&[&num(-107), &[CALLSUBR]]),             // l0: call l0
            vec![RETURN],                                // l1
            cat(&[&num(-107), &[CALLGSUBR], &[RETURN]]), // l2: call g0
        ],
    )
}

/// The CFF table with explicit global / local subroutine lists (subr i is called with operand i − 107).
pub fn cff_table_with(charstring: &[u8], gsubr_list: &[Vec<u8>], lsubr_list: &[Vec<u8>]) -> Vec<u8> {
    cff_table_full(charstring, gsubr_list, lsubr_list, &[])
}

/// … and with `private_extra` DICT bytes placed before the Subrs operator of the Private DICT.
pub fn cff_table_full(charstring: &[u8], gsubr_list: &[Vec<u8>], lsubr_list: &[Vec<u8>], private_extra: &[u8]) -> Vec<u8> {
    let gsubrs = index(gsubr_list);
    let lsubrs = index(lsubr_list);
    let header = vec![1u8, 0, 4, 4];
    let name = index(&[b"V".to_vec()]);
    let strings = index(&[]);
    // Private DICT: Subrs (op 19) offset relative to the Private DICT start = its own length
    let private_len = private_extra.len() + 5 + 1;
    let mut private = private_extra.to_vec();
    private.extend(dict_int(private_len as i32));
    private.push(19);
    // Top DICT: CharStrings (17), Private size+offset (18): 5+1 + 5+5+1 = 17 bytes
    let top_len = 17usize;
    let top_index_len = 2 + 1 + 8 + top_len;
    let private_off = header.len() + name.len() + top_index_len + strings.len() + gsubrs.len();
    let charstrings_off = private_off + private.len() + lsubrs.len();
    let mut top = dict_int(charstrings_off as i32);
    top.push(17);
    top.extend(dict_int(private.len() as i32));
    top.extend(dict_int(private_off as i32));
    top.push(18);
    debug_assert_eq!(top.len(), top_len);
    let top_index = index(&[top]);
    debug_assert_eq!(top_index.len(), top_index_len);
    let charstrings = index(&[vec![ENDCHAR], charstring.to_vec()]);
    [header, name, top_index, strings, gsubrs, private, lsubrs, charstrings].concat()
}

pub struct Parts {
    head: Vec<u8>,
    hhea: Vec<u8>,
    maxp: Vec<u8>,
    hmtx: Vec<u8>,
}
impl Parts {
    pub fn new() -> Self {
        let mut head = vec![];
        head.extend_from_slice(&0x0001_0000u32.to_be_bytes());
        head.extend_from_slice(&[0; 8]);
        head.extend_from_slice(&0x5F0F_3CF5u32.to_be_bytes());
        head.extend_from_slice(&[0, 0, 0x03, 0xE8]); // flags, upem 1000
        head.extend_from_slice(&[0; 16]);
        head.extend_from_slice(&[0, 0, 0, 0, 0x02, 0x58, 0x02, 0xBC]); // bbox
        head.extend_from_slice(&[0, 0, 0, 6, 0, 2, 0, 0, 0, 0]);
        let mut hhea = vec![];
        hhea.extend_from_slice(&0x0001_0000u32.to_be_bytes());
        hhea.extend_from_slice(&[0x03, 0x20, 0xFF, 0x38, 0, 0, 0x02, 0x58]);
        hhea.extend_from_slice(&[0; 22]);
        hhea.extend_from_slice(&[0, 2]);
        let maxp = vec![0, 0, 0x50, 0, 0, 2];
        let hmtx = vec![0x02, 0x58, 0, 0, 0x02, 0x58, 0, 0];
        Parts { head, hhea, maxp, hmtx }
    }
    /// OTTO font around an explicit CFF table
    pub fn build_with_table(&self, cff: Vec<u8>) -> Vec<u8> {
        let mut fb = FontBuilder::new();
        for (tag, data) in self.metric_tables() {
            fb.add_raw(tag, data);
        }
        fb.add_raw(Tag::new(b"CFF "), cff);
        fb.build()
    }
    pub fn build(&self, charstring: &[u8]) -> Vec<u8> {
        let mut fb = FontBuilder::new();
        fb.add_raw(Tag::new(b"head"), self.head.clone());
        fb.add_raw(Tag::new(b"hhea"), self.hhea.clone());
        fb.add_raw(Tag::new(b"maxp"), self.maxp.clone());
        fb.add_raw(Tag::new(b"hmtx"), self.hmtx.clone());
        fb.add_raw(Tag::new(b"CFF "), cff_table(charstring));
        fb.build()
    }
}
impl Parts {
    /// head / hhea / maxp / hmtx of the 2-glyph OTTO shell (shared with `cff2prog`)
    pub fn metric_tables(&self) -> Vec<(Tag, Vec<u8>)> {
        vec![
            (Tag::new(b"head"), self.head.clone()),
            (Tag::new(b"hhea"), self.hhea.clone()),
            (Tag::new(b"maxp"), self.maxp.clone()),
            (Tag::new(b"hmtx"), self.hmtx.clone()),
        ]
    }
}
impl Default for Parts {
    fn default() -> Self {
        Self::new()
    }
}

pub const ST_DRAW: usize = 15;

/// Draw glyph 1 of one synthesised font in every configuration. Returns true if an unhinted draw succeeded.
pub fn exercise(acc: &mut Acc, font_bytes: &[u8]) -> bool {
    let Some(Ok(font)) = acc.call(ST_DRAW, || FontRef::new(font_bytes)) else {
        acc.count("font_rejected");
        return false;
    };
    let oc = font.outline_glyphs();
    let Some(g) = oc.get(GlyphId::new(1)) else {
        acc.count("glyph_absent");
        return false;
    };
    let mut h = Fnv::new();
    let mut any_ok = false;
    let mut obs = |acc: &mut Acc, h: &mut Fnv, r: Option<(Result<skrifa::outline::AdjustedMetrics, skrifa::outline::DrawError>, HashPen)>| {
        let Some((r, pen)) = r else { return };
        match r {
            Ok(_) => {
                acc.count("draw_ok");
                any_ok |= pen.n > 0;
                h.byte(1);
                h.u64(pen.h.finish());
            }
            Err(e) => {
                acc.count("draw_err");
                h.byte(2);
                h.str(&format!("{e:?}"));
            }
        }
    };
    for size in [Size::unscaled(), Size::new(13.5)] {
        let r = acc.call(ST_DRAW, || {
            let mut pen = HashPen::default();
            let r = g.draw(DrawSettings::unhinted(size, LocationRef::default()), &mut pen);
            (r, pen)
        });
        obs(acc, &mut h, r);
    }
    for engine in [Engine::Interpreter, Engine::Auto(None)] {
        let inst = acc.call(ST_DRAW, || {
            HintingInstance::new(
                &oc,
                Size::new(13.5),
                LocationRef::default(),
                HintingOptions {
                    engine,
                    target: Target::default(),
                },
            )
        });
        if let Some(Ok(inst)) = inst {
            let r = acc.call(ST_DRAW, || {
                let mut pen = HashPen::default();
                let r = g.draw(DrawSettings::hinted(&inst, true), &mut pen);
                (r, pen)
            });
            obs(acc, &mut h, r);
        } else {
            h.byte(9);
        }
    }
    acc.observe(h.finish(), any_ok);
    any_ok
}

pub fn batch_len(n: u32, ntok: u64) -> u64 {
    (0..n).map(|k| ntok.pow(k)).sum()
}

/// idx-th token sequence of the batch with first token t1: [t1], [t1,a], [t1,a,b], … (token indices)
pub fn batch_seq(t1: usize, idx: u64, ntok: u64) -> Vec<usize> {
    let mut len = 1u32;
    let mut base = 0u64;
    loop {
        let count = ntok.pow(len - 1);
        if idx < base + count {
            let mut rest = idx - base;
            let mut tail = vec![0usize; (len - 1) as usize];
            for t in tail.iter_mut().rev() {
                *t = (rest % ntok) as usize;
                rest /= ntok;
            }
            let mut p = vec![t1];
            p.extend(tail);
            return p;
        }
        base += count;
        len += 1;
    }
}

/// `{"driver":"cffprog","prelude":i,"o1":token index | null,"n":len,"only":idx?}`
pub fn drive(spec: &Value) -> CaseOut {
    let toks = tokens();
    let pre = preludes();
    let pi = spec["prelude"].as_u64().unwrap_or(99) as usize;
    let n = spec["n"].as_u64().unwrap_or(1) as u32;
    if pi >= pre.len() || n == 0 || n > 4 {
        return crate::bad_case(format!("bad cffprog case {spec}"));
    }
    let parts = Parts::new();
    let mut acc = Acc::new("cffprog");
    let one = |acc: &mut Acc, idx: u64, seq: &[usize]| {
        set_sub(idx);
        acc.sub_override = Some(idx);
        let mut cs = pre[pi].1.clone();
        for t in seq {
            cs.extend_from_slice(&toks[*t]);
        }
        let font = parts.build(&cs);
        acc.evals += 1;
        exercise(acc, &font);
    };
    match spec["o1"].as_u64() {
        None => one(&mut acc, 0, &[]),
        Some(t1) => {
            let t1 = t1 as usize;
            if t1 >= toks.len() {
                return crate::bad_case(format!("bad cffprog token {spec}"));
            }
            let ntok = toks.len() as u64;
            match spec["only"].as_u64() {
                Some(idx) => one(&mut acc, idx, &batch_seq(t1, idx, ntok)),
                None => {
                    for idx in spec["from"].as_u64().unwrap_or(0)..batch_len(n, ntok) {
                        one(&mut acc, idx, &batch_seq(t1, idx, ntok));
                    }
                }
            }
        }
    }
    acc.finish()
}

pub fn gen_cases(n: u32) -> Vec<Value> {
    let mut out = vec![];
    for pi in 0..preludes().len() {
        out.push(json!({"driver": "cffprog", "prelude": pi, "o1": Value::Null, "n": n}));
        for t1 in 0..tokens().len() {
            out.push(json!({"driver": "cffprog", "prelude": pi, "o1": t1, "n": n}));
        }
    }
    out
}

/// Sanity gate for the hand assembler (machinery, not a verdict): the triangle charstring must draw.
pub fn sanity() -> Result<(), String> {
    let cat = |vs: &[i32]| vs.iter().flat_map(|v| num(*v)).collect::<Vec<u8>>();
    let mut cs = cat(&[100, 100]);
    cs.push(21); // rmoveto
    cs.extend(cat(&[300, 0, -150, 400]));
    cs.push(5); // rlineto
    cs.push(ENDCHAR);
    let font = Parts::new().build(&cs);
    let f = FontRef::new(&font).map_err(|e| format!("sanity font does not parse: {e:?}"))?;
    let g = f.outline_glyphs().get(GlyphId::new(1)).ok_or("sanity glyph missing")?;
    let mut pen = HashPen::default();
    g.draw(DrawSettings::unhinted(Size::unscaled(), LocationRef::default()), &mut pen)
        .map_err(|e| format!("sanity triangle does not draw: {e:?}"))?;
    if pen.n < 4 {
        return Err(format!("sanity triangle drew only {} commands", pen.n));
    }
    // subr plumbing: calling l1 (returns) then drawing must still work
    let mut cs2 = cat(&[-106]);
    cs2.push(CALLSUBR);
    cs2.extend(cs.clone());
    let font2 = Parts::new().build(&cs2);
    let f2 = FontRef::new(&font2).map_err(|e| format!("{e:?}"))?;
    let g2 = f2.outline_glyphs().get(GlyphId::new(1)).ok_or("sanity glyph missing")?;
    let mut pen2 = HashPen::default();
    g2.draw(DrawSettings::unhinted(Size::unscaled(), LocationRef::default()), &mut pen2)
        .map_err(|e| format!("sanity subr call does not draw: {e:?}"))?;
    // (the self-calling subrs are only ever executed inside supervised workers: a missing nesting limit
    // must kill a worker, not this gate)
    Ok(())
}
