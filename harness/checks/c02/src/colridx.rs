//! Driver 8: COLR index-width boundary family `colridx`.
//!
//! One *template* COLR table (version 1 with a version-0 part) is assembled by hand; every 8/16/24/32-bit
//! index, count and offset field that the paint traversal adds to, multiplies or indexes with is labelled
//! while it is written (`fields()`):
//!   header counts and offsets; v0 BaseGlyphRecord (glyph, firstLayerIndex, numLayers) and layer records;
//!   BaseGlyphList count, record glyph ids and paint offsets; LayerList count and offsets;
//!   PaintColrLayers numLayers / firstLayerIndex; PaintColrGlyph glyph id; PaintGlyph glyph ids; every
//!   Offset24 to a child paint, transform, colour line and clip box; `varIndexBase` of every Var* paint (VarSolid,
//!   Var{Linear,Radial,Sweep}Gradient, VarTransform, VarTranslate, VarScale*, VarRotate*, VarSkew*), of the var
//!   colour stops and of the var clip box; (Var)ColorLine numStops; palette indices; ClipList count and
//!   clip glyph ranges; DeltaSetIndexMap entry format and count; ItemVariationStore counts.
//! The template is reachable from three colour glyphs (2: v1 PaintColrLayers over a LayerList whose third layer
//! is a chain through every Var transform into a PaintComposite of gradients; 3: v0 layers; 4: v1 PaintGlyph
//! → PaintSolid, also the target of PaintColrGlyph) and paints successfully unmodified (machinery gate).
//! Enumerated completely:
//!   part 0/1: every labelled field × the boundary values of its width
//!             {0, 1, MAX−255, MAX−1, MAX, MAX/2, MAX/2+1} — without (0) / with (1) the DeltaSetIndexMap;
//!   part 2:   pairs  PaintColrLayers.firstLayerIndex × numLayers{0,1,255} × LayerList.numLayers{0,1,3,MAX};
//!             v0 firstLayerIndex × numLayers{0,1,255,MAX} × numLayerRecords{0,2,MAX};
//!             every varIndexBase × DeltaSetIndexMap.mapCount{0,1,4,MAX};
//!             (Var)ColorLine numStops{0,1,255,MAX} × that line's first stop varIndexBase;
//!             clip startGlyphID × endGlyphID.
//!   part 3:   every paint format 1..=32 as the *last object* of a COLR table × 0..=4 missing trailing bytes.
//!   part 4:   chains of depth {63, 64, 65, 200, 5 000, 300 000} of each wrapper paint (transform formats 12..=31,
//!             PaintGlyph, PaintComposite via source / backdrop, PaintColrLayers and PaintColrGlyph indirection)
//!             ending in a PaintSolid: the traversal depth limit (64) and stack exhaustion (a stack overflow
//!             kills the worker and is reported by the supervisor as `colridx: stack overflow in …`).
//! Each item: for glyph ids {1,2,3,4,0xFFFF} and both formats, `ColorGlyph::paint` (recording painter, both
//! `paint_cached_color_glyph` answers) and `bounding_box` at the default location and at wght = +1.0.
//! Oracle: returns, never panics (C20: no overflow / debug-assert panic).

use crate::colrgrad;
use crate::skdrv::{Acc, RecPainter};
use crate::sup::{set_sub, CaseOut};
use read_fonts::FontRef;
use serde_json::{json, Value};
use skrifa::color::ColorGlyphFormat;
use skrifa::instance::{LocationRef, NormalizedCoord, Size};
use skrifa::raw::types::GlyphId;
use skrifa::MetadataProvider;
use vcore::Fnv;

pub const ST: usize = 29;

#[derive(Clone, Default)]
pub struct B {
    pub d: Vec<u8>,
    /// (name, position, width in bytes)
    pub fields: Vec<(String, usize, usize)>,
}
impl B {
    fn raw(&mut self, v: u64, width: usize) {
        for i in (0..width).rev() {
            self.d.push((v >> (8 * i)) as u8);
        }
    }
    /// labelled field
    fn f(&mut self, name: &str, width: usize, v: u64) {
        self.fields.push((name.to_string(), self.d.len(), width));
        self.raw(v, width);
    }
    fn i16(&mut self, v: i16) {
        self.raw(v as u16 as u64, 2)
    }
    fn append(&mut self, other: B) -> usize {
        let base = self.d.len();
        for (n, p, w) in other.fields {
            self.fields.push((n, p + base, w));
        }
        self.d.extend(other.d);
        base
    }
    fn prefixed(mut self, prefix: &str) -> B {
        for f in self.fields.iter_mut() {
            f.0 = format!("{prefix}{}", f.0);
        }
        self
    }
}

fn f2(x: f32) -> i16 {
    (x * 16384.0) as i16
}

/// PaintGlyph(10) → child (placed right after)
fn paint_glyph(name: &str, gid: u16, child: B) -> B {
    let mut b = B::default();
    b.raw(10, 1);
    b.f(&format!("{name}.PaintGlyph.paintOffset"), 3, 6);
    b.f(&format!("{name}.PaintGlyph.glyphID"), 2, gid as u64);
    b.append(child);
    b
}

fn color_line(name: &str, var: bool, vib: u32) -> B {
    let mut b = B::default();
    b.raw(0, 1); // extend pad
    b.f(&format!("{name}.numStops"), 2, 2);
    for (i, off) in [0.0f32, 1.0].iter().enumerate() {
        b.i16(f2(*off));
        b.f(&format!("{name}.stop{i}.paletteIndex"), 2, i as u64);
        b.i16(f2(1.0));
        if var {
            b.f(&format!("{name}.stop{i}.varIndexBase"), 4, vib as u64 + 2 * i as u64);
        }
    }
    b
}

fn var_solid(name: &str) -> B {
    let mut b = B::default();
    b.raw(3, 1);
    b.f(&format!("{name}.PaintVarSolid.paletteIndex"), 2, 1);
    b.i16(f2(1.0));
    b.f(&format!("{name}.PaintVarSolid.varIndexBase"), 4, 0);
    b
}

/// Var gradient of `format` ∈ {5, 7, 9} followed by its VarColorLine
fn var_gradient(name: &str, format: u8) -> B {
    let mut b = B::default();
    b.raw(format as u64, 1);
    let body = if format == 9 { 8 } else { 12 };
    b.f(&format!("{name}.colorLineOffset"), 3, 4 + body + 4);
    let vals: &[i16] = match format {
        5 => &[0, 0, 100, 0, 0, 100],
        7 => &[0, 0, 10, 50, 50, 100],
        _ => &[50, 50, 0, 0x2000],
    };
    for v in vals {
        b.i16(*v);
    }
    b.f(&format!("{name}.varIndexBase"), 4, 0);
    b.append(color_line(&format!("{name}.VarColorLine"), true, 6));
    b
}

/// A Var transform paint with its child right after it. `body` = the fixed fields between the child offset and
/// varIndexBase.
fn var_wrap(name: &str, format: u8, body: &[i16], child: B) -> B {
    let mut b = B::default();
    b.raw(format as u64, 1);
    b.f(&format!("{name}.paintOffset"), 3, 4 + 2 * body.len() as u64 + 4);
    for v in body {
        b.i16(*v);
    }
    b.f(&format!("{name}.varIndexBase"), 4, 0);
    b.append(child);
    b
}

pub struct Template {
    pub with_map: B,
    /// header.varIndexMapOffset position
    map_off_pos: usize,
}

pub fn template() -> Template {
    // ---- layer 2: chain through every Var transform down to a composite of gradients
    let src = paint_glyph("L2.src", 1, var_gradient("L2.src.PaintVarLinearGradient", 5));
    let bd_sweep = paint_glyph("L2.bd2", 1, var_gradient("L2.bd2.PaintVarSweepGradient", 9));
    let bd_radial = paint_glyph("L2.bd1", 1, var_gradient("L2.bd1.PaintVarRadialGradient", 7));
    // inner composite: source radial, backdrop sweep
    let mut inner = B::default();
    inner.raw(32, 1);
    inner.f("L2.inner.PaintComposite.sourcePaintOffset", 3, 8);
    inner.raw(3, 1); // src over
    inner.f("L2.inner.PaintComposite.backdropPaintOffset", 3, 8 + bd_radial.d.len() as u64);
    inner.append(bd_radial);
    inner.append(bd_sweep);
    let mut comp = B::default();
    comp.raw(32, 1);
    comp.f("L2.PaintComposite.sourcePaintOffset", 3, 8);
    comp.raw(3, 1);
    comp.f("L2.PaintComposite.backdropPaintOffset", 3, 8 + src.d.len() as u64);
    comp.append(src);
    comp.append(inner);
    let mut chain = comp;
    chain = var_wrap("L2.PaintVarSkewAroundCenter", 31, &[f2(0.1), f2(0.1), 10, 10], chain);
    chain = var_wrap("L2.PaintVarSkew", 29, &[f2(0.1), f2(-0.1)], chain);
    chain = var_wrap("L2.PaintVarRotateAroundCenter", 27, &[f2(0.25), 10, 10], chain);
    chain = var_wrap("L2.PaintVarRotate", 25, &[f2(0.25)], chain);
    chain = var_wrap("L2.PaintVarScaleUniformAroundCenter", 23, &[f2(1.5), 10, 10], chain);
    chain = var_wrap("L2.PaintVarScaleUniform", 21, &[f2(1.5)], chain);
    chain = var_wrap("L2.PaintVarScaleAroundCenter", 19, &[f2(1.5), f2(0.5), 10, 10], chain);
    chain = var_wrap("L2.PaintVarScale", 17, &[f2(1.5), f2(0.5)], chain);
    chain = var_wrap("L2.PaintVarTranslate", 15, &[10, -10], chain);
    // PaintVarTransform: paintOffset24, transformOffset24, then VarAffine2x3, then the child
    let mut l2 = B::default();
    l2.raw(13, 1);
    l2.f("L2.PaintVarTransform.paintOffset", 3, 7 + 28);
    l2.f("L2.PaintVarTransform.transformOffset", 3, 7);
    for v in [0x10000u32, 0, 0, 0x10000, 0, 0] {
        l2.raw(v as u64, 4);
    }
    l2.f("L2.PaintVarTransform.VarAffine2x3.varIndexBase", 4, 0);
    l2.append(chain);
    // ---- layers 0 and 1
    let l0 = paint_glyph("L0", 1, var_solid("L0"));
    let mut l1 = B::default();
    l1.raw(11, 1);
    l1.f("L1.PaintColrGlyph.glyphID", 2, 4);
    // ---- LayerList
    let mut ll = B::default();
    ll.f("LayerList.numLayers", 4, 3);
    let o0 = 4 + 12;
    let o1 = o0 + l0.d.len();
    let o2 = o1 + l1.d.len();
    for (i, o) in [o0, o1, o2].iter().enumerate() {
        ll.f(&format!("LayerList.paintOffset{i}"), 4, *o as u64);
    }
    ll.append(l0);
    ll.append(l1);
    ll.append(l2);
    // ---- BaseGlyphList: gid 2 -> PaintColrLayers, gid 4 -> PaintGlyph -> PaintSolid
    let mut root2 = B::default();
    root2.raw(1, 1);
    root2.f("PaintColrLayers.numLayers", 1, 3);
    root2.f("PaintColrLayers.firstLayerIndex", 4, 0);
    let mut solid = B::default();
    solid.raw(2, 1);
    solid.f("G4.PaintSolid.paletteIndex", 2, 1);
    solid.i16(f2(1.0));
    let root4 = paint_glyph("G4", 1, solid);
    let mut bgl = B::default();
    bgl.f("BaseGlyphList.numBaseGlyphPaintRecords", 4, 2);
    let p2 = 4 + 12;
    let p4 = p2 + root2.d.len();
    bgl.f("BaseGlyphList.record0.glyphID", 2, 2);
    bgl.f("BaseGlyphList.record0.paintOffset", 4, p2 as u64);
    bgl.f("BaseGlyphList.record1.glyphID", 2, 4);
    bgl.f("BaseGlyphList.record1.paintOffset", 4, p4 as u64);
    bgl.append(root2);
    bgl.append(root4);
    // ---- ClipList with one var clip box for glyphs 2..=4
    let mut clip = B::default();
    clip.raw(1, 1);
    clip.f("ClipList.numClips", 4, 1);
    clip.f("ClipList.clip0.startGlyphID", 2, 2);
    clip.f("ClipList.clip0.endGlyphID", 2, 4);
    clip.f("ClipList.clip0.clipBoxOffset", 3, 5 + 7);
    clip.raw(2, 1);
    for v in [0i16, 0, 500, 700] {
        clip.i16(v);
    }
    clip.f("ClipBoxFormat2.varIndexBase", 4, 0);
    // ---- DeltaSetIndexMap (format 0, 2-byte entries: outer << 8 | inner)
    let mut map = B::default();
    map.raw(0, 1);
    map.f("DeltaSetIndexMap.entryFormat", 1, 0x17);
    map.f("DeltaSetIndexMap.mapCount", 2, 4);
    for e in [0u64, 1, 2, 3] {
        map.raw(e, 2);
    }
    // ---- ItemVariationStore (as in colrgrad: 1 axis, 1 region, 12 rows)
    let mut ivs = B::default();
    ivs.raw(1, 2);
    ivs.f("ItemVariationStore.variationRegionListOffset", 4, 12);
    ivs.f("ItemVariationStore.itemVariationDataCount", 2, 1);
    ivs.f("ItemVariationStore.itemVariationDataOffset0", 4, 22);
    ivs.f("VariationRegionList.axisCount", 2, 1);
    ivs.f("VariationRegionList.regionCount", 2, 1);
    for w in [0i16, 0x4000, 0x4000] {
        ivs.i16(w);
    }
    ivs.f("ItemVariationData.itemCount", 2, 12);
    ivs.f("ItemVariationData.wordDeltaCount", 2, 1);
    ivs.f("ItemVariationData.regionIndexCount", 2, 1);
    ivs.f("ItemVariationData.regionIndex0", 2, 0);
    for d in [100i16, -100, 50, -50, 8192, -8192, 4096, -4096, 16384, -16384, 1, -1] {
        ivs.i16(d);
    }
    // ---- v0 records: glyph 3 = layers (glyph 1, palette 0), (glyph 1, palette 1)
    let mut v0 = B::default();
    v0.f("v0.BaseGlyphRecord.glyphID", 2, 3);
    v0.f("v0.BaseGlyphRecord.firstLayerIndex", 2, 0);
    v0.f("v0.BaseGlyphRecord.numLayers", 2, 2);
    let mut v0l = B::default();
    for i in 0..2u64 {
        v0l.f(&format!("v0.LayerRecord{i}.glyphID"), 2, 1);
        v0l.f(&format!("v0.LayerRecord{i}.paletteIndex"), 2, i);
    }
    // ---- header
    let o_bgr = 34usize;
    let o_lr = o_bgr + v0.d.len();
    let o_bgl = o_lr + v0l.d.len();
    let o_ll = o_bgl + bgl.d.len();
    let o_clip = o_ll + ll.d.len();
    let o_map = o_clip + clip.d.len();
    let o_ivs = o_map + map.d.len();
    let mut t = B::default();
    t.raw(1, 2);
    t.f("header.numBaseGlyphRecords", 2, 1);
    t.f("header.baseGlyphRecordsOffset", 4, o_bgr as u64);
    t.f("header.layerRecordsOffset", 4, o_lr as u64);
    t.f("header.numLayerRecords", 2, 2);
    t.f("header.baseGlyphListOffset", 4, o_bgl as u64);
    t.f("header.layerListOffset", 4, o_ll as u64);
    t.f("header.clipListOffset", 4, o_clip as u64);
    let map_off_pos = t.d.len();
    t.f("header.varIndexMapOffset", 4, o_map as u64);
    t.f("header.itemVariationStoreOffset", 4, o_ivs as u64);
    t.append(v0);
    t.append(v0l);
    t.append(bgl);
    t.append(ll);
    t.append(clip);
    t.append(map);
    t.append(ivs);
    Template {
        with_map: t.prefixed(""),
        map_off_pos,
    }
}

impl Template {
    pub fn bytes(&self, with_map: bool) -> Vec<u8> {
        let mut d = self.with_map.d.clone();
        if !with_map {
            d[self.map_off_pos..self.map_off_pos + 4].copy_from_slice(&[0; 4]);
        }
        d
    }
    pub fn field(&self, name: &str) -> (usize, usize) {
        let f = self.with_map.fields.iter().find(|f| f.0 == name).unwrap_or_else(|| panic!("no field {name}"));
        (f.1, f.2)
    }
}

/// Boundary values of a field of `width` bytes
pub fn boundary_values(width: usize) -> Vec<u64> {
    let max: u64 = if width == 8 { u64::MAX } else { (1u64 << (8 * width)) - 1 };
    let mut v = vec![0, 1, max.saturating_sub(255), max - 1, max, max / 2, max / 2 + 1];
    v.sort();
    v.dedup();
    v
}

fn patch(d: &mut [u8], pos: usize, width: usize, v: u64) {
    for i in 0..width {
        d[pos + i] = (v >> (8 * (width - 1 - i))) as u8;
    }
}

pub struct Item {
    pub desc: String,
    pub colr: Vec<u8>,
}

/// Size in bytes of the fixed part of each paint format 1..=32 (format byte included).
pub const PAINT_SIZES: [usize; 33] = [
    0, 6, 5, 9, 16, 20, 16, 20, 12, 16, 6, 3, 7, 7, 8, 12, 8, 12, 12, 16, 6, 10, 10, 14, 6, 10, 10, 14, 8, 12, 12, 16, 8,
];

/// COLR v1 table whose *last object* is a paint of `format` (the root paint of glyph 2), `missing` bytes short.
/// Child / colour-line offsets inside the paint are 0 (the paint itself: any traversal ends in the cycle
/// guard); for PaintTransform / PaintVarTransform (12, 13) the trailing object is the (Var)Affine2x3 record.
pub fn last_paint_table(format: u8, missing: usize) -> Vec<u8> {
    let mut p = vec![format];
    let size = PAINT_SIZES[format as usize];
    match format {
        1 => p.extend([1, 0, 0, 0, 0]),       // numLayers 1, firstLayerIndex 0
        2 | 3 => p.extend([0, 1, 0x40, 0]),   // palette 1, alpha 1.0
        10 => p.extend([0, 0, 0, 0, 1]),      // paint offset 0, glyph 1
        11 => p.extend([0, 2]),               // PaintColrGlyph -> glyph 2 (itself)
        12 | 13 => p.extend([0, 0, 0, 0, 0, 7]), // child 0, transform right after
        _ => {}
    }
    // remaining fixed fields: small non-zero numbers, then varIndexBase = 0 for the Var forms
    while p.len() < size {
        p.push(if p.len() < 4 { 0 } else { 1 });
    }
    let var = matches!(format, 3 | 5 | 7 | 9 | 13 | 15 | 17 | 19 | 21 | 23 | 25 | 27 | 29 | 31);
    if var && format != 13 {
        let n = p.len();
        p[n - 4..].copy_from_slice(&[0, 0, 0, 0]);
    }
    if format == 12 || format == 13 {
        for v in [0x10000u32, 0, 0, 0x10000, 0, 0] {
            p.extend_from_slice(&v.to_be_bytes());
        }
        if format == 13 {
            p.extend_from_slice(&[0, 0, 0, 0]);
        }
    }
    let mut t = vec![0u8, 1, 0, 0];
    t.extend_from_slice(&[0; 10]); // v0 offsets/counts
    t.extend_from_slice(&34u32.to_be_bytes()); // baseGlyphListOffset
    t.extend_from_slice(&[0; 16]); // layerList, clipList, varIndexMap, varStore
    debug_assert_eq!(t.len(), 34);
    t.extend_from_slice(&1u32.to_be_bytes());
    t.extend_from_slice(&[0, 2]);
    t.extend_from_slice(&10u32.to_be_bytes());
    t.extend(p);
    let keep = t.len() - missing;
    t.truncate(keep);
    t
}

pub fn items(part: u64) -> Vec<Item> {
    let t = template();
    let mut out = vec![];
    match part {
        3 => {
            for format in 1u8..=32 {
                for missing in 0..=4usize {
                    out.push(Item {
                        desc: format!("paint format {format} as the last object of the COLR table, {missing} bytes missing"),
                        colr: last_paint_table(format, missing),
                    });
                }
            }
        }
        0 | 1 => {
            let with_map = part == 1;
            out.push(Item {
                desc: "template unmodified".into(),
                colr: t.bytes(with_map),
            });
            for (name, pos, width) in &t.with_map.fields {
                for v in boundary_values(*width) {
                    let mut d = t.bytes(with_map);
                    patch(&mut d, *pos, *width, v);
                    out.push(Item {
                        desc: format!("{name} = {v:#x} (DeltaSetIndexMap {})", if with_map { "present" } else { "absent" }),
                        colr: d,
                    });
                }
            }
        }
        _ => {
            let mut two = |out: &mut Vec<Item>, settings: &[(&str, u64)], with_map: bool| {
                let mut d = t.bytes(with_map);
                for (n, v) in settings {
                    let (pos, w) = t.field(n);
                    patch(&mut d, pos, w, *v);
                }
                out.push(Item {
                    desc: format!("{settings:x?} (DeltaSetIndexMap {})", if with_map { "present" } else { "absent" }),
                    colr: d,
                });
            };
            for fli in boundary_values(4) {
                for nl in [0u64, 1, 255] {
                    for lln in [0u64, 1, 3, 0xFFFF_FFFF] {
                        two(&mut out, &[("PaintColrLayers.firstLayerIndex", fli), ("PaintColrLayers.numLayers", nl), ("LayerList.numLayers", lln)], false);
                    }
                }
            }
            for fli in boundary_values(2) {
                for nl in [0u64, 1, 255, 0xFFFF] {
                    for nlr in [0u64, 2, 0xFFFF] {
                        two(&mut out, &[("v0.BaseGlyphRecord.firstLayerIndex", fli), ("v0.BaseGlyphRecord.numLayers", nl), ("header.numLayerRecords", nlr)], false);
                    }
                }
            }
            let vibs: Vec<String> = t.with_map.fields.iter().filter(|f| f.0.ends_with("varIndexBase")).map(|f| f.0.clone()).collect();
            for name in &vibs {
                for v in boundary_values(4) {
                    for mc in [0u64, 1, 4, 0xFFFF] {
                        two(&mut out, &[(name.as_str(), v), ("DeltaSetIndexMap.mapCount", mc)], true);
                    }
                }
            }
            for line in ["L2.src.PaintVarLinearGradient", "L2.bd1.PaintVarRadialGradient", "L2.bd2.PaintVarSweepGradient"] {
                for ns in [0u64, 1, 255, 0xFFFF] {
                    for v in boundary_values(4) {
                        two(
                            &mut out,
                            &[(&format!("{line}.VarColorLine.numStops"), ns), (&format!("{line}.VarColorLine.stop0.varIndexBase"), v)],
                            false,
                        );
                    }
                }
            }
            for s in boundary_values(2) {
                for e in boundary_values(2) {
                    two(&mut out, &[("ClipList.clip0.startGlyphID", s), ("ClipList.clip0.endGlyphID", e)], false);
                }
            }
        }
    }
    out
}

// ---------------------------------------------------------------------------------------------
// part 4: deep chains of wrapper paints (traversal depth limit 64; stack exhaustion)
// ---------------------------------------------------------------------------------------------

/// Wrapper kinds: the 20 transform formats 12..=31, PaintGlyph, PaintComposite through its source / its
/// backdrop, and the PaintColrLayers / PaintColrGlyph indirections.
pub const DEEP_KINDS: usize = 25;
pub const DEEP_DEPTHS: [usize; 6] = [63, 64, 65, 200, 5_000, 300_000];

pub fn deep_kind_name(kind: usize) -> String {
    match kind {
        0..=19 => format!("paint format {}", 12 + kind),
        20 => "PaintGlyph".into(),
        21 => "PaintComposite via source".into(),
        22 => "PaintComposite via backdrop".into(),
        23 => "PaintColrLayers indirection".into(),
        _ => "PaintColrGlyph indirection (depth capped at 60000 glyph ids)".into(),
    }
}

const SOLID: [u8; 5] = [2, 0, 1, 0x40, 0];

/// COLR v1 table whose glyph 2 is a chain of `depth` wrapper paints of `kind` ending in a PaintSolid.
pub fn deep_table(kind: usize, depth: usize) -> Vec<u8> {
    let header = |bgl_len: usize, layer_list: bool| {
        let mut t = vec![0u8, 1, 0, 0];
        t.extend_from_slice(&[0; 10]);
        t.extend_from_slice(&34u32.to_be_bytes());
        t.extend_from_slice(&(if layer_list { 34 + bgl_len as u32 } else { 0 }).to_be_bytes());
        t.extend_from_slice(&[0; 12]);
        t
    };
    match kind {
        0..=22 => {
            // one wrapper record repeated `depth` times, child right after it
            let mut rec: Vec<u8> = match kind {
                0..=19 => {
                    let format = 12 + kind as u8;
                    let size = PAINT_SIZES[format as usize];
                    let mut r = vec![format];
                    if format <= 13 {
                        let affine = if format == 13 { 28 } else { 24 };
                        r.extend_from_slice(&((7 + affine) as u32).to_be_bytes()[1..]);
                        r.extend_from_slice(&[0, 0, 7]);
                        for v in [0x10000u32, 0, 0, 0x10000, 0, 0] {
                            r.extend_from_slice(&v.to_be_bytes());
                        }
                        if format == 13 {
                            r.extend_from_slice(&[0, 0, 0, 0]);
                        }
                    } else {
                        r.extend_from_slice(&(size as u32).to_be_bytes()[1..]);
                        while r.len() < size {
                            r.push(1);
                        }
                        if format % 2 == 1 {
                            let n = r.len();
                            r[n - 4..].copy_from_slice(&[0, 0, 0, 0]);
                        }
                    }
                    r
                }
                20 => vec![10, 0, 0, 6, 0, 1],
                _ => vec![32, 0, 0, 0, 3, 0, 0, 0],
            };
            let rl = rec.len();
            let mut bgl = 1u32.to_be_bytes().to_vec();
            bgl.extend_from_slice(&[0, 2]);
            bgl.extend_from_slice(&10u32.to_be_bytes());
            for i in 0..depth {
                if kind >= 21 {
                    // composite: one side continues the chain (offset 8), the other points at the final solid
                    let to_solid = ((depth - i) * rl) as u32;
                    let (src, bd) = if kind == 21 { (8u32, to_solid) } else { (to_solid, 8) };
                    rec[1..4].copy_from_slice(&src.to_be_bytes()[1..]);
                    rec[5..8].copy_from_slice(&bd.to_be_bytes()[1..]);
                }
                bgl.extend_from_slice(&rec);
            }
            bgl.extend_from_slice(&SOLID);
            let mut t = header(bgl.len(), false);
            t.extend(bgl);
            t
        }
        23 => {
            // root: PaintColrLayers(1 layer, first 0); layer i = PaintColrLayers(1, i+1); last layer = solid
            let mut bgl = 1u32.to_be_bytes().to_vec();
            bgl.extend_from_slice(&[0, 2]);
            bgl.extend_from_slice(&10u32.to_be_bytes());
            bgl.extend_from_slice(&[1, 1, 0, 0, 0, 0]);
            let n = depth; // layers 0..depth-1 chain, layer depth-1 … last is the solid
            let mut ll = (n as u32).to_be_bytes().to_vec();
            let base = 4 + 4 * n;
            for i in 0..n {
                ll.extend_from_slice(&((base + 6 * i) as u32).to_be_bytes());
            }
            for i in 0..n {
                if i + 1 == n {
                    ll.extend_from_slice(&SOLID);
                } else {
                    ll.extend_from_slice(&[1, 1]);
                    ll.extend_from_slice(&(i as u32 + 1).to_be_bytes());
                }
            }
            let mut t = header(bgl.len(), true);
            t.extend(bgl);
            t.extend(ll);
            t
        }
        _ => {
            // glyph 2+i -> PaintColrGlyph(2+i+1); the last one -> solid
            let n = depth.min(60_000);
            let mut bgl = (n as u32 + 1).to_be_bytes().to_vec();
            let paints = 4 + 6 * (n + 1);
            for i in 0..=n {
                bgl.extend_from_slice(&(2 + i as u16).to_be_bytes());
                bgl.extend_from_slice(&((paints + 3 * i) as u32).to_be_bytes());
            }
            for i in 0..n {
                bgl.push(11);
                bgl.extend_from_slice(&(3 + i as u16).to_be_bytes());
            }
            bgl.extend_from_slice(&SOLID);
            let mut t = header(bgl.len(), false);
            t.extend(bgl);
            t
        }
    }
}

pub fn deep_item(idx: u64) -> Item {
    let kind = idx as usize / DEEP_DEPTHS.len();
    let depth = DEEP_DEPTHS[idx as usize % DEEP_DEPTHS.len()];
    Item {
        desc: format!("chain of {depth} x {} ending in PaintSolid", deep_kind_name(kind)),
        colr: deep_table(kind, depth),
    }
}
pub const DEEP_ITEMS: u64 = (DEEP_KINDS * 6) as u64;

pub fn describe(spec: &Value) -> String {
    let (Some(part), Some(idx)) = (spec["part"].as_u64(), spec["only"].as_u64()) else {
        return String::new();
    };
    if part == 4 {
        return if idx < DEEP_ITEMS { deep_item(idx).desc } else { String::new() };
    }
    items(part).get(idx as usize).map(|i| i.desc.clone()).unwrap_or_default()
}

/// Returns (ok paints, callbacks)
pub fn exercise(acc: &mut Acc, font_bytes: &[u8]) -> (u64, u64) {
    let mut painted = (0u64, 0u64);
    let Some(Ok(font)) = acc.call(ST, || FontRef::new(font_bytes)) else {
        acc.count("font_rejected");
        return painted;
    };
    let Some(cc) = acc.call(ST, || font.color_glyphs()) else {
        return painted;
    };
    let mut h = Fnv::new();
    let mut any = false;
    let locs = [vec![], vec![NormalizedCoord::from_f32(1.0)]];
    for gid in [1u32, 2, 3, 4, 0xFFFF] {
        let gid = GlyphId::new(gid);
        let Some(variants) = acc.call(ST, || {
            [
                cc.get(gid),
                cc.get_with_format(gid, ColorGlyphFormat::ColrV0),
                cc.get_with_format(gid, ColorGlyphFormat::ColrV1),
            ]
        }) else {
            continue;
        };
        for cg in variants.iter().flatten() {
            for loc in &locs {
                for cached_ok in [false, true] {
                    let r = acc.call(ST, || {
                        let mut p = RecPainter {
                            h: Fnv::new(),
                            n: 0,
                            cached_ok,
                        };
                        let r = cg.paint(LocationRef::new(loc), &mut p);
                        (r, p.h.finish(), p.n)
                    });
                    if let Some((r, ph, pn)) = r {
                        match r {
                            Ok(()) => {
                                acc.count("paint_ok");
                                painted.0 += 1;
                                painted.1 += pn;
                                any |= pn > 0;
                                h.byte(1);
                                h.u64(ph);
                            }
                            Err(e) => {
                                acc.count("paint_err");
                                if std::env::var("C02_DEBUG").is_ok() {
                                    eprintln!("paint error: {e:?}");
                                }
                                h.byte(2);
                                h.str(&format!("{e:?}"));
                            }
                        }
                    }
                }
                for size in [Size::unscaled(), Size::new(13.5)] {
                    if let Some(b) = acc.call(ST, || cg.bounding_box(LocationRef::new(loc), size)) {
                        h.str(&format!("{b:?}"));
                    }
                }
            }
        }
    }
    acc.observe(h.finish(), any);
    painted
}

/// Font shell: 5 glyphs (0 empty, 1 triangle, 2..4 colour glyphs), fvar, COLR
pub struct Parts(colrgrad::Parts);
impl Parts {
    pub fn new() -> Self {
        Parts(colrgrad::Parts::with_glyph_count(5))
    }
    pub fn build(&self, colr: Vec<u8>) -> Vec<u8> {
        self.0.build(colr)
    }
}
impl Default for Parts {
    fn default() -> Self {
        Self::new()
    }
}

/// `{"driver":"colridx","part":0|1|2,"only":idx?,"from":idx?}`
pub fn drive(spec: &Value) -> CaseOut {
    let Some(part) = spec["part"].as_u64().filter(|p| *p <= 4) else {
        return crate::bad_case(format!("bad colridx case {spec}"));
    };
    let parts = Parts::new();
    let mut acc = Acc::new("colridx");
    let only = spec["only"].as_u64();
    let from = spec["from"].as_u64().unwrap_or(0);
    if part == 4 {
        // built one at a time: the deepest tables are several MB each
        for idx in from..DEEP_ITEMS {
            if only.map(|o| o != idx).unwrap_or(false) {
                continue;
            }
            set_sub(idx);
            acc.sub_override = Some(idx);
            acc.evals += 1;
            exercise(&mut acc, &parts.build(deep_item(idx).colr));
        }
        return acc.finish();
    }
    for (idx, item) in items(part).into_iter().enumerate() {
        let idx = idx as u64;
        if idx < from || only.map(|o| o != idx).unwrap_or(false) {
            continue;
        }
        set_sub(idx);
        acc.sub_override = Some(idx);
        acc.evals += 1;
        exercise(&mut acc, &parts.build(item.colr));
    }
    acc.finish()
}

pub fn gen_cases() -> Vec<Value> {
    (0..5).map(|p| json!({"driver": "colridx", "part": p})).collect()
}

pub fn bounds() -> Value {
    let t = template();
    json!({"labelled_fields": t.with_map.fields.iter().map(|f| format!("{} ({} bytes)", f.0, f.2)).collect::<Vec<_>>(),
        "values_per_field": "0, 1, MAX-255, MAX-1, MAX, MAX/2, MAX/2+1 of the field width",
        "items": [items(0).len(), items(1).len(), items(2).len(), items(3).len()],
        "part3": "each paint format 1..=32 as the last object of the table x 0..=4 missing bytes",
        "part4_deep_chains": {"wrapper_kinds": (0..DEEP_KINDS).map(deep_kind_name).collect::<Vec<_>>(), "depths": DEEP_DEPTHS, "tables": DEEP_ITEMS},
        "pairs": "PaintColrLayers.firstLayerIndex x numLayers{0,1,255} x LayerList.numLayers{0,1,3,MAX}; v0 firstLayerIndex x numLayers{0,1,255,MAX} x numLayerRecords{0,2,MAX}; every varIndexBase x mapCount{0,1,4,MAX}; VarColorLine numStops{0,1,255,MAX} x stop0.varIndexBase; clip start x end",
        "glyph_ids": [1, 2, 3, 4, 65535], "locations": ["default", "wght +1.0"]})
}

/// Gate (machinery): the unmodified template must paint all three colour glyphs with callbacks, with and
/// without the DeltaSetIndexMap — i.e. the labelled fields sit in a table the traversal really walks.
pub fn sanity() -> Result<(), String> {
    let t = template();
    let parts = Parts::new();
    for with_map in [false, true] {
        let mut acc = Acc::new("colridx");
        let (ok, callbacks) = exercise(&mut acc, &parts.build(t.bytes(with_map)));
        if !acc.viols.is_empty() {
            return Err(format!("colridx template panicked: {}", acc.viols[0].what));
        }
        let errs = acc.counters.get("paint_err").copied().unwrap_or(0);
        // glyph 2 (get + v1), glyph 3 (get + v0), glyph 4 (get + v1): 6 handles x 2 locations x 2 cache modes
        if ok != 24 || errs != 0 || callbacks < 100 {
            return Err(format!("colridx template does not paint as designed (map={with_map}): {ok} ok paints, {errs} errors, {callbacks} callbacks"));
        }
    }
    Ok(())
}
