//! IFT format-1 patch-map width-boundary family (part of the `ift` phase, driver "ift", `"family":"format1_width"`).
//!
//! Format 1 reads every glyph-map entry, `firstNewEntryIndex`, `entryMapCount` and entry-map record field as
//! 1 byte when `maxEntryIndex < 256` and as 2 bytes otherwise, while `maxGlyphMapEntryIndex` is a second,
//! independent limit: the family puts both limits on each side of 256 and cuts the trailing entry-map data at
//! the lengths around what the records announce. Hand-built `IFT ` tables (inside a font with maxp.numGlyphs = 7
//! and a cmap for U+41..U+45 → glyphs 2..6), enumerated completely:
//!   maxGlyphMapEntryIndex ∈ {1, 255, 256, 300}  ×  maxEntryIndex ∈ {same, 255, 256, 300, 65535}   [one case each]
//!   × patch format ∈ {1 (table keyed, invalidating), 3 (glyph keyed)}
//!   × feature records 0..=3 (dlig: 1 entry-map record, liga: 2, smcp: 1)
//!   × entry-map data length ∈ {0, half, required−1, required, required+1} of the announced records
//!   × subset definitions: features {dlig}, {liga}, {smcp}, {zzzz}, all, none × code points {U+41}, all, none.
//! Plus `big_variants`: entry-map record counts 16383, 16384, 32767, 32768, 65535 (2-byte fields), sums above
//! 65535, firstNewEntryIndex 65535, and 129/130/258 records x 255 (1-byte fields) — the loop's u16 index
//! arithmetic — x patch format {1,3} x {complete, half} data x the same subset definitions.
//! Each tuple goes through `intersecting_patches` and `PatchGroup::select_next_patches` (+ `uris`).
//! Oracle: returns Ok/Err, never panics.

use crate::skdrv::Acc;
use crate::sup::{set_sub, CaseOut};
use font_types::Tag;
use incremental_font_transfer::patch_group::PatchGroup;
use incremental_font_transfer::patchmap::{intersecting_patches, DesignSpace, FeatureSet, SubsetDefinition};
use read_fonts::collections::IntSet;
use read_fonts::types::GlyphId;
use read_fonts::FontRef;
use serde_json::{json, Value};
use std::collections::BTreeSet;
use vcore::Fnv;
use write_fonts::tables::{cmap::Cmap, maxp::Maxp};
use write_fonts::FontBuilder;

pub const GLYPH_MAP_MAX: [u16; 4] = [1, 255, 256, 300];
/// None = same as the glyph-map maximum
pub const ENTRY_MAX: [Option<u16>; 5] = [None, Some(255), Some(256), Some(300), Some(65535)];
pub const FEATURES: [(&[u8; 4], usize); 3] = [(b"dlig", 1), (b"liga", 2), (b"smcp", 1)];
pub const LENGTHS: [&str; 5] = ["0", "half", "required-1", "required", "required+1"];

fn put(v: &mut Vec<u8>, x: u32, width: usize) {
    v.extend_from_slice(&x.to_be_bytes()[4 - width..]);
}

/// The format 1 table. `len_kind` indexes `LENGTHS`.
pub fn table(gm: u16, em: u16, patch_format: u8, records: usize, len_kind: usize) -> Vec<u8> {
    let w = if em < 256 { 1 } else { 2 };
    let mut t = vec![1u8, 0, 0, 0, 0];
    for c in [1u32, 2, 3, 4] {
        put(&mut t, c, 4);
    }
    put(&mut t, em as u32, 2);
    put(&mut t, gm as u32, 2);
    put(&mut t, 7, 3); // glyph count
    let off_pos = t.len();
    put(&mut t, 0, 4); // glyph map offset
    put(&mut t, 0, 4); // feature map offset
    t.extend(vec![0u8; (em as usize + 8) / 8]); // applied entries bitmap
    put(&mut t, 6, 2);
    t.extend_from_slice(b"p/{id}");
    t.push(patch_format);
    // glyph map: glyphs 2..=6
    let gmo = t.len() as u32;
    put(&mut t, 2, 2);
    for e in [1u32.min(gm as u32), gm as u32, gm as u32 / 2, 0, gm as u32] {
        put(&mut t, e, w);
    }
    // feature map (last, so that cutting the entry-map data cuts the table)
    let fmo = t.len() as u32;
    put(&mut t, records as u32, 2);
    let mut total = 0usize;
    for (i, (tag, count)) in FEATURES.iter().take(records).enumerate() {
        t.extend_from_slice(*tag);
        // first new entry index: just above the glyph map's range when there is room, else the maximum
        put(&mut t, (gm as u32 + 1 + 2 * i as u32).min(em as u32), w);
        put(&mut t, *count as u32, w);
        total += count;
    }
    let required = total * 2 * w;
    let len = match len_kind {
        0 => 0,
        1 => required / 2,
        2 => required.saturating_sub(1),
        3 => required,
        _ => required + 1,
    };
    let mut data = vec![];
    for k in 0..total + 1 {
        // entry map record: glyph-map entry range [first, last]
        put(&mut data, (k as u32).min(gm as u32), w);
        put(&mut data, gm as u32, w);
    }
    data.truncate(len);
    t.extend(data);
    t[off_pos..off_pos + 4].copy_from_slice(&gmo.to_be_bytes());
    t[off_pos + 4..off_pos + 8].copy_from_slice(&fmo.to_be_bytes());
    t
}

/// Large entry-map record counts (the feature-map loop does its index arithmetic on u16 values):
/// (name, maxGlyphMapEntryIndex, maxEntryIndex, feature records as (tag, firstNewEntryIndex, entryMapCount)).
/// In every variant the *last* record is `smcp`, so the definition "features smcp" skips all earlier records
/// (accumulating their counts) and reads only records behind them.
pub fn big_variants() -> Vec<(String, u16, u16, Vec<([u8; 4], u32, u32)>)> {
    let mut v = vec![];
    for c0 in [16383u32, 16384, 32767, 32768, 65535] {
        v.push((format!("2-byte fields: dlig x {c0} records, then smcp x 2"), 300u16, 65535u16, vec![(*b"dlig", 301, c0), (*b"smcp", 400, 2)]));
    }
    v.push(("2-byte fields: dlig x 40000, liga x 40000 (sum > 65535), smcp x 2".into(), 300, 65535, vec![(*b"dlig", 301, 40000), (*b"liga", 302, 40000), (*b"smcp", 400, 2)]));
    v.push(("2-byte fields: smcp firstNewEntryIndex 65535 x 2 records".into(), 300, 65535, vec![(*b"smcp", 65535, 2)]));
    for n in [129usize, 130, 258] {
        // 1-byte fields: n records of 255 entry-map records each (n*255 crosses 32768 / 65536), then smcp
        let mut recs: Vec<([u8; 4], u32, u32)> = (0..n).map(|i| ([b'a', b'0' + (i / 100) as u8, b'0' + (i / 10 % 10) as u8, b'0' + (i % 10) as u8], 200, 255)).collect();
        recs.push((*b"smcp", 201, 2));
        v.push((format!("1-byte fields: {n} records x 255 entry-map records, then smcp x 2"), 100, 255, recs));
    }
    v
}

/// Format 1 table for a `big_variants` entry; `full` = complete entry-map data, else half of it.
pub fn big_table(gm: u16, em: u16, patch_format: u8, recs: &[([u8; 4], u32, u32)], full: bool) -> Vec<u8> {
    let w = if em < 256 { 1 } else { 2 };
    let mut t = vec![1u8, 0, 0, 0, 0];
    for c in [1u32, 2, 3, 4] {
        put(&mut t, c, 4);
    }
    put(&mut t, em as u32, 2);
    put(&mut t, gm as u32, 2);
    put(&mut t, 7, 3);
    let off_pos = t.len();
    put(&mut t, 0, 4);
    put(&mut t, 0, 4);
    t.extend(vec![0u8; (em as usize + 8) / 8]);
    put(&mut t, 6, 2);
    t.extend_from_slice(b"p/{id}");
    t.push(patch_format);
    let gmo = t.len() as u32;
    put(&mut t, 2, 2);
    for e in [1u32, gm as u32, gm as u32 / 2, 0, gm as u32] {
        put(&mut t, e, w);
    }
    let fmo = t.len() as u32;
    put(&mut t, recs.len() as u32, 2);
    let mut total = 0usize;
    for (tag, first, count) in recs {
        t.extend_from_slice(tag);
        put(&mut t, *first, w);
        put(&mut t, *count, w);
        total += *count as usize;
    }
    let mut data = Vec::with_capacity(total * 2 * w);
    for k in 0..total {
        put(&mut data, (k as u32 % 3).min(gm as u32), w);
        put(&mut data, gm as u32, w);
    }
    if !full {
        data.truncate(data.len() / 2);
    }
    t.extend(data);
    t[off_pos..off_pos + 4].copy_from_slice(&gmo.to_be_bytes());
    t[off_pos + 4..off_pos + 8].copy_from_slice(&fmo.to_be_bytes());
    t
}

pub fn font(ift: Vec<u8>) -> Vec<u8> {
    let mut fb = FontBuilder::new();
    fb.add_raw(Tag::new(b"IFT "), ift);
    let maxp = Maxp {
        num_glyphs: 7,
        ..Default::default()
    };
    fb.add_table(&maxp).unwrap();
    let cmap = Cmap::from_mappings((0..5u32).map(|i| (char::from_u32(0x41 + i).unwrap(), GlyphId::new(2 + i)))).unwrap();
    fb.add_table(&cmap).unwrap();
    fb.build()
}

pub fn defs() -> Vec<(String, SubsetDefinition)> {
    let mut out = vec![];
    let feats: Vec<(&str, FeatureSet)> = vec![
        ("dlig", FeatureSet::Set(BTreeSet::from([Tag::new(b"dlig")]))),
        ("liga", FeatureSet::Set(BTreeSet::from([Tag::new(b"liga")]))),
        ("smcp", FeatureSet::Set(BTreeSet::from([Tag::new(b"smcp")]))),
        ("zzzz", FeatureSet::Set(BTreeSet::from([Tag::new(b"zzzz")]))),
        ("all", FeatureSet::All),
        ("none", FeatureSet::default()),
    ];
    for (fname, f) in feats {
        for cname in ["U+41", "all", "none"] {
            let cps: IntSet<u32> = match cname {
                "U+41" => [0x41u32].into_iter().collect(),
                "all" => IntSet::all(),
                _ => IntSet::empty(),
            };
            out.push((format!("features {fname}, code points {cname}"), SubsetDefinition::new(cps, f.clone(), DesignSpace::default())));
        }
    }
    out
}

/// items of a case: (patch format, records, length kind)
pub fn item(idx: u64) -> (u8, usize, usize) {
    let i = idx as usize;
    ([1u8, 3][i / 20], (i / 5) % 4, i % 5)
}
pub const ITEMS: u64 = 40;

pub fn describe(spec: &Value) -> String {
    let Some(idx) = spec["only"].as_u64() else {
        return String::new();
    };
    let (pf, r, l) = item(idx);
    format!("patch format {pf}, {r} feature records, entry-map data length {}", LENGTHS[l])
}

pub const ST: usize = 16;

/// `{"driver":"ift","family":"format1_width","gm":index,"em":index,"only":idx?,"from":idx?}`
pub fn drive(spec: &Value) -> CaseOut {
    if spec["big"].as_bool() == Some(true) {
        return drive_big(spec);
    }
    let (Some(gi), Some(ei)) = (spec["gm"].as_u64(), spec["em"].as_u64()) else {
        return crate::bad_case(format!("bad format1_width case {spec}"));
    };
    if gi as usize >= GLYPH_MAP_MAX.len() || ei as usize >= ENTRY_MAX.len() {
        return crate::bad_case(format!("bad format1_width case {spec}"));
    }
    let gm = GLYPH_MAP_MAX[gi as usize];
    let em = ENTRY_MAX[ei as usize].unwrap_or(gm);
    let mut acc = Acc::new("ift");
    let only = spec["only"].as_u64();
    let all_defs = defs();
    for idx in spec["from"].as_u64().unwrap_or(0)..ITEMS {
        if only.map(|o| o != idx).unwrap_or(false) {
            continue;
        }
        set_sub(idx);
        acc.sub_override = Some(idx);
        let (pf, records, len_kind) = item(idx);
        let bytes = font(table(gm, em, pf, records, len_kind));
        for (di, (_, def)) in all_defs.iter().enumerate() {
            acc.evals += 1;
            let mut h = Fnv::new();
            h.str("format1_width");
            h.u64(((gi << 24) + (ei << 16) + (idx << 8)) + di as u64);
            let r = acc.call(ST, || {
                let font = FontRef::new(&bytes).ok()?;
                Some(intersecting_patches(&font, def).map(|v| {
                    v.iter().take(64).map(|u| format!("{:?}", u.uri_string())).collect::<Vec<_>>()
                }))
            });
            h.str(&format!("{r:?}"));
            let ok = matches!(&r, Some(Some(Ok(v))) if !v.is_empty());
            let r2 = acc.call(crate::iftdrv::ST_SELECT, || {
                let font = FontRef::new(&bytes).map_err(|e| format!("{e:?}"))?;
                let g = PatchGroup::select_next_patches(font, def).map_err(|e| format!("{e:?}"))?;
                Ok::<_, String>((g.has_uris(), g.uris().take(64).map(|s| s.to_string()).collect::<Vec<_>>()))
            });
            h.str(&format!("{r2:?}"));
            if ok {
                acc.count("intersect_nonempty");
            }
            acc.observe(h.finish(), ok);
        }
    }
    acc.finish()
}

/// items of a "big" case (one case per variant): patch format {1,3} x {full, half} entry-map data
fn big_item(idx: u64) -> (u8, bool) {
    ([1u8, 3][(idx / 2 % 2) as usize], idx % 2 == 0)
}

pub fn describe_big(spec: &Value) -> String {
    let Some(idx) = spec["only"].as_u64() else {
        return String::new();
    };
    let (pf, full) = big_item(idx);
    let vi = spec["variant"].as_u64().unwrap_or(0) as usize;
    big_variants().get(vi).map(|v| format!("{}; patch format {pf}; entry-map data {}", v.0, if full { "complete" } else { "half" })).unwrap_or_default()
}

/// `{"driver":"ift","family":"format1_width","big":true,"variant":v,"only":idx?,"from":idx?}`
fn drive_big(spec: &Value) -> CaseOut {
    let variants = big_variants();
    let Some(vi) = spec["variant"].as_u64().map(|v| v as usize).filter(|v| *v < variants.len()) else {
        return crate::bad_case(format!("bad format1_width big case {spec}"));
    };
    let mut acc = Acc::new("ift");
    let only = spec["only"].as_u64();
    let all_defs = defs();
    for idx in spec["from"].as_u64().unwrap_or(0)..4 {
        if only.map(|o| o != idx).unwrap_or(false) {
            continue;
        }
        set_sub(idx);
        acc.sub_override = Some(idx);
        let (pf, full) = big_item(idx);
        let (_, gm, em, recs) = &variants[vi];
        let bytes = font(big_table(*gm, *em, pf, recs, full));
        for (di, (_, def)) in all_defs.iter().enumerate() {
            acc.evals += 1;
            let mut h = Fnv::new();
            h.str("format1_big");
            h.u64(((vi as u64) << 16) + (idx << 8) + di as u64);
            let r = acc.call(ST, || {
                let font = FontRef::new(&bytes).ok()?;
                Some(intersecting_patches(&font, def).map(|v| v.iter().take(64).map(|u| format!("{:?}", u.uri_string())).collect::<Vec<_>>()))
            });
            h.str(&format!("{r:?}"));
            let ok = matches!(&r, Some(Some(Ok(v))) if !v.is_empty());
            let r2 = acc.call(crate::iftdrv::ST_SELECT, || {
                let font = FontRef::new(&bytes).map_err(|e| format!("{e:?}"))?;
                let g = PatchGroup::select_next_patches(font, def).map_err(|e| format!("{e:?}"))?;
                Ok::<_, String>((g.has_uris(), g.uris().take(64).map(|s| s.to_string()).collect::<Vec<_>>()))
            });
            h.str(&format!("{r2:?}"));
            if ok {
                acc.count("intersect_nonempty");
            }
            acc.observe(h.finish(), ok);
        }
    }
    acc.finish()
}

pub fn gen_cases() -> Vec<Value> {
    let mut out: Vec<Value> = (0..big_variants().len()).map(|v| json!({"driver": "ift", "family": "format1_width", "big": true, "variant": v})).collect();
    for gm in 0..GLYPH_MAP_MAX.len() {
        for em in 0..ENTRY_MAX.len() {
            out.push(json!({"driver": "ift", "family": "format1_width", "gm": gm, "em": em}));
        }
    }
    out
}

pub fn bounds() -> Value {
    json!({"maxGlyphMapEntryIndex": GLYPH_MAP_MAX, "maxEntryIndex": ["same", 255, 256, 300, 65535], "patch_formats": [1, 3],
        "feature_records": "0..=3 (dlig 1, liga 2, smcp 1 entry-map records)", "entry_map_data_length": LENGTHS,
        "subset_definitions": defs().iter().map(|d| d.0.clone()).collect::<Vec<_>>(), "tables": GLYPH_MAP_MAX.len() as u64 * ENTRY_MAX.len() as u64 * ITEMS,
        "large_record_counts": big_variants().iter().map(|v| v.0.clone()).collect::<Vec<_>>()})
}

/// Gate (machinery): the well-formed member (limits 300/300, 3 records, full data, all features, all code points)
/// must intersect to a non-empty URI list — the hand-built table is a format 1 map the client really reads.
pub fn sanity() -> Result<(), String> {
    let bytes = font(table(300, 300, 3, 3, 3));
    let f = FontRef::new(&bytes).map_err(|e| format!("{e:?}"))?;
    let def = SubsetDefinition::new(IntSet::all(), FeatureSet::All, DesignSpace::default());
    match intersecting_patches(&f, &def) {
        Ok(v) if !v.is_empty() => Ok(()),
        other => Err(format!("format 1 family: the well-formed table does not intersect: {:?}", other.map(|v| v.len()))),
    }
}
