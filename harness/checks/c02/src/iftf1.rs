//! IFT format-1 patch-map width-boundary family (part of the `ift` phase, driver "ift", `"family":"format1_width"`).
//!
//! Format 1 reads every glyph-map entry, `firstNewEntryIndex`, `entryMapCount` and entry-map record field as
//! 1 byte when `maxEntryIndex < 256` and as 2 bytes otherwise, while `maxGlyphMapEntryIndex` is a second,
//! independent limit: the family puts both limits on each side of 256 and cuts the trailing entry-map data at
//! the lengths around what the records announce. Hand-built `IFT ` tables (inside a font with maxp.numGlyphs = 7
//! and a cmap for U+41..U+45 → glyphs 2..6), enumerated completely:
//!   maxGlyphMapEntryIndex ∈ {1, 255, 256, 300}  ×  maxEntryIndex ∈ {same, 255, 256, 300, 65535}   [one case each]
//!   × patch format ∈ {1 (table keyed, invalidating), 3 (glyph keyed)}
//!   × feature records 0..=3 (dlig: 1 entry-map record, liga: 2, smcp: 1)
//!   × entry-map data length ∈ {0, half, required−1, required, required+1} of the announced records
//!   × subset definitions: features {dlig}, {liga}, {smcp}, {zzzz}, all, none × code points {U+41}, all, none.
//! Each tuple goes through `intersecting_patches` and `PatchGroup::select_next_patches` (+ `uris`).
//! Oracle: returns Ok/Err, never panics.

use crate::skdrv::Acc;
use crate::sup::{set_sub, CaseOut};
use font_types::Tag;
use incremental_font_transfer::patch_group::PatchGroup;
use incremental_font_transfer::patchmap::{intersecting_patches, DesignSpace, FeatureSet, SubsetDefinition};
use read_fonts::collections::IntSet;
use read_fonts::types::GlyphId;
use read_fonts::FontRef;
use serde_json::{json, Value};
use std::collections::BTreeSet;
use vcore::Fnv;
use write_fonts::tables::{cmap::Cmap, maxp::Maxp};
use write_fonts::FontBuilder;

pub const GLYPH_MAP_MAX: [u16; 4] = [1, 255, 256, 300];
/// None = same as the glyph-map maximum
pub const ENTRY_MAX: [Option<u16>; 5] = [None, Some(255), Some(256), Some(300), Some(65535)];
pub const FEATURES: [(&[u8; 4], usize); 3] = [(b"dlig", 1), (b"liga", 2), (b"smcp", 1)];
pub const LENGTHS: [&str; 5] = ["0", "half", "required-1", "required", "required+1"];

fn put(v: &mut Vec<u8>, x: u32, width: usize) {
    v.extend_from_slice(&x.to_be_bytes()[4 - width..]);
}

/// The format 1 table. `len_kind` indexes `LENGTHS`.
pub fn table(gm: u16, em: u16, patch_format: u8, records: usize, len_kind: usize) -> Vec<u8> {
    let w = if em < 256 { 1 } else { 2 };
    let mut t = vec![1u8, 0, 0, 0, 0];
    for c in [1u32, 2, 3, 4] {
        put(&mut t, c, 4);
    }
    put(&mut t, em as u32, 2);
    put(&mut t, gm as u32, 2);
    put(&mut t, 7, 3); // glyph count
    let off_pos = t.len();
    put(&mut t, 0, 4); // glyph map offset
    put(&mut t, 0, 4); // feature map offset
    t.extend(vec![0u8; (em as usize + 8) / 8]); // applied entries bitmap
    put(&mut t, 6, 2);
    t.extend_from_slice(b"p/{id}");
    t.push(patch_format);
    // glyph map: glyphs 2..=6
    let gmo = t.len() as u32;
    put(&mut t, 2, 2);
    for e in [1u32.min(gm as u32), gm as u32, gm as u32 / 2, 0, gm as u32] {
        put(&mut t, e, w);
    }
    // feature map (last, so that cutting the entry-map data cuts the table)
    let fmo = t.len() as u32;
    put(&mut t, records as u32, 2);
    let mut total = 0usize;
    for (i, (tag, count)) in FEATURES.iter().take(records).enumerate() {
        t.extend_from_slice(*tag);
        // first new entry index: just above the glyph map's range when there is room, else the maximum
        put(&mut t, (gm as u32 + 1 + 2 * i as u32).min(em as u32), w);
        put(&mut t, *count as u32, w);
        total += count;
    }
    let required = total * 2 * w;
    let len = match len_kind {
        0 => 0,
        1 => required / 2,
        2 => required.saturating_sub(1),
        3 => required,
        _ => required + 1,
    };
    let mut data = vec![];
    for k in 0..total + 1 {
        // entry map record: glyph-map entry range [first, last]
        put(&mut data, (k as u32).min(gm as u32), w);
        put(&mut data, gm as u32, w);
    }
    data.truncate(len);
    t.extend(data);
    t[off_pos..off_pos + 4].copy_from_slice(&gmo.to_be_bytes());
    t[off_pos + 4..off_pos + 8].copy_from_slice(&fmo.to_be_bytes());
    t
}

pub fn font(ift: Vec<u8>) -> Vec<u8> {
    let mut fb = FontBuilder::new();
    fb.add_raw(Tag::new(b"IFT "), ift);
    let maxp = Maxp {
        num_glyphs: 7,
        ..Default::default()
    };
    fb.add_table(&maxp).unwrap();
    let cmap = Cmap::from_mappings((0..5u32).map(|i| (char::from_u32(0x41 + i).unwrap(), GlyphId::new(2 + i)))).unwrap();
    fb.add_table(&cmap).unwrap();
    fb.build()
}

pub fn defs() -> Vec<(String, SubsetDefinition)> {
    let mut out = vec![];
    let feats: Vec<(&str, FeatureSet)> = vec![
        ("dlig", FeatureSet::Set(BTreeSet::from([Tag::new(b"dlig")]))),
        ("liga", FeatureSet::Set(BTreeSet::from([Tag::new(b"liga")]))),
        ("smcp", FeatureSet::Set(BTreeSet::from([Tag::new(b"smcp")]))),
        ("zzzz", FeatureSet::Set(BTreeSet::from([Tag::new(b"zzzz")]))),
        ("all", FeatureSet::All),
        ("none", FeatureSet::default()),
    ];
    for (fname, f) in feats {
        for cname in ["U+41", "all", "none"] {
            let cps: IntSet<u32> = match cname {
                "U+41" => [0x41u32].into_iter().collect(),
                "all" => IntSet::all(),
                _ => IntSet::empty(),
            };
            out.push((format!("features {fname}, code points {cname}"), SubsetDefinition::new(cps, f.clone(), DesignSpace::default())));
        }
    }
    out
}

/// items of a case: (patch format, records, length kind)
pub fn item(idx: u64) -> (u8, usize, usize) {
    let i = idx as usize;
    ([1u8, 3][i / 20], (i / 5) % 4, i % 5)
}
pub const ITEMS: u64 = 40;

pub fn describe(spec: &Value) -> String {
    let Some(idx) = spec["only"].as_u64() else {
        return String::new();
    };
    let (pf, r, l) = item(idx);
    format!("patch format {pf}, {r} feature records, entry-map data length {}", LENGTHS[l])
}

pub const ST: usize = 16;

/// `{"driver":"ift","family":"format1_width","gm":index,"em":index,"only":idx?,"from":idx?}`
pub fn drive(spec: &Value) -> CaseOut {
    let (Some(gi), Some(ei)) = (spec["gm"].as_u64(), spec["em"].as_u64()) else {
        return crate::bad_case(format!("bad format1_width case {spec}"));
    };
    if gi as usize >= GLYPH_MAP_MAX.len() || ei as usize >= ENTRY_MAX.len() {
        return crate::bad_case(format!("bad format1_width case {spec}"));
    }
    let gm = GLYPH_MAP_MAX[gi as usize];
    let em = ENTRY_MAX[ei as usize].unwrap_or(gm);
    let mut acc = Acc::new("ift");
    let only = spec["only"].as_u64();
    let all_defs = defs();
    for idx in spec["from"].as_u64().unwrap_or(0)..ITEMS {
        if only.map(|o| o != idx).unwrap_or(false) {
            continue;
        }
        set_sub(idx);
        acc.sub_override = Some(idx);
        let (pf, records, len_kind) = item(idx);
        let bytes = font(table(gm, em, pf, records, len_kind));
        for (di, (_, def)) in all_defs.iter().enumerate() {
            acc.evals += 1;
            let mut h = Fnv::new();
            h.str("format1_width");
            h.u64(((gi << 24) + (ei << 16) + (idx << 8)) + di as u64);
            let r = acc.call(ST, || {
                let font = FontRef::new(&bytes).ok()?;
                Some(intersecting_patches(&font, def).map(|v| {
                    v.iter().take(64).map(|u| format!("{:?}", u.uri_string())).collect::<Vec<_>>()
                }))
            });
            h.str(&format!("{r:?}"));
            let ok = matches!(&r, Some(Some(Ok(v))) if !v.is_empty());
            let r2 = acc.call(crate::iftdrv::ST_SELECT, || {
                let font = FontRef::new(&bytes).map_err(|e| format!("{e:?}"))?;
                let g = PatchGroup::select_next_patches(font, def).map_err(|e| format!("{e:?}"))?;
                Ok::<_, String>((g.has_uris(), g.uris().take(64).map(|s| s.to_string()).collect::<Vec<_>>()))
            });
            h.str(&format!("{r2:?}"));
            if ok {
                acc.count("intersect_nonempty");
            }
            acc.observe(h.finish(), ok);
        }
    }
    acc.finish()
}

pub fn gen_cases() -> Vec<Value> {
    let mut out = vec![];
    for gm in 0..GLYPH_MAP_MAX.len() {
        for em in 0..ENTRY_MAX.len() {
            out.push(json!({"driver": "ift", "family": "format1_width", "gm": gm, "em": em}));
        }
    }
    out
}

pub fn bounds() -> Value {
    json!({"maxGlyphMapEntryIndex": GLYPH_MAP_MAX, "maxEntryIndex": ["same", 255, 256, 300, 65535], "patch_formats": [1, 3],
        "feature_records": "0..=3 (dlig 1, liga 2, smcp 1 entry-map records)", "entry_map_data_length": LENGTHS,
        "subset_definitions": defs().iter().map(|d| d.0.clone()).collect::<Vec<_>>(), "tables": GLYPH_MAP_MAX.len() as u64 * ENTRY_MAX.len() as u64 * ITEMS})
}

/// Gate (machinery): the well-formed member (limits 300/300, 3 records, full data, all features, all code points)
/// must intersect to a non-empty URI list — the hand-built table is a format 1 map the client really reads.
pub fn sanity() -> Result<(), String> {
    let bytes = font(table(300, 300, 3, 3, 3));
    let f = FontRef::new(&bytes).map_err(|e| format!("{e:?}"))?;
    let def = SubsetDefinition::new(IntSet::all(), FeatureSet::All, DesignSpace::default());
    match intersecting_patches(&f, &def) {
        Ok(v) if !v.is_empty() => Ok(()),
        other => Err(format!("format 1 family: the well-formed table does not intersect: {:?}", other.map(|v| v.len()))),
    }
}
