//! Supervisor / worker isolation with a per-call watchdog (DESIGN 2.5, X4).
//!
//! The supervisor re-executes `current_exe()` with `VERIF_C02_WORKER=1` N times. Each worker reads
//! case lines `C <n> <json>` on stdin and answers
//!
//!   `S <n>`              before it starts case n (flushed),
//!   `D <n> <json>`       after it (digests, counters, in-process violations: caught panics, oracle failures),
//!   `H`                  once a second (liveness),
//!   `U <stage> <sub>`    when its own monitor thread sees that a *single call* into the code under test has
//!                        consumed `watchdog` ms of CPU time without returning (drivers bump `PROGRESS` before
//!                        each call; CPU time, so that an oversubscribed machine cannot fake a hang),
//!   `B <function>`       innermost repository function of the stalled thread (captured in a SIGUSR1 handler),
//!   `A <stage> <sub>`    from a SIGABRT handler (stack overflow, allocation failure, abort()).
//!
//! The supervisor reports the in-flight case for any of: U (timeout), A / death by signal / unexpected exit,
//! or total silence beyond the backstop, then restarts the worker and goes on with the next case.
//! Worker death is never silently absorbed; protocol errors are machinery errors.

use serde_json::{json, Value};
use std::collections::VecDeque;
use std::io::{BufRead, BufReader, Write};
use std::process::{Child, ChildStdin, Command, Stdio};
use std::sync::atomic::{AtomicBool, AtomicU64, AtomicUsize, Ordering};
use std::sync::mpsc::{channel, Receiver, RecvTimeoutError};
use std::sync::{Arc, Mutex};
use std::time::Duration;

pub const WORKER_ENV: &str = "VERIF_C02_WORKER";
pub const WATCHDOG_ENV: &str = "VERIF_C02_WATCHDOG_MS";

// ---------------------------------------------------------------------------------------------
// progress markers written by drivers, read by the monitor thread and the signal handlers
// ---------------------------------------------------------------------------------------------

pub static PROGRESS: AtomicU64 = AtomicU64::new(0);
pub static SUB: AtomicU64 = AtomicU64::new(0);
pub static STAGE: AtomicUsize = AtomicUsize::new(0);
static IN_CASE: AtomicBool = AtomicBool::new(false);
static MAIN_THREAD: AtomicU64 = AtomicU64::new(0);

/// Stage names (index stored in `STAGE`). A stage names the public operation about to be called.
pub const STAGES: &[&str] = &[
    "idle",                          // 0
    "FontRef::new",                  // 1
    "metadata",                      // 2
    "OutlineGlyphCollection::get",   // 3
    "OutlineGlyph::draw unhinted",   // 4
    "HintingInstance::new interpreter", // 5
    "HintingInstance::new auto",     // 6
    "HintingInstance::new autofallback", // 7
    "OutlineGlyph::draw hinted interpreter", // 8
    "OutlineGlyph::draw hinted auto", // 9
    "OutlineGlyph::draw hinted autofallback", // 10
    "ColorGlyph::paint",             // 11
    "ColorGlyph::bounding_box",      // 12
    "tt program: HintingInstance::new", // 13
    "tt program: draw hinted",       // 14
    "cff charstring: draw",          // 15
    "ift: intersecting_patches",     // 16
    "ift: select_next_patches",      // 17
    "ift: apply_next_patches_with_decoder", // 18
    "HintingInstance::reconfigure",  // 19
    "charmap",                       // 20
    "GlyphStyles::new",              // 21
    "ift: patched font reparse",     // 22
    "composite graph: draw",         // 23
    "Plan::new",                     // 24
    "subset_font",                   // 25
    "cff2 charstring: draw",         // 26
    "capacity family: cff hinted draw", // 27
    "colour gradient family: paint", // 28
    "colour index family: paint",    // 29
    "metadata family: localized_strings", // 30
    "metadata family: glyph_names",  // 31
    "metadata family: axes/named_instances", // 32
    "metadata family: metrics/glyph_metrics", // 33
    "metadata family: charmap",      // 34
    "metadata family: FontRef",      // 35
    "BuiltInBrotliDecoder::decode",  // 36
];

/// Called by drivers immediately before a call into the code under test.
#[inline]
pub fn mark(stage: usize, sub: u64) {
    STAGE.store(stage, Ordering::Relaxed);
    SUB.store(sub, Ordering::Relaxed);
    PROGRESS.fetch_add(1, Ordering::Relaxed);
}
/// Cheap liveness bump (same stage), for loops of many short calls.
#[inline]
pub fn tick() {
    PROGRESS.fetch_add(1, Ordering::Relaxed);
}
#[inline]
pub fn set_sub(sub: u64) {
    SUB.store(sub, Ordering::Relaxed);
    PROGRESS.fetch_add(1, Ordering::Relaxed);
}

// ---------------------------------------------------------------------------------------------
// case results
// ---------------------------------------------------------------------------------------------

/// One in-process finding of a driver (a caught panic or a failed oracle rule).
#[derive(Clone, Debug, Default)]
pub struct Viol {
    /// "panic" | "ok-instead-of-error" | "need-rejected" | …
    pub kind: String,
    /// driver name + operation (stage), no counters
    pub op: String,
    pub what: String,
    pub sub: u64,
    /// for panics: payload, file, line (`vcore::PanicInfo`)
    pub message: String,
    pub file: String,
    pub line: u32,
}

impl Viol {
    pub fn panic_info(&self) -> vcore::PanicInfo {
        vcore::PanicInfo {
            message: self.message.clone(),
            file: self.file.clone(),
            line: self.line,
        }
    }
    pub fn to_json(&self) -> Value {
        json!({"kind": self.kind, "op": self.op, "what": self.what, "sub": self.sub,
               "message": self.message, "file": self.file, "line": self.line})
    }
    pub fn from_json(v: &Value) -> Viol {
        Viol {
            kind: v["kind"].as_str().unwrap_or("").into(),
            op: v["op"].as_str().unwrap_or("").into(),
            what: v["what"].as_str().unwrap_or("").into(),
            sub: v["sub"].as_u64().unwrap_or(0),
            message: v["message"].as_str().unwrap_or("").into(),
            file: v["file"].as_str().unwrap_or("").into(),
            line: v["line"].as_u64().unwrap_or(0) as u32,
        }
    }
}

/// What a driver returns for one case (possibly a batch of sub-cases).
#[derive(Clone, Debug, Default)]
pub struct CaseOut {
    /// observation digests (distinct values only, capped per case)
    pub digests: Vec<u64>,
    /// the subset that is non-trivial by the property's rule (a draw/paint/apply succeeded)
    pub nontrivial: Vec<u64>,
    /// sub-cases executed (configurations / programs / tuples)
    pub evals: u64,
    /// calls into the code under test
    pub calls: u64,
    pub viols: Vec<Viol>,
    /// named counters (ok draws, errors by kind, …)
    pub counters: Vec<(String, u64)>,
    /// wall time of the case in the worker (filled by `worker_main`; informational only)
    pub ms: u64,
}

impl CaseOut {
    pub fn to_json(&self) -> Value {
        json!({"d": self.digests, "nt": self.nontrivial, "ev": self.evals, "tr": self.calls,
               "v": self.viols.iter().map(|v| v.to_json()).collect::<Vec<_>>(),
               "c": self.counters.iter().map(|(k, n)| json!([k, n])).collect::<Vec<_>>(), "ms": self.ms})
    }
    pub fn from_json(v: &Value) -> CaseOut {
        let u64s = |x: &Value| -> Vec<u64> {
            x.as_array()
                .map(|a| a.iter().filter_map(|e| e.as_u64()).collect())
                .unwrap_or_default()
        };
        CaseOut {
            digests: u64s(&v["d"]),
            nontrivial: u64s(&v["nt"]),
            ms: v["ms"].as_u64().unwrap_or(0),
            evals: v["ev"].as_u64().unwrap_or(0),
            calls: v["tr"].as_u64().unwrap_or(0),
            viols: v["v"]
                .as_array()
                .map(|a| a.iter().map(Viol::from_json).collect())
                .unwrap_or_default(),
            counters: v["c"]
                .as_array()
                .map(|a| {
                    a.iter()
                        .map(|e| (e[0].as_str().unwrap_or("").to_string(), e[1].as_u64().unwrap_or(0)))
                        .collect()
                })
                .unwrap_or_default(),
        }
    }
}

/// The worker died or stalled while running a case.
#[derive(Clone, Debug, Default)]
pub struct Failure {
    /// "timeout" | "abort" | "exit" | "silent"
    pub kind: String,
    /// stage name at the time (from `STAGES`), "" if unknown
    pub stage: String,
    pub sub: u64,
    /// innermost repository function for timeouts ("" if it could not be captured)
    pub function: String,
    /// exit status / signal / stderr tail
    pub detail: String,
}

pub enum Outcome {
    Done(CaseOut),
    Failed(Failure),
}

// ---------------------------------------------------------------------------------------------
// worker side
// ---------------------------------------------------------------------------------------------

fn raw_write(s: &[u8]) {
    let mut done = 0;
    while done < s.len() {
        let r = unsafe { libc::write(1, s[done..].as_ptr() as *const libc::c_void, s.len() - done) };
        if r <= 0 {
            break;
        }
        done += r as usize;
    }
}

/// All regular worker output goes through this lock as whole lines (std's stdout splits long lines into
/// several writes, which would interleave with the monitor's heartbeat).
static OUT_LOCK: Mutex<()> = Mutex::new(());
fn emit(line: &str) {
    let _g = OUT_LOCK.lock();
    raw_write(line.as_bytes());
    raw_write(b"\n");
}

/// async-signal-safe "<tag> <stage> <sub>\n"
fn raw_marker(tag: u8) {
    let mut buf = [0u8; 64];
    let mut n = 0;
    buf[n] = tag;
    n += 1;
    buf[n] = b' ';
    n += 1;
    for v in [STAGE.load(Ordering::Relaxed) as u64, SUB.load(Ordering::Relaxed)] {
        let mut tmp = [0u8; 20];
        let mut k = 0;
        let mut x = v;
        loop {
            tmp[k] = b'0' + (x % 10) as u8;
            k += 1;
            x /= 10;
            if x == 0 {
                break;
            }
        }
        while k > 0 {
            k -= 1;
            buf[n] = tmp[k];
            n += 1;
        }
        buf[n] = b' ';
        n += 1;
    }
    buf[n - 1] = b'\n';
    raw_write(&buf[..n]);
}

/// Crate prefixes of the code under test as they appear in symbol names.
const REPO_CRATES: &[&str] = &[
    "skrifa::",
    "read_fonts::",
    "font_types::",
    "incremental_font_transfer::",
    "write_fonts::",
    "klippa::",
    "shared_brotli_patch_decoder::",
];

/// Normalise one symbol of a textual backtrace to `crate::module::function` if it belongs to a repository
/// crate (no hash suffix, no closure suffix, no generic arguments).
fn normalise_symbol(sym: &str) -> Option<String> {
    let pos = REPO_CRATES.iter().filter_map(|c| sym.find(c)).min()?;
    let s = &sym[pos..];
    // strip generic arguments
    let mut out = String::new();
    let mut depth = 0;
    for c in s.chars() {
        match c {
            '<' => depth += 1,
            '>' => {
                if depth > 0 {
                    depth -= 1
                }
            }
            _ if depth == 0 => out.push(c),
            _ => {}
        }
    }
    let mut s = out;
    if let Some(p) = s.find(" as ") {
        s.truncate(p);
    }
    while let Some(p) = s.rfind("::{{closure}}") {
        s.truncate(p);
    }
    if let Some(p) = s.rfind("::h") {
        if s[p + 3..].len() == 16 && s[p + 3..].chars().all(|c| c.is_ascii_hexdigit()) {
            s.truncate(p);
        }
    }
    Some(s.trim_end_matches(':').replace("::::", "::"))
}

/// Repository frames of a textual `std::backtrace::Backtrace`, outermost first.
pub fn repo_frames(bt: &str) -> Vec<String> {
    let mut v = vec![];
    for line in bt.lines() {
        let l = line.trim_start();
        // frame lines look like "12: skrifa::outline::…::name"; location lines start with "at "
        let Some((idx, sym)) = l.split_once(": ") else {
            continue;
        };
        if !idx.chars().all(|c| c.is_ascii_digit()) {
            continue;
        }
        if let Some(s) = normalise_symbol(sym.trim()) {
            v.push(s);
        }
    }
    v.reverse();
    v
}

/// The function a stall is attributed to: the deepest repository frame common to all stack samples
/// (taken a few tens of ms apart) — i.e. the function whose loop does not terminate, not whichever
/// short-lived callee a single sample happens to land in.
pub fn deepest_common_frame(samples: &[Vec<String>]) -> String {
    let Some(first) = samples.first() else {
        return String::new();
    };
    let mut n = first.len();
    for s in &samples[1..] {
        let mut k = 0;
        while k < n && k < s.len() && s[k] == first[k] {
            k += 1;
        }
        n = k;
    }
    if n == 0 {
        String::new()
    } else {
        first[n - 1].clone()
    }
}

static SAMPLES: Mutex<Vec<Vec<String>>> = Mutex::new(Vec::new());

extern "C" fn on_usr1(_: libc::c_int) {
    // The stalled thread is interrupted here. Capturing a backtrace is not async-signal-safe, but the
    // process is about to be killed anyway; the monitor thread exits the process if this wedges.
    let bt = std::backtrace::Backtrace::force_capture().to_string();
    let frames = repo_frames(&bt);
    if let Ok(mut g) = SAMPLES.try_lock() {
        g.push(frames);
    }
}

extern "C" fn on_abrt(_: libc::c_int) {
    raw_marker(b'A');
    unsafe {
        libc::signal(libc::SIGABRT, libc::SIG_DFL);
    }
}

fn process_cpu_ms() -> u64 {
    let mut ts = libc::timespec { tv_sec: 0, tv_nsec: 0 };
    unsafe {
        libc::clock_gettime(libc::CLOCK_PROCESS_CPUTIME_ID, &mut ts);
    }
    ts.tv_sec as u64 * 1000 + ts.tv_nsec as u64 / 1_000_000
}

/// A stall is measured in **CPU time of this process**, not wall time: "one call into the code under test has
/// consumed `watchdog_ms` of CPU without returning". On an oversubscribed machine a worker can be descheduled
/// for many seconds; that is not a hang of the code under test. (The monitor and output threads use a
/// negligible amount of CPU.) A call that blocks without using CPU is caught by the wall-clock limit of
/// `WALL_FACTOR × watchdog_ms`.
const WALL_FACTOR: u64 = 30;

fn monitor(watchdog_ms: u64) {
    let mut last = PROGRESS.load(Ordering::Relaxed);
    let mut cpu_at_progress = process_cpu_ms();
    let mut wall_at_progress = std::time::Instant::now();
    let mut since_h = 0u64;
    let step = 50u64;
    loop {
        std::thread::sleep(Duration::from_millis(step));
        since_h += step;
        if since_h >= 1000 {
            since_h = 0;
            if let Ok(_g) = OUT_LOCK.try_lock() {
                raw_write(b"H\n");
            }
        }
        let now = PROGRESS.load(Ordering::Relaxed);
        if now != last || !IN_CASE.load(Ordering::Relaxed) {
            last = now;
            cpu_at_progress = process_cpu_ms();
            wall_at_progress = std::time::Instant::now();
            continue;
        }
        let cpu_stalled = process_cpu_ms().saturating_sub(cpu_at_progress);
        let wall_stalled = wall_at_progress.elapsed().as_millis() as u64;
        if cpu_stalled >= watchdog_ms || wall_stalled >= WALL_FACTOR * watchdog_ms {
            raw_marker(b'U');
            // five stack samples of the stalled thread, 25 ms of execution apart
            let t0 = std::time::Instant::now();
            for k in 0..5 {
                unsafe {
                    libc::pthread_kill(MAIN_THREAD.load(Ordering::Relaxed) as libc::pthread_t, libc::SIGUSR1);
                }
                while SAMPLES.lock().map(|g| g.len()).unwrap_or(0) <= k && t0.elapsed().as_millis() < 20_000 {
                    std::thread::sleep(Duration::from_millis(5));
                }
                std::thread::sleep(Duration::from_millis(25));
            }
            let f = SAMPLES.lock().map(|g| deepest_common_frame(&g)).unwrap_or_default();
            let line = format!("B {}\n", if f.is_empty() { "?" } else { &f });
            raw_write(line.as_bytes());
            unsafe { libc::_exit(3) }
        }
    }
}

pub fn is_worker() -> bool {
    std::env::var(WORKER_ENV).is_ok()
}

/// Worker loop; never returns. `run` executes one case (already wrapped against panics by the drivers;
/// a panic that escapes is caught here and reported as a violation of kind "panic" with op "escaped").
pub fn worker_main(run: &dyn Fn(&Value) -> CaseOut) -> ! {
    vcore::install_panic_hook();
    let watchdog_ms: u64 = std::env::var(WATCHDOG_ENV)
        .ok()
        .and_then(|s| s.parse().ok())
        .unwrap_or(10_000);
    unsafe {
        MAIN_THREAD.store(libc::pthread_self() as u64, Ordering::Relaxed);
        libc::signal(libc::SIGUSR1, on_usr1 as *const () as usize);
        libc::signal(libc::SIGABRT, on_abrt as *const () as usize);
        // bound the address space so that a font-controlled giant allocation aborts this worker
        // (reported as a violation) instead of taking the machine down
        let lim = libc::rlimit {
            rlim_cur: 6 << 30,
            rlim_max: 6 << 30,
        };
        libc::setrlimit(libc::RLIMIT_AS, &lim);
        // an aborting worker (allocation failure, stack overflow) must not leave core files behind
        let nocore = libc::rlimit { rlim_cur: 0, rlim_max: 0 };
        libc::setrlimit(libc::RLIMIT_CORE, &nocore);
    }
    std::thread::spawn(move || monitor(watchdog_ms));
    let stdin = std::io::stdin();
    let mut line = String::new();
    loop {
        line.clear();
        match stdin.lock().read_line(&mut line) {
            Ok(0) | Err(_) => std::process::exit(0),
            Ok(_) => {}
        }
        let l = line.trim_end();
        if l == "Q" {
            std::process::exit(0);
        }
        let mut it = l.splitn(3, ' ');
        let (Some("C"), Some(n), Some(js)) = (it.next(), it.next(), it.next()) else {
            emit("E bad line");
            std::process::exit(4);
        };
        let Ok(spec) = serde_json::from_str::<Value>(js) else {
            emit("E bad json");
            std::process::exit(4);
        };
        emit(&format!("S {n}"));
        mark(0, 0);
        IN_CASE.store(true, Ordering::Relaxed);
        let t0 = std::time::Instant::now();
        let mut out = match vcore::guard(|| run(&spec)) {
            Ok(o) => o,
            Err(p) => CaseOut {
                evals: 1,
                viols: vec![Viol {
                    kind: "panic".into(),
                    op: "escaped".into(),
                    what: format!("panic escaped the driver: {} at {}:{}", p.message, p.file, p.line),
                    message: p.message,
                    file: p.file,
                    line: p.line,
                    ..Default::default()
                }],
                ..Default::default()
            },
        };
        IN_CASE.store(false, Ordering::Relaxed);
        out.ms = t0.elapsed().as_millis() as u64;
        emit(&format!("D {n} {}", out.to_json()));
    }
}

// ---------------------------------------------------------------------------------------------
// supervisor side
// ---------------------------------------------------------------------------------------------

#[derive(Clone, Debug)]
pub struct SupOpts {
    pub workers: usize,
    /// per-call watchdog inside the worker
    pub watchdog_ms: u64,
    /// cases handed to a worker at a time
    pub chunk: u64,
}

impl Default for SupOpts {
    fn default() -> Self {
        SupOpts {
            workers: 16,
            watchdog_ms: 10_000,
            chunk: 8,
        }
    }
}

#[derive(Default, Debug, Clone)]
pub struct SupStats {
    pub cases: u64,
    pub failures: u64,
    pub respawns: u64,
}

struct Kid {
    proc: Child,
    stdin: ChildStdin,
    rx: Receiver<String>,
    stderr_tail: Arc<Mutex<VecDeque<String>>>,
    stderr_reader: Option<std::thread::JoinHandle<()>>,
}

fn spawn_kid(opts: &SupOpts) -> Result<Kid, String> {
    let exe = std::env::current_exe().map_err(|e| format!("current_exe: {e}"))?;
    let mut proc = Command::new(exe)
        .env(WORKER_ENV, "1")
        .env(WATCHDOG_ENV, opts.watchdog_ms.to_string())
        .env("RUST_BACKTRACE", "0")
        .stdin(Stdio::piped())
        .stdout(Stdio::piped())
        .stderr(Stdio::piped())
        .spawn()
        .map_err(|e| format!("spawn worker: {e}"))?;
    let stdin = proc.stdin.take().unwrap();
    let stdout = proc.stdout.take().unwrap();
    let stderr = proc.stderr.take().unwrap();
    let (tx, rx) = channel();
    std::thread::spawn(move || {
        for l in BufReader::new(stdout).lines() {
            let Ok(l) = l else { break };
            if tx.send(l).is_err() {
                break;
            }
        }
    });
    let stderr_tail = Arc::new(Mutex::new(VecDeque::new()));
    let tail = stderr_tail.clone();
    let stderr_reader = std::thread::spawn(move || {
        for l in BufReader::new(stderr).lines() {
            let Ok(l) = l else { break };
            let mut g = tail.lock().unwrap();
            if g.len() >= 8 {
                g.pop_front();
            }
            g.push_back(l.chars().take(300).collect());
        }
    });
    Ok(Kid {
        proc,
        stdin,
        rx,
        stderr_tail,
        stderr_reader: Some(stderr_reader),
    })
}

fn reap(mut kid: Kid, kill: bool) -> String {
    if kill {
        let _ = kid.proc.kill();
    }
    let status = kid.proc.wait();
    if let Some(h) = kid.stderr_reader.take() {
        let _ = h.join(); // the child is dead, so its stderr reaches EOF: the tail is complete
    }
    let tail: Vec<String> = kid.stderr_tail.lock().unwrap().iter().cloned().collect();
    let st = match status {
        Ok(s) => {
            use std::os::unix::process::ExitStatusExt;
            if let Some(sig) = s.signal() {
                format!("signal {sig}")
            } else {
                format!("exit code {}", s.code().unwrap_or(-1))
            }
        }
        Err(e) => format!("wait failed: {e}"),
    };
    format!("{st}; stderr: {}", tail.join(" | "))
}

/// Run cases 0..n through worker processes. `get(i)` renders case i as one-line JSON; `on(i, outcome)` is
/// called (from supervisor threads, serialise inside) once per case — and once more for every follow-up
/// case that `resume(i, case_json, &failure)` returns after a worker failure (batch drivers continue after
/// the sub-case that killed the worker; at most `MAX_RESUMES` times per case). Err = machinery error.
pub fn supervise(
    n: u64,
    get: &(dyn Fn(u64) -> String + Sync),
    opts: &SupOpts,
    on: &(dyn Fn(u64, Outcome) + Sync),
) -> Result<SupStats, String> {
    supervise_resumable(n, get, opts, on, &|_, _, _| None)
}

pub const MAX_RESUMES: u32 = 64;

pub fn supervise_resumable(
    n: u64,
    get: &(dyn Fn(u64) -> String + Sync),
    opts: &SupOpts,
    on: &(dyn Fn(u64, Outcome) + Sync),
    resume: &(dyn Fn(u64, &str, &Failure) -> Option<String> + Sync),
) -> Result<SupStats, String> {
    let next = AtomicU64::new(0);
    let stats = Mutex::new(SupStats::default());
    let error: Mutex<Option<String>> = Mutex::new(None);
    let stop = AtomicBool::new(false);
    // backstop: the worker's own monitor speaks first (heartbeat every second, CPU-time watchdog, wall limit
    // of WALL_FACTOR x watchdog); total silence for much longer than that means the whole process is wedged
    let backstop = Duration::from_millis((WALL_FACTOR + 10) * opts.watchdog_ms + 60_000);
    std::thread::scope(|sc| {
        for _ in 0..opts.workers.max(1).min(n.max(1) as usize) {
            sc.spawn(|| {
                let mut kid: Option<Kid> = None;
                let mut early_deaths = 0u32;
                let fail = |msg: String| {
                    *error.lock().unwrap() = Some(msg);
                    stop.store(true, Ordering::Relaxed);
                };
                'outer: loop {
                    let start = next.fetch_add(opts.chunk, Ordering::Relaxed);
                    if start >= n || stop.load(Ordering::Relaxed) {
                        break;
                    }
                    for i in start..(start + opts.chunk).min(n) {
                        if stop.load(Ordering::Relaxed) {
                            break 'outer;
                        }
                        if kid.is_none() {
                            match spawn_kid(opts) {
                                Ok(k) => {
                                    kid = Some(k);
                                    stats.lock().unwrap().respawns += 1;
                                }
                                Err(e) => {
                                    fail(e);
                                    break 'outer;
                                }
                            }
                        }
                        let mut case_json = get(i);
                        let mut resumes = 0u32;
                        loop {
                        // (re)spawn lazily: after a failure the follow-up case needs a fresh worker
                        if kid.is_none() {
                            match spawn_kid(opts) {
                                Ok(k) => {
                                    kid = Some(k);
                                    stats.lock().unwrap().respawns += 1;
                                }
                                Err(e) => {
                                    fail(e);
                                    break 'outer;
                                }
                            }
                        }
                        let k = kid.as_mut().unwrap();
                        let line = format!("C {} {}\n", i, case_json);
                        let sent = k.stdin.write_all(line.as_bytes()).and_then(|_| k.stdin.flush());
                        let mut started = false;
                        let mut f = Failure::default();
                        let mut done: Option<CaseOut> = None;
                        let mut kill = false;
                        if sent.is_ok() {
                            loop {
                                match k.rx.recv_timeout(backstop) {
                                    Ok(l) => {
                                        let (tag, rest) = l.split_once(' ').unwrap_or((l.as_str(), ""));
                                        match tag {
                                            "H" => {}
                                            "S" => {
                                                if rest.trim() != i.to_string() {
                                                    fail(format!("worker protocol: got S {rest} for case {i}"));
                                                    break 'outer;
                                                }
                                                started = true;
                                            }
                                            "D" => {
                                                let (nn, js) = rest.split_once(' ').unwrap_or((rest, "{}"));
                                                if nn != i.to_string() {
                                                    fail(format!("worker protocol: got D {nn} for case {i}"));
                                                    break 'outer;
                                                }
                                                match serde_json::from_str::<Value>(js) {
                                                    Ok(v) => done = Some(CaseOut::from_json(&v)),
                                                    Err(e) => {
                                                        fail(format!("worker protocol: bad D json: {e}"));
                                                        break 'outer;
                                                    }
                                                }
                                                break;
                                            }
                                            "U" | "A" => {
                                                let mut it = rest.split(' ');
                                                let st: usize = it.next().and_then(|s| s.parse().ok()).unwrap_or(0);
                                                f.stage = STAGES.get(st).copied().unwrap_or("?").to_string();
                                                f.sub = it.next().and_then(|s| s.parse().ok()).unwrap_or(0);
                                                f.kind = if tag == "U" { "timeout" } else { "abort" }.into();
                                            }
                                            "B" => {
                                                f.function = rest.trim().trim_matches('?').to_string();
                                            }
                                            "E" => {
                                                fail(format!("worker protocol: worker says {rest}"));
                                                break 'outer;
                                            }
                                            _ => {
                                                // stray output of the code under test on stdout: ignore
                                            }
                                        }
                                    }
                                    Err(RecvTimeoutError::Timeout) => {
                                        f.kind = "silent".into();
                                        kill = true;
                                        break;
                                    }
                                    Err(RecvTimeoutError::Disconnected) => break,
                                }
                            }
                        }
                        if let Some(out) = done {
                            early_deaths = 0;
                            stats.lock().unwrap().cases += 1;
                            on(i, Outcome::Done(out));
                            break;
                        }
                        // the worker died / stalled / could not be written to
                        let detail = reap(kid.take().unwrap(), kill);
                        if !started {
                            early_deaths += 1;
                            if early_deaths >= 3 {
                                fail(format!("worker dies before starting a case: {detail}"));
                                break 'outer;
                            }
                        } else {
                            early_deaths = 0;
                        }
                        if f.kind.is_empty() && !kill && detail.starts_with("signal 9;") {
                            // SIGKILL that we did not send: the environment (OOM killer, operator) removed the
                            // worker. The code under test cannot raise SIGKILL on itself: machinery, not a verdict.
                            fail(format!("worker was killed by SIGKILL from outside while running case {i}: {detail}"));
                            break 'outer;
                        }
                        if f.kind.is_empty() {
                            f.kind = if detail.starts_with("signal") { "abort" } else { "exit" }.into();
                        }
                        f.detail = detail;
                        {
                            let mut g = stats.lock().unwrap();
                            g.cases += 1;
                            g.failures += 1;
                        }
                        let next = if resumes < MAX_RESUMES { resume(i, &case_json, &f) } else { None };
                        on(i, Outcome::Failed(f));
                        match next {
                            Some(nj) => {
                                case_json = nj;
                                resumes += 1;
                            }
                            None => break,
                        }
                        }
                    }
                }
                if let Some(mut k) = kid {
                    let _ = k.stdin.write_all(b"Q\n");
                    let _ = k.stdin.flush();
                    drop(k.stdin);
                    let _ = k.proc.wait();
                }
            });
        }
    });
    if let Some(e) = error.into_inner().unwrap() {
        return Err(e);
    }
    Ok(stats.into_inner().unwrap())
}
