//! C02 library: drivers, case generators and the supervisor. Reused by c20 (same drivers, strict profile).
//!
//! A *case* is a one-line JSON object `{"driver": <name>, …}`; `run_case` executes it in the current
//! process and returns a `CaseOut` (digests, counters, in-process violations: caught panics and failed
//! oracle rules). Hangs / aborts are only observable from outside: run cases through `sup::supervise`.

pub mod fontcase;
pub mod skdrv;
pub mod cffprog;
pub mod sup;
pub mod ttprog;

use serde_json::{json, Value};
pub use sup::{CaseOut, Failure, Outcome, SupOpts, Viol};

/// A driver entry point: executes one case description and returns its digest record.
pub type Driver = fn(&Value) -> CaseOut;

/// All driver entry points by name (the `"driver"` field of a case).
pub fn drivers() -> Vec<(&'static str, Driver)> {
    vec![
        ("skrifa", drive_skrifa as Driver),
        ("ttprog", ttprog::drive as Driver),
        ("cffprog", cffprog::drive as Driver),
    ]
}

/// Execute one case in this process (dispatch on `spec["driver"]`).
pub fn run_case(spec: &Value) -> CaseOut {
    let name = spec["driver"].as_str().unwrap_or("");
    for (n, d) in drivers() {
        if n == name {
            return d(spec);
        }
    }
    bad_case(format!("unknown driver {name:?}"))
}

/// A malformed case is a machinery problem, reported through a violation of kind "bad-case"
/// (the binary turns it into a machinery error, never into a verdict).
pub fn bad_case(what: String) -> CaseOut {
    CaseOut {
        viols: vec![Viol {
            kind: "bad-case".into(),
            op: "harness".into(),
            what,
            ..Default::default()
        }],
        ..Default::default()
    }
}

// ---------------------------------------------------------------------------------------------
// driver 1: skrifa configuration product
// ---------------------------------------------------------------------------------------------

/// `{"driver":"skrifa","font":{"seed":…,"devs":[…]},"plan":"full"|"reduced"|"min"}`
pub fn drive_skrifa(spec: &Value) -> CaseOut {
    let Some(fc) = fontcase::FontCase::from_json(&spec["font"]) else {
        return bad_case("skrifa case without font".into());
    };
    let Some(plan) = skdrv::Plan::named(spec["plan"].as_str().unwrap_or("")) else {
        return bad_case("skrifa case with unknown plan".into());
    };
    let Some(bytes) = fc.bytes() else {
        return bad_case(format!("font case does not apply: {}", fc.to_json()));
    };
    skdrv::run(&bytes, &plan)
}

pub fn skrifa_case(fc: &fontcase::FontCase, plan: &str) -> Value {
    json!({"driver": "skrifa", "font": fc.to_json(), "plan": plan})
}

/// Case generator: every corpus font, unmodified.
pub fn gen_corpus_cases(plan: &str) -> Vec<Value> {
    fontcase::corpus()
        .iter()
        .map(|(name, _)| {
            skrifa_case(
                &fontcase::FontCase {
                    seed: name.clone(),
                    devs: vec![],
                },
                plan,
            )
        })
        .collect()
}

/// The deviation space of driver 1: for every corpus font accepted by `font_filter`, every table of
/// `fontcase::TABLE_KINDS` it has, every single deviation (`fontcase::table_deviations`) of that table's first
/// `max_bytes(table)` bytes. Order: font, table kind, offset. Returned as (corpus index, deviation).
pub fn gen_deviation_space(
    font_filter: &dyn Fn(&str, &[u8]) -> bool,
    max_bytes: &dyn Fn(&str) -> usize,
) -> Vec<(usize, fontcase::Dev)> {
    let mut out = vec![];
    for (fi, (name, data)) in fontcase::corpus().iter().enumerate() {
        if !font_filter(name, data) {
            continue;
        }
        let dir = fontcase::table_dir(data);
        for kind in fontcase::TABLE_KINDS {
            let Some((_, off, len)) = dir.iter().find(|(t, _, _)| t == kind) else {
                continue;
            };
            for d in fontcase::table_deviations(kind, &data[*off..*off + *len], max_bytes(kind)) {
                out.push((fi, d));
            }
        }
    }
    out
}

pub fn deviation_case(item: &(usize, fontcase::Dev), plan: &str) -> Value {
    skrifa_case(
        &fontcase::FontCase {
            seed: fontcase::corpus()[item.0].0.clone(),
            devs: vec![item.1.clone()],
        },
        plan,
    )
}
