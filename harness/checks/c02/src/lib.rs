//! C02 library: drivers, case generators and the supervisor. Reused by c20 (same drivers, strict profile).
//!
//! A *case* is a one-line JSON object `{"driver": <name>, …}`; `run_case` executes it in the current
//! process and returns a `CaseOut` (digests, counters, in-process violations: caught panics and failed
//! oracle rules). Hangs / aborts are only observable from outside: run cases through `sup::supervise`.

pub mod fontcase;
pub mod glyfgraph;
pub mod iftdrv;
pub mod iftf1;
pub mod iftf2;
pub mod brotlifam;
pub mod klipdrv;
pub mod metafam;
pub mod metafam2;
pub mod skdrv;
pub mod capfam;
pub mod cff2prog;
pub mod cffprog;
pub mod colrgrad;
pub mod colridx;
pub mod sup;
pub mod ttprog;

use serde_json::{json, Value};
pub use sup::{CaseOut, Failure, Outcome, SupOpts, Viol};

/// A driver entry point: executes one case description and returns its digest record.
pub type Driver = fn(&Value) -> CaseOut;

/// All driver entry points by name (the `"driver"` field of a case).
pub fn drivers() -> Vec<(&'static str, Driver)> {
    vec![
        ("skrifa", drive_skrifa as Driver),
        ("ttprog", ttprog::drive as Driver),
        ("cffprog", cffprog::drive as Driver),
        ("cff2prog", cff2prog::drive as Driver),
        ("ift", iftdrv::drive as Driver),
        ("glyfgraph", glyfgraph::drive as Driver),
        ("klippa", drive_klippa as Driver),
        ("capfam", capfam::drive as Driver),
        ("colrgrad", colrgrad::drive as Driver),
        ("colridx", colridx::drive as Driver),
        ("iftf2", iftf2::drive as Driver),
        ("metafam", metafam::drive as Driver),
        ("brotli", brotlifam::drive as Driver),
    ]
}

/// Execute one case in this process (dispatch on `spec["driver"]`).
pub fn run_case(spec: &Value) -> CaseOut {
    let name = spec["driver"].as_str().unwrap_or("");
    for (n, d) in drivers() {
        if n == name {
            return d(spec);
        }
    }
    bad_case(format!("unknown driver {name:?}"))
}

/// A malformed case is a machinery problem, reported through a violation of kind "bad-case"
/// (the binary turns it into a machinery error, never into a verdict).
pub fn bad_case(what: String) -> CaseOut {
    CaseOut {
        viols: vec![Viol {
            kind: "bad-case".into(),
            op: "harness".into(),
            what,
            ..Default::default()
        }],
        ..Default::default()
    }
}

// ---------------------------------------------------------------------------------------------
// driver 1: skrifa configuration product
// ---------------------------------------------------------------------------------------------

/// `{"driver":"skrifa","font":{"seed":…,"devs":[…]},"plan":"full"|"reduced"|"min"}`
pub fn drive_skrifa(spec: &Value) -> CaseOut {
    let Some(fc) = fontcase::FontCase::from_json(&spec["font"]) else {
        return bad_case("skrifa case without font".into());
    };
    let Some(mut plan) = skdrv::Plan::named(spec["plan"].as_str().unwrap_or("")) else {
        return bad_case("skrifa case with unknown plan".into());
    };
    plan.pristine = fc.devs.is_empty() && fc.trunc.is_none();
    let Some(bytes) = fc.bytes() else {
        return bad_case(format!("font case does not apply: {}", fc.to_json()));
    };
    skdrv::run(&bytes, &plan)
}

/// Drivers whose findings are outside C02's own statement: C02 records them as observations, C20 judges
/// their arithmetic / debug-assert panics.
pub fn is_observation_driver(driver: &str) -> bool {
    driver == "klippa"
}

/// `{"driver":"klippa","font":{"seed":…,"devs":[…]}}` — observations only in C02, see `klipdrv`.
pub fn drive_klippa(spec: &Value) -> CaseOut {
    let Some(fc) = fontcase::FontCase::from_json(&spec["font"]) else {
        return bad_case("klippa case without font".into());
    };
    let Some(bytes) = fc.bytes() else {
        return bad_case(format!("font case does not apply: {}", fc.to_json()));
    };
    klipdrv::run(&bytes)
}

/// Case generator of the klippa phase: every seed accepted by `klipdrv::seed_filter(_, max_size)` unmodified,
/// then every single deviation of the first `max_bytes` bytes of its `klipdrv::TABLE_KINDS` tables.
pub fn gen_klippa_cases(max_size: usize, max_bytes: usize, rich: bool) -> Vec<Value> {
    let mut out = vec![];
    for (name, data) in fontcase::corpus().iter() {
        // AdobeBlank maps all of Unicode: the "everything" request alone costs seconds per subset run
        if !klipdrv::seed_filter(data, max_size) || HEAVY_SEEDS.contains(&name.as_str()) {
            continue;
        }
        let mk = |devs: Vec<fontcase::Dev>| json!({"driver": "klippa", "font": fontcase::FontCase { seed: name.clone(), devs, trunc: None }.to_json()});
        out.push(mk(vec![]));
        let dir = fontcase::table_dir(data);
        for kind in klipdrv::TABLE_KINDS {
            let Some((_, off, len)) = dir.iter().find(|(t, _, _)| t == kind) else {
                continue;
            };
            for d in fontcase::table_deviations_ext(kind, &data[*off..*off + *len], max_bytes, rich) {
                out.push(mk(vec![d]));
            }
        }
    }
    out
}

pub fn skrifa_case(fc: &fontcase::FontCase, plan: &str) -> Value {
    json!({"driver": "skrifa", "font": fc.to_json(), "plan": plan})
}

/// Case generator: every corpus font, unmodified.
pub fn gen_corpus_cases(plan: &str) -> Vec<Value> {
    fontcase::corpus()
        .iter()
        .map(|(name, _)| {
            skrifa_case(
                &fontcase::FontCase {
                    seed: name.clone(),
                    devs: vec![],
                    trunc: None,
                },
                plan,
            )
        })
        .collect()
}

/// The deviation space of driver 1: for every corpus font accepted by `font_filter`, every table of
/// `fontcase::TABLE_KINDS` it has, every single deviation (`fontcase::table_deviations`) of that table's first
/// `max_bytes(font, table)` bytes. Order: font, table kind, offset. Returned as (corpus index, deviation).
pub fn gen_deviation_space(
    font_filter: &dyn Fn(&str, &[u8]) -> bool,
    max_bytes: &dyn Fn(&str, &str) -> usize,
    rich: bool,
) -> Vec<(usize, fontcase::Dev)> {
    let mut out = vec![];
    for (fi, (name, data)) in fontcase::corpus().iter().enumerate() {
        if !font_filter(name, data) {
            continue;
        }
        let dir = fontcase::table_dir(data);
        for kind in fontcase::TABLE_KINDS {
            let Some((_, off, len)) = dir.iter().find(|(t, _, _)| t == kind) else {
                continue;
            };
            for d in fontcase::table_deviations_ext(kind, &data[*off..*off + *len], max_bytes(name, kind), rich) {
                out.push((fi, d));
            }
        }
    }
    out
}

/// Truncation amounts for every table; `fontcase::TRAILING_TABLES` additionally get every k in 1..=32.
pub fn truncation_ks(quick: bool) -> Vec<usize> {
    if quick {
        vec![1, 2, 4]
    } else {
        vec![1, 2, 3, 4, 5, 8, 15, 16]
    }
}

pub fn truncation_bounds(quick: bool) -> Value {
    json!({"every_table_shortened_by": truncation_ks(quick), "tables_with_trailing_records": fontcase::TRAILING_TABLES,
        "trailing_tables_shortened_by": "every k in 1..=32",
        "how": "the table record's length is reduced; the file is cut as well when the table is physically last"})
}

/// Truncation cases for the skrifa driver (`plan` = a skrifa plan name, narrowed per seed/table like
/// `deviation_case`) or for the klippa driver (`plan` = "klippa"): every table of every accepted seed × the
/// truncation amounts of `truncation_ks` (+ 1..=32 for `fontcase::TRAILING_TABLES`).
pub fn gen_truncation_cases(plan: &str, quick: bool, font_filter: &dyn Fn(&str, &[u8]) -> bool) -> Vec<Value> {
    let ks = truncation_ks(quick);
    let mut out = vec![];
    for (name, data) in fontcase::corpus().iter() {
        if !font_filter(name, data) {
            continue;
        }
        let heavy = HEAVY_SEEDS.contains(&name.as_str());
        for (tag, _, len) in fontcase::table_dir(data) {
            for k in fontcase::truncations(&tag, len, &ks, !heavy) {
                let fc = fontcase::FontCase {
                    seed: name.clone(),
                    devs: vec![],
                    trunc: Some((tag.clone(), k as u32)),
                };
                if plan == "klippa" {
                    out.push(json!({"driver": "klippa", "font": fc.to_json()}));
                } else {
                    let meta = META_ONLY_TABLES.contains(&tag.as_str());
                    let klippa_font = name.starts_with("klippa/");
                    let p = match (plan, meta, klippa_font) {
                        ("min", true, _) => "meta",
                        ("reduced", true, false) => "min",
                        ("reduced", true, true) => "meta",
                        ("reduced", false, true) => "min",
                        (p, _, _) => p,
                    };
                    out.push(skrifa_case(&fc, p));
                }
            }
        }
    }
    out
}

/// Tables that only feed metadata queries (no outline / hinting path reads them).
pub const META_ONLY_TABLES: [&str; 4] = ["name", "post", "OS/2", "CPAL"];

/// Fonts of the full memory cross (thorough).
pub const MEMFULL_FONTS: [&str; 4] = [
    "font-test-data/test_data/ttf/glyf_components.ttf",
    "font-test-data/test_data/ttf/vazirmatn_var_trimmed.ttf",
    "font-test-data/test_data/ttf/cvar.ttf",
    "font-test-data/test_data/ttf/tthint_subset.ttf",
];

/// Seeds whose every configuration is expensive (AdobeBlank: a cmap covering all of Unicode that the
/// auto-hinter walks per instance; Roboto: long glyph programs): deviated over fewer bytes.
pub const HEAVY_SEEDS: [&str; 2] = [
    "klippa/test-data/fonts/AdobeBlank-Regular.ttf",
    "klippa/test-data/fonts/Roboto-Regular.ttf",
];
pub const HEAVY_SEED_BYTES: usize = 32;

pub fn deviation_case(item: &(usize, fontcase::Dev), plan: &str) -> Value {
    // metadata-only tables get the next smaller plan: quick "min" -> "meta", thorough "reduced" -> "min";
    // the (larger) klippa fonts are deviated under "min" in thorough
    let meta = META_ONLY_TABLES.contains(&item.1.table.as_str());
    let klippa = fontcase::corpus()[item.0].0.starts_with("klippa/");
    let plan = match (plan, meta, klippa) {
        ("min", true, _) => "meta",
        ("reduced", true, false) => "min",
        ("reduced", true, true) => "meta",
        ("reduced", false, true) => "min",
        (p, _, _) => p,
    };
    skrifa_case(
        &fontcase::FontCase {
            seed: fontcase::corpus()[item.0].0.clone(),
            devs: vec![item.1.clone()],
            trunc: None,
        },
        plan,
    )
}

// ---------------------------------------------------------------------------------------------
// identities, narrowing and resumption (shared with c20)
// ---------------------------------------------------------------------------------------------

/// Identity of a supervisor-level failure (timeout / abort): driver + kind + innermost repo function
/// (timeouts) or stage (aborts). No counters, no line numbers.
pub fn failure_identity(driver: &str, f: &Failure) -> String {
    match f.kind.as_str() {
        "timeout" | "silent" => {
            if f.function.is_empty() {
                format!("{driver}: timeout in {}", f.stage)
            } else {
                format!("{driver}: timeout in {}", f.function)
            }
        }
        _ => {
            let class = if f.detail.contains("overflowed its stack") {
                "stack overflow"
            } else if f.detail.contains("memory allocation") {
                "allocation failure abort"
            } else {
                "abort"
            };
            format!("{driver}: {class} in {}", f.stage)
        }
    }
}

/// Identity of an in-process violation. Panics: `<driver>: panic at <repo file> [<payload class>] in <operation>`
/// — the site comes first so that one known-finding entry ending in `*` covers every operation that reaches
/// the same defect. Oracle rules: `<driver>: <rule> in <operation>`.
pub fn viol_identity(v: &Viol) -> String {
    let (driver, stage) = v.op.split_once(": ").unwrap_or((v.op.as_str(), ""));
    if v.kind == "panic" {
        let p = v.panic_info();
        format!("{driver}: panic at {} [{}] in {stage}", p.site(), p.kind())
    } else {
        format!("{driver}: {} in {stage}", v.kind)
    }
}

/// Batch drivers: restrict the replay case to the sub-case that failed.
pub fn narrow(case: &Value, sub: u64) -> Value {
    let mut c = case.clone();
    let batch = matches!(c["driver"].as_str(), Some("ttprog") | Some("cffprog") | Some("cff2prog")) && !c["o1"].is_null();
    let batch = batch || (c["driver"] == "glyfgraph" && !c["s0"].is_null()) || c["driver"] == "capfam" || c["driver"] == "colrgrad" || c["driver"] == "colridx" || c["family"] == "format1_width" || c["driver"] == "iftf2" || c["driver"] == "metafam" || c["driver"] == "brotli";
    if batch && c["only"].is_null() {
        c["only"] = json!(sub);
        if c["driver"] == "iftf2" {
            c["described"] = json!(iftf2::describe(&c));
        }
        if c["family"] == "format1_width" {
            c["described"] = json!(if c["big"] == true { iftf1::describe_big(&c) } else { iftf1::describe(&c) });
        }
        if c["driver"] == "colridx" {
            c["described"] = json!(colridx::describe(&c));
        }
        if c["driver"] == "colrgrad" {
            c["described"] = json!(colrgrad::describe(&c));
        }
        if c["driver"] == "capfam" {
            c["described"] = json!(capfam::describe(&c));
        }
        if c["driver"] == "brotli" {
            c["described"] = json!(brotlifam::describe(&c));
        }
        if c["driver"] == "metafam" {
            c["described"] = json!(metafam::describe(&c));
        }
        if c["driver"] == "ttprog" {
            c["described"] = json!(ttprog::describe(&c));
        }
    }
    c
}


/// Batch drivers: the follow-up case that continues a batch after the sub-case that killed the worker.
pub fn resume_batch(case_json: &str, f: &Failure) -> Option<String> {
    let mut c: Value = serde_json::from_str(case_json).ok()?;
    let batch = (matches!(c["driver"].as_str(), Some("ttprog") | Some("cffprog") | Some("cff2prog")) && !c["o1"].is_null())
        || (c["driver"] == "glyfgraph" && !c["s0"].is_null())
        || c["driver"] == "capfam"
        || c["driver"] == "colrgrad"
        || c["driver"] == "colridx"
        || c["family"] == "format1_width"
        || c["driver"] == "iftf2"
        || c["driver"] == "metafam"
        || c["driver"] == "brotli";
    if !batch || !c["only"].is_null() {
        return None;
    }
    c["from"] = json!(f.sub + 1);
    Some(c.to_string())
}

/// Remove the report-only fields of a recorded case before re-executing it.
pub fn strip_replay_fields(case: &Value) -> Value {
    let mut c = case.clone();
    if let Some(o) = c.as_object_mut() {
        o.remove("observed");
        o.remove("described");
        o.remove("from");
    }
    c
}

// ---------------------------------------------------------------------------------------------
// the phases of a run (case generators + bounds), shared with c20
// ---------------------------------------------------------------------------------------------

pub struct Phase {
    pub label: &'static str,
    pub n: u64,
    pub get: Box<dyn Fn(u64) -> Value + Sync + Send>,
    /// cases handed to a worker at a time
    pub chunk: u64,
    /// (key, value) pairs for `run.bound`
    pub bounds: Vec<(String, Value)>,
    pub sample: Value,
}

fn vec_phase(label: &'static str, cases: Vec<Value>, chunk: u64, sample_at: usize, bounds: Vec<(String, Value)>) -> Phase {
    let sample = cases.get(sample_at.min(cases.len().saturating_sub(1))).cloned().unwrap_or(Value::Null);
    let n = cases.len() as u64;
    Phase {
        label,
        n,
        get: Box::new(move |i| cases[i as usize].clone()),
        chunk,
        bounds,
        sample,
    }
}

/// All phases of the C02 run for a tier, in execution order. Err = a machinery gate failed.
/// Environment knobs (development only): C02_DEV_BYTES, C02_DEV_PLAN, C02_TT_N3=full.
pub fn phases(quick: bool) -> Result<Vec<Phase>, String> {
    let pick = |q: usize, t: usize| if quick { q } else { t };
    let mut out = vec![];
    // 1a. unmodified corpus
    let plan = if quick { "reduced" } else { "full" };
    out.push(vec_phase(
        "corpus",
        gen_corpus_cases(plan),
        1,
        0,
        vec![("corpus.plan".into(), skdrv::Plan::named(plan).unwrap().describe())],
    ));
    // 1a'. thorough only: the caller-memory alphabet crossed with every size x coordinate vector x target x
    // pedantic x glyph x path style, for a few small fonts (static with composites, variable+composite, variable+cvar, hinted)
    if !quick {
        let cases: Vec<Value> = MEMFULL_FONTS
            .iter()
            .filter(|f| fontcase::seed_bytes(f).is_some())
            .map(|f| skrifa_case(&fontcase::FontCase { seed: f.to_string(), devs: vec![], trunc: None }, "memfull"))
            .collect();
        out.push(vec_phase(
            "memfull",
            cases,
            1,
            0,
            vec![
                ("memfull.fonts".into(), json!(MEMFULL_FONTS)),
                ("memfull.plan".into(), skdrv::Plan::named("memfull").unwrap().describe()),
            ],
        ));
    }
    // 1b. one-byte / u16-boundary deviations of the corpus tables; byte budget per table: outline tables
    // and the small fixed headers get more
    let env_bytes: Option<usize> = std::env::var("C02_DEV_BYTES").ok().and_then(|s| s.parse().ok());
    let deep = ["glyf", "CFF ", "CFF2", "gvar", "maxp", "head", "hhea"];
    let (b_deep, b_other) = if quick { (128usize, 48usize) } else { (256, 160) };
    let max_bytes = move |font: &str, t: &str| {
        let b = env_bytes.unwrap_or(if deep.contains(&t) { b_deep } else { b_other });
        if HEAVY_SEEDS.contains(&font) {
            b.min(HEAVY_SEED_BYTES)
        } else {
            b
        }
    };
    let dplan = std::env::var("C02_DEV_PLAN").unwrap_or(if quick { "min" } else { "reduced" }.to_string());
    if skdrv::Plan::named(&dplan).is_none() {
        return Err(format!("unknown plan {dplan}"));
    }
    let space = gen_deviation_space(&|name, _| !quick || name.starts_with("font-test-data/test_data/ttf/"), &max_bytes, !quick);
    let bounds = vec![
        ("deviations.max_bytes_per_table".into(), json!({"glyf,CFF ,CFF2,gvar,maxp,head,hhea": max_bytes("", "glyf"), "other": max_bytes("", "name"),
            "heavy seeds (thorough only)": {"fonts": HEAVY_SEEDS, "bytes": HEAVY_SEED_BYTES}})),
        ("deviations.seed_fonts".into(), json!(if quick { "font-test-data/test_data/ttf/*" } else { "whole corpus" })),
        ("deviations.table_kinds".into(), json!(fontcase::TABLE_KINDS)),
        (
            "deviations.alphabet".into(),
            json!({"byte": fontcase::BYTE_ALPHABET, "u16_be": fontcase::U16_ALPHABET,
                   "u16_be_relative": if quick { json!("not in quick") } else { json!("len-2,len-1,len,len+1,pos,pos+1,pos+2,orig-1,orig+1") }}),
        ),
        ("deviations.plan".into(), skdrv::Plan::named(&dplan).unwrap().describe()),
        (
            "deviations.plan_for_klippa_fonts".into(),
            if dplan == "reduced" { skdrv::Plan::named("min").unwrap().describe() } else { json!("n/a (quick deviates font-test-data fonts only)") },
        ),
        (
            "deviations.plan_for_name_post_OS/2_CPAL".into(),
            match dplan.as_str() {
                "min" => skdrv::Plan::named("meta").unwrap().describe(),
                "reduced" => skdrv::Plan::named("min").unwrap().describe(),
                _ => json!("same"),
            },
        ),
    ];
    let sample = deviation_case(&space[space.len() / 2], &dplan);
    let n = space.len() as u64;
    let dp = dplan.clone();
    out.push(Phase {
        label: "deviations",
        n,
        get: Box::new(move |i| deviation_case(&space[i as usize], &dp)),
        chunk: 4,
        bounds,
        sample,
    });
    // 1c. table truncations of the corpus fonts (skrifa driver)
    let tr = gen_truncation_cases(&dplan, quick, &|name, _| !quick || name.starts_with("font-test-data/test_data/ttf/"));
    let mid = tr.len() / 2;
    out.push(vec_phase(
        "truncations",
        tr,
        4,
        mid,
        vec![
            ("truncations".into(), truncation_bounds(quick)),
            ("truncations.seed_fonts".into(), json!(if quick { "font-test-data/test_data/ttf/*" } else { "whole corpus" })),
            ("truncations.plans".into(), json!("as for deviations (min / meta in quick; reduced / min in thorough)")),
        ],
    ));
    // 2. TrueType program enumeration
    let pre = ttprog::preludes();
    let all_pre: Vec<usize> = (0..ttprog::N_BASE_PRELUDES).collect();
    let delta_pre = ttprog::delta_prelude_indices();
    let maxp_used: Vec<usize> = if quick { vec![0, 1] } else { vec![0, 1, 2] };
    // ppem-coupled delta preludes (exceptions that fire at the hinted size), small maxp limits only: with
    // zero/one limits the pushes of the prelude already overflow the value stack. They come first in the
    // enumeration order: c20 executes this phase under a wall budget, in enumeration order.
    let mut tt = ttprog::gen_cases(2, &delta_pre, &[0]);
    tt.extend(ttprog::gen_cases(2, &all_pre, &maxp_used));
    let mut bounds = vec![(
        "ttprog.length2".to_string(),
        json!({"slots": ttprog::SLOTS, "preludes": all_pre.iter().map(|i| pre[*i].0.clone()).collect::<Vec<_>>(),
            "delta_preludes (maxp small only)": delta_pre.iter().map(|i| pre[*i].0.clone()).collect::<Vec<_>>(),
            "maxp": maxp_used.iter().map(|i| ttprog::MAXP_SETTINGS[*i].0).collect::<Vec<_>>(), "opcodes": 256,
            "programs_per_slot_prelude_maxp": 1 + 256 + 65536, "sizes": ttprog::SIZES, "targets": ["Mono", "Smooth Normal"], "pedantic": [false, true]}),
    )];
    if !quick {
        // length 3: the full 256^3 space for the empty and the index-bearing prelude under the small limits
        let full = std::env::var("C02_TT_N3").as_deref() == Ok("full");
        let n3_pre: Vec<usize> = if full { all_pre.clone() } else { vec![0, 4] };
        let n3_maxp: Vec<usize> = if full { maxp_used.clone() } else { vec![0] };
        let t3: Vec<Value> = ttprog::gen_cases(3, &n3_pre, &n3_maxp).into_iter().filter(|c| !c["o1"].is_null()).collect();
        bounds.push((
            "ttprog.length3".to_string(),
            json!({"preludes": n3_pre.iter().map(|i| pre[*i].0.clone()).collect::<Vec<_>>(),
                "maxp": n3_maxp.iter().map(|i| ttprog::MAXP_SETTINGS[*i].0).collect::<Vec<_>>(), "programs_per_slot_prelude_maxp": 16_777_216u64}),
        ));
        tt.extend(t3);
    }
    out.push(vec_phase("ttprog", tt, pick(16, 1) as u64, 300, bounds));
    // 2b. composite glyph reference graphs
    out.push(vec_phase(
        "glyfgraph",
        glyfgraph::gen_cases(),
        1,
        3,
        vec![(
            "glyfgraph".into(),
            json!({"glyphs": 3, "shapes_per_glyph": glyfgraph::N_SHAPES, "fonts": glyfgraph::N_SHAPES.pow(3),
                "chain_depths": glyfgraph::CHAIN_DEPTHS, "chain_ends": ["simple", "cycle to glyph 0"]}),
        )],
    ));
    // 2d. capacity boundary families (structured sweeps across every fixed capacity)
    out.push(vec_phase("capfam", capfam::gen_cases(), 1, 1, vec![("capfam".into(), capfam::bounds())]));
    // 2e. synthesised COLR v1 gradient family
    colrgrad::sanity().map_err(|e| format!("colrgrad assembler gate: {e}"))?;
    out.push(vec_phase("colrgrad", colrgrad::gen_cases(), 1, 9, vec![("colrgrad".into(), colrgrad::bounds())]));
    // 2f. COLR index-width boundary family
    colridx::sanity().map_err(|e| format!("colridx template gate: {e}"))?;
    out.push(vec_phase("colridx", colridx::gen_cases(), 1, 0, vec![("colridx".into(), colridx::bounds())]));
    // 2g. metadata boundary families (hand-assembled minimal fonts, every non-outline public skrifa API)
    out.push(vec_phase("metafam", metafam::gen_cases(quick), 1, 0, vec![("metafam".into(), metafam::bounds(quick))]));
    // 2h. the real shared-brotli decoder on hostile streams / dictionaries / output bounds
    // (not in the strict-profile re-run of c20: the decoder is C code behind a wrapper without arithmetic, and its
    // one finding on the unchanged tree -- the unchecked output-bound pre-allocation -- is a C02 matter)
    if !cfg!(debug_assertions) {
        out.push(vec_phase("brotli", brotlifam::gen_cases(), 1, 0, vec![("brotli".into(), brotlifam::bounds())]));
    }
    // 2c. klippa subsetter (observations in C02, judged by C20)
    let (ksize, kbytes) = if quick { (8 << 10, 32) } else { (64 << 10, 128) };
    let mut kl = gen_klippa_cases(ksize, kbytes, !quick);
    kl.extend(gen_truncation_cases("klippa", quick, &|name, data| klipdrv::seed_filter(data, ksize) && !HEAVY_SEEDS.contains(&name)));
    out.push(vec_phase(
        "klippa",
        kl,
        8,
        7,
        vec![(
            "klippa".into(),
            json!({"seeds": format!("glyf-flavoured corpus fonts <= {ksize} bytes, without {HEAVY_SEEDS:?}"), "tables": klipdrv::TABLE_KINDS,
                "deviated_bytes_per_table": kbytes, "requests": klipdrv::REQUESTS,
                "flag_sets": klipdrv::FLAG_SETS.iter().map(|f| f.0).collect::<Vec<_>>(),
                "truncations": truncation_bounds(quick),
                "judged": "no (outside C02's statement; C20 judges arithmetic panics)"}),
        )],
    ));
    // 3. CFF charstring enumeration
    cffprog::sanity().map_err(|e| format!("cffprog assembler gate: {e}"))?;
    let cn = if quick { 2u32 } else { 3 };
    out.push(vec_phase(
        "cffprog",
        cffprog::gen_cases(cn),
        1,
        5,
        vec![(
            "cffprog".into(),
            json!({"max_tokens": cn, "token_alphabet": cffprog::tokens().len(),
                "preludes": cffprog::preludes().iter().map(|p| p.0).collect::<Vec<_>>(),
                "subrs": "global {self-call, return, call local 0}, local {self-call, return, call global 0}",
                "draws": "unhinted unscaled + 13.5, hinted interpreter (CFF hinter) 13.5, auto-hinter 13.5"}),
        )],
    ));
    // 3b. CFF2 charstrings with blend / vsindex against a real variation store
    cff2prog::sanity().map_err(|e| format!("cff2prog assembler gate: {e}"))?;
    out.push(vec_phase(
        "cff2prog",
        cff2prog::gen_cases(cn),
        1,
        20,
        vec![(
            "cff2prog".into(),
            json!({"max_tokens": cn, "token_alphabet": cff2prog::tokens().len(),
                "preludes": cff2prog::preludes().iter().map(|p| p.0).collect::<Vec<_>>(),
                "variation_store": "1 axis, regions {[0,1,1], [-1,-1,0]}, ivd0 -> {0,1}, ivd1 -> {1}, ivd2 -> {0, 5 (missing)}; vsindex 3 out of range",
                "locations": ["default", "wght +0.5"],
                "draws": "per location: unhinted unscaled + 13.5, hinted (CFF hinter) 13.5"}),
        )],
    ));
    // 4. IFT client tuples
    let ift_bytes = pick(96, 4096);
    // the format-1 width-boundary family comes first (c20 runs phases in enumeration order under a budget)
    iftf1::sanity().map_err(|e| format!("ift format 1 family gate: {e}"))?;
    let mut ift = iftf1::gen_cases();
    ift.extend(iftdrv::gen_truncation_cases(!quick));
    ift.extend(iftdrv::gen_cases(ift_bytes, !quick));
    let lv = iftdrv::levels(!quick);
    let defs = iftdrv::defs();
    let third = ift.len() / 3;
    out.push(vec_phase(
        "ift",
        ift,
        16,
        third,
        vec![(
            "ift".into(),
            json!({"scenarios": iftdrv::scenarios().iter().map(|s| s.name).collect::<Vec<_>>(),
                "format1_width_family": iftf1::bounds(),
                "truncations": "every blob of every scenario shortened by k = 1..=32 bytes",
                "deviated_bytes_per_blob": ift_bytes,
                "alphabet": {"byte": fontcase::BYTE_ALPHABET, "u16_be": fontcase::U16_ALPHABET, "u16_be_relative": "len-2,len-1,len,len+1,pos,pos+1,pos+2,orig-1,orig+1"},
                "definitions": lv.defs.iter().map(|i| defs[*i].0).collect::<Vec<_>>(),
                "decoders": lv.decoders.iter().map(|i| match iftdrv::DECODERS[*i] { None => "noop".to_string(), Some(k) => format!("fails at call {k}") }).collect::<Vec<_>>(),
                "status_maps": lv.maps.iter().map(|i| iftdrv::STATUS_MAPS[*i]).collect::<Vec<_>>(), "rounds": 3}),
        )],
    ));
    // 5. IFT format-2 entry-chain boundary family (hand-assembled maps, own driver)
    out.push(vec_phase("iftf2", iftf2::gen_cases(), 1, 0, vec![("iftf2".into(), iftf2::bounds())]));
    Ok(out)
}
