//! Driver 7: synthesised COLR v1 gradient family `colrgrad`.
//!
//! One hand-assembled COLR v1 table per item (inside a 3-glyph glyf font with a one-axis fvar): glyph 2 is a
//! colour glyph whose root paint is one of PaintLinearGradient (4), PaintVarLinearGradient (5),
//! PaintRadialGradient (6), PaintVarRadialGradient (7), PaintSweepGradient (8), PaintVarSweepGradient (9) —
//! directly, or as the child of a PaintGlyph (10) clipping to glyph 1. The table carries an
//! ItemVariationStore (1 axis, 1 region [0,1,1], one sub-table with 12 rows of one word delta) so that the
//! Var forms resolve `varIndexBase` 0 (geometry) and 6 (colour stops) at a non-default location.
//! Enumerated completely:  root (6) × wrap (2)   [one case each]   ×
//!     ColorLine extend byte ∈ {0, 1, 2, 3, 0x7F, 0xFF}             (≥ 3 decodes to `Extend::Unknown`)
//!   × stop list ∈ STOPS   (none, single, two equal offsets, 0/1, unordered, outside [0,1], 3 with duplicates)
//!   × geometry ∈ GEOMETRIES (generic, coincident, zero extent, full turn / far apart, reversed, extreme values).
//! Each item: `ColorGlyph::paint` with a recording painter and `bounding_box`, at the default location and
//! at wght = +1.0 (normalised).   Oracle: returns, never panics (C20: no overflow / debug-assert panic).

use crate::glyfgraph;
use crate::skdrv::{Acc, RecPainter};
use crate::sup::{set_sub, CaseOut};
use read_fonts::tables::glyf::CurvePoint;
use read_fonts::FontRef;
use serde_json::{json, Value};
use skrifa::instance::{LocationRef, NormalizedCoord, Size};
use skrifa::raw::types::GlyphId;
use skrifa::{MetadataProvider, Tag};
use vcore::Fnv;
use write_fonts::tables::glyf::{Bbox, Contour, Glyph, SimpleGlyph};
use write_fonts::FontBuilder;

pub const ST: usize = 28;

pub const ROOTS: [(u8, &str); 6] = [
    (4, "PaintLinearGradient"),
    (5, "PaintVarLinearGradient"),
    (6, "PaintRadialGradient"),
    (7, "PaintVarRadialGradient"),
    (8, "PaintSweepGradient"),
    (9, "PaintVarSweepGradient"),
];
pub const EXTENDS: [u8; 6] = [0, 1, 2, 3, 0x7F, 0xFF];
/// stop offsets (F2Dot14 as f32)
pub const STOPS: [(&str, &[f32]); 7] = [
    ("no stops", &[]),
    ("single stop", &[0.5]),
    ("two equal offsets", &[0.3, 0.3]),
    ("0 and 1", &[0.0, 1.0]),
    ("unordered", &[0.8, 0.2]),
    ("outside [0,1]", &[-0.5, 1.5]),
    ("three with duplicates", &[0.25, 0.25, 0.75]),
];
pub const GEOMETRIES: [&str; 6] = [
    "generic",
    "coincident (p0=p1=p2 / equal circles / start angle = end angle)",
    "zero extent (p0=p1 / radii 0 / both angles 0)",
    "full turn (-180..180 degrees) / far apart",
    "reversed (p1 before p0 / r1 < r0 / end angle < start angle)",
    "extreme field values",
];

fn be16(v: &mut Vec<u8>, x: u16) {
    v.extend_from_slice(&x.to_be_bytes())
}
fn bei16(v: &mut Vec<u8>, x: i16) {
    v.extend_from_slice(&x.to_be_bytes())
}
fn f2dot14(x: f32) -> i16 {
    (x * 16384.0).round().clamp(-32768.0, 32767.0) as i16
}

/// (Var)ColorLine
fn color_line(extend: u8, stops: &[f32], var: bool) -> Vec<u8> {
    let mut v = vec![extend];
    be16(&mut v, stops.len() as u16);
    for (i, s) in stops.iter().enumerate() {
        bei16(&mut v, f2dot14(*s));
        be16(&mut v, i as u16); // palette index
        bei16(&mut v, f2dot14(1.0)); // alpha
        if var {
            v.extend_from_slice(&(6u32 + 2 * i as u32).to_be_bytes());
        }
    }
    v
}

/// The gradient paint table (color line placed right after it).
fn gradient(format: u8, geometry: usize, extend: u8, stops: &[f32]) -> Vec<u8> {
    let var = format % 2 == 1;
    let mut p = vec![format];
    let body_len = match format {
        4 | 5 => 12,
        6 | 7 => 12,
        _ => 8,
    } + if var { 4 } else { 0 };
    let cl_off = 4 + body_len as u32;
    p.extend_from_slice(&cl_off.to_be_bytes()[1..]); // Offset24
    match format {
        4 | 5 => {
            let g: [i16; 6] = match geometry {
                0 => [0, 0, 100, 0, 0, 100],
                1 => [50, 50, 50, 50, 50, 50],
                2 => [10, 10, 10, 10, 90, 40],
                3 => [-30000, -30000, 30000, 30000, -30000, 30000],
                4 => [100, 0, 0, 0, 100, 100],
                _ => [i16::MIN, i16::MAX, i16::MAX, i16::MIN, i16::MIN, i16::MIN],
            };
            for x in g {
                bei16(&mut p, x);
            }
        }
        6 | 7 => {
            // x0 y0 r0 x1 y1 r1
            let g: [i32; 6] = match geometry {
                0 => [0, 0, 10, 50, 50, 100],
                1 => [50, 50, 40, 50, 50, 40],
                2 => [10, 10, 0, 10, 10, 0],
                3 => [-30000, -30000, 1, 30000, 30000, 65535],
                4 => [50, 50, 100, 0, 0, 10],
                _ => [-32768, 32767, 65535, 32767, -32768, 65535],
            };
            for (i, x) in g.iter().enumerate() {
                if i % 3 == 2 {
                    be16(&mut p, *x as u16);
                } else {
                    bei16(&mut p, *x as i16);
                }
            }
        }
        _ => {
            // cx cy start end (angles F2Dot14, 1.0 = 180 degrees)
            let (cx, cy, s, e): (i16, i16, i16, i16) = match geometry {
                0 => (50, 50, f2dot14(0.0), f2dot14(0.5)),
                1 => (50, 50, f2dot14(0.25), f2dot14(0.25)),
                2 => (0, 0, 0, 0),
                3 => (50, 50, f2dot14(-1.0), f2dot14(1.0)),
                4 => (50, 50, f2dot14(0.75), f2dot14(-0.75)),
                _ => (i16::MIN, i16::MAX, i16::MIN, i16::MAX),
            };
            for x in [cx, cy, s, e] {
                bei16(&mut p, x);
            }
        }
    }
    if var {
        p.extend_from_slice(&0u32.to_be_bytes()); // varIndexBase
    }
    debug_assert_eq!(p.len() as u32, cl_off);
    p.extend(color_line(extend, stops, var));
    p
}

/// ItemVariationStore: 1 axis, 1 region [0, 1, 1], one ItemVariationData with 12 rows x 1 word delta
fn var_store() -> Vec<u8> {
    let mut v = vec![];
    be16(&mut v, 1);
    v.extend_from_slice(&12u32.to_be_bytes()); // region list offset
    be16(&mut v, 1);
    v.extend_from_slice(&22u32.to_be_bytes()); // ivd offset: 12 + 4 + 6
    be16(&mut v, 1); // axis count
    be16(&mut v, 1); // region count
    for w in [0i16, 0x4000, 0x4000] {
        bei16(&mut v, w);
    }
    debug_assert_eq!(v.len(), 22);
    be16(&mut v, 12); // itemCount
    be16(&mut v, 1); // wordDeltaCount
    be16(&mut v, 1); // regionIndexCount
    be16(&mut v, 0);
    for d in [100i16, -100, 50, -50, 8192, -8192, 4096, -4096, 16384, -16384, 1, -1] {
        bei16(&mut v, d);
    }
    v
}

pub fn colr_table(format: u8, wrap: bool, geometry: usize, extend: u8, stops: &[f32]) -> Vec<u8> {
    let grad = gradient(format, geometry, extend, stops);
    // BaseGlyphList: count, record (gid 2, paint offset 10), paint(s)
    let mut bgl = 1u32.to_be_bytes().to_vec();
    be16(&mut bgl, 2);
    bgl.extend_from_slice(&10u32.to_be_bytes());
    if wrap {
        bgl.push(10); // PaintGlyph
        bgl.extend_from_slice(&6u32.to_be_bytes()[1..]);
        be16(&mut bgl, 1);
    }
    bgl.extend(grad);
    let mut t = vec![];
    be16(&mut t, 1); // version
    be16(&mut t, 0);
    t.extend_from_slice(&0u32.to_be_bytes());
    t.extend_from_slice(&0u32.to_be_bytes());
    be16(&mut t, 0);
    t.extend_from_slice(&34u32.to_be_bytes()); // baseGlyphListOffset
    t.extend_from_slice(&0u32.to_be_bytes()); // layerList
    t.extend_from_slice(&0u32.to_be_bytes()); // clipList
    t.extend_from_slice(&0u32.to_be_bytes()); // varIndexMap
    t.extend_from_slice(&(34 + bgl.len() as u32).to_be_bytes()); // itemVariationStore
    debug_assert_eq!(t.len(), 34);
    t.extend(bgl);
    t.extend(var_store());
    t
}

pub struct Parts {
    base: Vec<u8>,
    fvar: Vec<u8>,
}
impl Parts {
    pub fn new() -> Self {
        Self::with_glyph_count(3)
    }
    /// glyph 0 empty, glyph 1 a triangle, the rest empty outlines (colour glyphs)
    pub fn with_glyph_count(n: usize) -> Self {
        let pts: Vec<CurvePoint> = [(0, 0), (500, 0), (250, 700)].iter().map(|(x, y)| CurvePoint::new(*x, *y, true)).collect();
        let c: Contour = pts.into();
        let tri = Glyph::Simple(SimpleGlyph {
            bbox: Bbox { x_min: 0, y_min: 0, x_max: 500, y_max: 700 },
            contours: vec![c],
            instructions: vec![],
        });
        let mut glyphs = vec![Glyph::Empty, tri];
        glyphs.resize(n.max(2), Glyph::Empty);
        let base = glyfgraph::build(&glyphs);
        let mut fvar = vec![0, 1, 0, 0];
        for x in [16u16, 2, 1, 20, 0, 8] {
            be16(&mut fvar, x);
        }
        fvar.extend_from_slice(b"wght");
        for v in [100i32 << 16, 400 << 16, 900 << 16] {
            fvar.extend_from_slice(&v.to_be_bytes());
        }
        be16(&mut fvar, 0);
        be16(&mut fvar, 256);
        Parts { base, fvar }
    }
    pub fn build(&self, colr: Vec<u8>) -> Vec<u8> {
        let mut fb = FontBuilder::new();
        fb.add_raw(Tag::new(b"COLR"), colr);
        fb.add_raw(Tag::new(b"fvar"), self.fvar.clone());
        if let Ok(f) = FontRef::new(&self.base) {
            fb.copy_missing_tables(f);
        }
        fb.build()
    }
}
impl Default for Parts {
    fn default() -> Self {
        Self::new()
    }
}

pub fn item_count() -> u64 {
    (EXTENDS.len() * STOPS.len() * GEOMETRIES.len()) as u64
}

/// (extend index, stops index, geometry index) of item idx
pub fn item(idx: u64) -> (usize, usize, usize) {
    let i = idx as usize;
    (i / (STOPS.len() * GEOMETRIES.len()), (i / GEOMETRIES.len()) % STOPS.len(), i % GEOMETRIES.len())
}

pub fn describe(spec: &Value) -> String {
    let Some(idx) = spec["only"].as_u64() else {
        return String::new();
    };
    let (e, s, g) = item(idx);
    format!(
        "root={} wrap_in_PaintGlyph={} extend=0x{:02x} stops={} geometry={}",
        spec["root"], spec["wrap"], EXTENDS[e], STOPS[s].0, GEOMETRIES[g]
    )
}

pub fn exercise(acc: &mut Acc, font_bytes: &[u8]) -> (u64, u64) {
    let mut painted = (0u64, 0u64);
    let Some(Ok(font)) = acc.call(ST, || FontRef::new(font_bytes)) else {
        acc.count("font_rejected");
        return painted;
    };
    let Some(Some(cg)) = acc.call(ST, || font.color_glyphs().get(GlyphId::new(2))) else {
        acc.count("colour_glyph_absent");
        return painted;
    };
    let mut h = Fnv::new();
    let mut any = false;
    for loc in [vec![], vec![NormalizedCoord::from_f32(1.0)]] {
        let r = acc.call(ST, || {
            let mut p = RecPainter {
                h: Fnv::new(),
                n: 0,
                cached_ok: false,
            };
            let r = cg.paint(LocationRef::new(&loc), &mut p);
            (r, p.h.finish(), p.n)
        });
        if let Some((r, ph, pn)) = r {
            match r {
                Ok(()) => {
                    acc.count("paint_ok");
                    painted.0 += 1;
                    painted.1 += pn;
                    any |= pn > 0;
                    h.byte(1);
                    h.u64(ph);
                    h.u64(pn);
                }
                Err(e) => {
                    acc.count("paint_err");
                    h.byte(2);
                    h.str(&format!("{e:?}"));
                }
            }
        }
        for size in [Size::unscaled(), Size::new(13.5)] {
            if let Some(b) = acc.call(ST, || cg.bounding_box(LocationRef::new(&loc), size)) {
                h.str(&format!("{b:?}"));
            }
        }
    }
    acc.observe(h.finish(), any);
    painted
}

/// `{"driver":"colrgrad","root":4..=9,"wrap":bool,"only":idx?,"from":idx?}`
pub fn drive(spec: &Value) -> CaseOut {
    let root = spec["root"].as_u64().unwrap_or(0) as u8;
    let Some(wrap) = spec["wrap"].as_bool() else {
        return crate::bad_case(format!("bad colrgrad case {spec}"));
    };
    if !(4..=9).contains(&root) {
        return crate::bad_case(format!("bad colrgrad case {spec}"));
    }
    let parts = Parts::new();
    let mut acc = Acc::new("colrgrad");
    let only = spec["only"].as_u64();
    for idx in spec["from"].as_u64().unwrap_or(0)..item_count() {
        if only.map(|o| o != idx).unwrap_or(false) {
            continue;
        }
        set_sub(idx);
        acc.sub_override = Some(idx);
        acc.evals += 1;
        let (e, s, g) = item(idx);
        let font = parts.build(colr_table(root, wrap, g, EXTENDS[e], STOPS[s].1));
        exercise(&mut acc, &font);
    }
    acc.finish()
}

pub fn gen_cases() -> Vec<Value> {
    let mut out = vec![];
    for (root, _) in ROOTS {
        for wrap in [false, true] {
            out.push(json!({"driver": "colrgrad", "root": root, "wrap": wrap}));
        }
    }
    out
}

pub fn bounds() -> Value {
    json!({"roots": ROOTS.iter().map(|r| r.1).collect::<Vec<_>>(), "wrap": ["direct", "child of PaintGlyph"],
        "extend_bytes": EXTENDS, "stop_lists": STOPS.iter().map(|s| s.0).collect::<Vec<_>>(), "geometries": GEOMETRIES,
        "locations": ["default", "wght +1.0"], "fonts": ROOTS.len() as u64 * 2 * item_count()})
}

/// Gate for the hand assembler (machinery): the generic linear, radial and sweep gradients with stops 0/1 and
/// extend pad must paint callbacks at both locations, directly and under PaintGlyph.
pub fn sanity() -> Result<(), String> {
    let parts = Parts::new();
    for (root, name) in ROOTS {
        for wrap in [false, true] {
            let mut acc = Acc::new("colrgrad");
            let font = parts.build(colr_table(root, wrap, 0, 0, &[0.0, 1.0]));
            let (ok, callbacks) = exercise(&mut acc, &font);
            if !acc.viols.is_empty() {
                return Err(format!("sanity {name} panicked: {}", acc.viols[0].what));
            }
            if ok != 2 || callbacks == 0 {
                return Err(format!("sanity {name} (wrap={wrap}) did not paint: {ok} ok paints, {callbacks} callbacks"));
            }
        }
    }
    Ok(())
}
